#!/usr/bin/env python3
"""gen_spl_tables.py — translator for C16.

Re-extracts, 1:1 and textually, the tables the C16 model depends on from the repository source
($VERIF_REPO, default /repo) and rewrites lean/Spl/Spl/Generated/Tables.lean:

  * the three `#[ix_set(use_repr)]` instruction-set enums (repr width, variant order, rustc
    discriminant rule: previous + 1, explicit `= n` resets), the payload struct of every variant
    (borsh field order and types) and its `empty_star_frame_instruction!` account struct (field order,
    wrapper types -> signer / writable flags);
  * `AuthorityType` (borsh encodes the variant *index*), `AccountState` (repr discriminants);
  * the packed state structs `MintAccountData`, `TokenAccountData`, `PodOption` (field order/types,
    `NONE` / `SOME` tag constants), `MintAccount::LEN`, `TokenAccount::LEN`;
  * program ids (`System::ID`, `Token::ID`, `AssociatedToken::ID`), the Rent sysvar id
    (pinocchio `RENT_ID`, the value `Sysvar<Rent>` defaults to on the client path);
  * the seed list and program of `AssociatedToken::find_address_with_bump`.

Anything it does not understand is an error (exit 1): a changed source shape must not be silently
mapped onto the old table. The previous output is diffed and the diff printed (bin/check keeps the
tail in the evidence).
"""
import difflib, glob, os, re, sys

REPO = os.environ.get("VERIF_REPO", "/repo")
VERIF = os.path.dirname(os.path.dirname(os.path.abspath(__file__)))
OUT = os.path.join(VERIF, "lean", "Spl", "Spl", "Generated", "Tables.lean")


def die(msg):
    print("gen_spl_tables: ERROR: " + msg, file=sys.stderr)
    sys.exit(1)


def read(rel):
    p = os.path.join(REPO, rel)
    if not os.path.exists(p):
        die(f"missing source file {p}")
    return open(p).read()


def strip_comments(src):
    src = re.sub(r"/\*.*?\*/", "", src, flags=re.S)
    return re.sub(r"//[^\n]*", "", src)


def strip_attrs(src):
    """remove every `#[ ... ]` (bracket-matched)"""
    out, i, n = [], 0, len(src)
    while i < n:
        if src.startswith("#[", i):
            depth, j = 0, i + 1
            while j < n:
                if src[j] == "[":
                    depth += 1
                elif src[j] == "]":
                    depth -= 1
                    if depth == 0:
                        break
                j += 1
            i = j + 1
            continue
        out.append(src[i]); i += 1
    return "".join(out)


def split_top(s):
    """split on commas at bracket depth 0"""
    parts, depth, cur = [], 0, []
    for ch in s:
        if ch in "<([{":
            depth += 1
        elif ch in ">)]}":
            depth -= 1
        if ch == "," and depth == 0:
            parts.append("".join(cur)); cur = []
        else:
            cur.append(ch)
    parts.append("".join(cur))
    return [p.strip() for p in parts if p.strip()]


def body_of(src, header_re, what):
    m = re.search(header_re, src)
    if not m:
        die(f"cannot find {what}")
    i = src.index("{", m.end() - 1) if src[m.end() - 1] != "{" else m.end() - 1
    depth, j = 0, i
    while j < len(src):
        if src[j] == "{":
            depth += 1
        elif src[j] == "}":
            depth -= 1
            if depth == 0:
                return src[i + 1:j]
        j += 1
    die(f"unbalanced braces in {what}")


def parse_enum(raw, name):
    """-> (repr, [(variant, payload-or-None, discriminant, index)])"""
    src = strip_comments(raw)
    m = re.search(r"#\[repr\((\w+)\)\]\s*pub enum " + name + r"\b", src)
    if not m:
        die(f"enum {name}: no `#[repr(..)]` directly before `pub enum {name}`")
    rep = m.group(1)
    body = strip_attrs(body_of(src, r"pub enum " + name + r"\s*\{", f"enum {name}"))
    out, nxt = [], 0
    for idx, item in enumerate(split_top(body)):
        mm = re.fullmatch(r"(\w+)\s*(?:\(\s*([\w:<>]+)\s*\))?\s*(?:=\s*(\d+))?", item)
        if not mm:
            die(f"enum {name}: cannot parse variant `{item}`")
        v, payload, explicit = mm.groups()
        disc = int(explicit) if explicit is not None else nxt
        nxt = disc + 1
        out.append((v, payload, disc, idx))
    return rep, out


def parse_struct(raw, name):
    """-> list of (field name, type); tuple fields are named f0, f1…; unit struct -> []"""
    src = strip_attrs(strip_comments(raw))
    m = re.search(r"pub struct " + name + r"\b\s*(?:<[^>{;(]*>)?\s*(?:where[^{;]*)?([;{(])", src)
    if not m:
        die(f"cannot find struct {name}")
    kind = m.group(1)
    if kind == ";":
        return []
    if kind == "(":
        j = src.index(")", m.end())
        fs = split_top(src[m.end():j])
        return [(f"f{i}", re.sub(r"^pub(\([^)]*\))?\s+", "", f).strip()) for i, f in enumerate(fs)]
    body = body_of(src[m.start():], r"pub struct " + name + r"\b[^{;]*\{", f"struct {name}")
    out = []
    for f in split_top(body):
        mm = re.fullmatch(r"(?:pub(?:\([^)]*\))?\s+)?(\w+)\s*:\s*(.+)", f, flags=re.S)
        if not mm:
            die(f"struct {name}: cannot parse field `{f}`")
        out.append((mm.group(1), re.sub(r"\s+", "", mm.group(2))))
    return out


B58 = "123456789ABCDEFGHJKLMNPQRSTUVWXYZabcdefghijkmnopqrstuvwxyz"


def b58(s):
    n = 0
    for c in s:
        if c not in B58:
            die(f"bad base58 `{s}`")
        n = n * 58 + B58.index(c)
    raw = n.to_bytes((n.bit_length() + 7) // 8, "big")
    pad = len(s) - len(s.lstrip("1"))
    raw = b"\0" * pad + raw
    if len(raw) != 32:
        die(f"pubkey `{s}` does not decode to 32 bytes")
    return list(raw)


def program_id(raw, prog):
    src = strip_comments(raw)
    m = re.search(r"impl StarFrameProgram for " + prog + r"\s*\{(.*?)\n\}", src, flags=re.S)
    if not m:
        die(f"no `impl StarFrameProgram for {prog}`")
    body = m.group(1)
    mm = re.search(r'const ID: Pubkey = pubkey!\("(\w+)"\);', body)
    if mm:
        return b58(mm.group(1))
    mm = re.search(r"const ID: Pubkey = Pubkey::new_from_array\(\[(\d+); 32\]\);", body)
    if mm:
        return [int(mm.group(1))] * 32
    die(f"{prog}::ID: unknown form")


ARG_TY = {"u8": ".u8", "u64": ".u64", "Pubkey": ".pubkey", "Option<Pubkey>": ".optPubkey",
          "AuthorityType": ".authorityType"}
STATE_TY = {"PodOption<Pubkey>": ".podOptKey", "PodOption<u64>": ".podOptU64", "u64": ".u64", "u8": ".u8",
            "bool": ".bool", "Pubkey": ".key", "KeyFor<MintAccount>": ".key", "AccountState": ".state"}


def acct_ty(t, where):
    """wrapper types -> Lean AcctTy term (mirrors SingleSetMeta composition: Mut sets writable,
    Signer sets signer, everything else inherits)"""
    signer = writable = False
    rest = False
    cur = t
    while True:
        m = re.fullmatch(r"(\w+)<(.+)>", cur)
        head, inner = (m.group(1), m.group(2)) if m else (cur, None)
        if head == "Mut" and inner:
            writable = True; cur = inner; continue
        if head == "Signer":
            signer = True
            if inner is None:
                cur = "AccountInfo"
            else:
                cur = inner
            continue
        if head == "Rest" and inner and not rest and not signer and not writable:
            rest = True; cur = inner; continue
        if head == "AccountInfo" and inner is None:
            b = lambda x: "true" if x else "false"
            return f".rest {b(signer)} {b(writable)}" if rest else f".info {b(signer)} {b(writable)}"
        if head == "Sysvar" and inner == "Rent" and not (signer or writable or rest):
            return ".sysvarRent"
        if head == "Program" and inner in ("System", "Token") and not (signer or writable or rest):
            return f".program .{inner.lower()}"
        die(f"{where}: unsupported account type `{t}`")


def lean_list(xs):
    return "[" + ", ".join(str(x) for x in xs) + "]"


def ix_set(lines, raw, enum_name, lean_name, prefix):
    rep, variants = parse_enum(raw, enum_name)
    width = {"u8": 1, "u16": 2, "u32": 4, "u64": 8}.get(rep)
    if width is None:
        die(f"{enum_name}: unsupported repr {rep}")
    src = strip_comments(raw)
    pairs = dict(re.findall(r"empty_star_frame_instruction!\(\s*(\w+)\s*,\s*(\w+)\s*\)", src))
    lines.append(f"/-- `{enum_name}` (`#[repr({rep})]`, `use_repr`): one constructor per bound instruction. -/")
    lines.append(f"inductive {lean_name} where")
    for v, _, _, _ in variants:
        lines.append(f"  | {v}")
    lines.append("  deriving DecidableEq, Repr")
    lines.append(f"def {prefix}ReprBytes : Nat := {width}")
    lines.append(f"def {lean_name}.all : List {lean_name} := " + lean_list("." + v for v, _, _, _ in variants))
    lines.append(f"def {lean_name}.disc : {lean_name} → Nat")
    for v, _, d, _ in variants:
        lines.append(f"  | .{v} => {d}")
    lines.append(f"def {lean_name}.name : {lean_name} → String")
    for v, _, d, _ in variants:
        lines.append(f"  | .{v} => \"{v}\"")
    lines.append(f"/-- borsh field order and types of the payload struct of each variant -/")
    lines.append(f"def {lean_name}.fields : {lean_name} → List (FName × ArgTy)")
    for v, payload, _, _ in variants:
        if payload is None:
            die(f"{enum_name}::{v}: variant without payload")
        fs = parse_struct(raw, payload)
        items = []
        for fn, ft in fs:
            if ft not in ARG_TY:
                die(f"{payload}.{fn}: unsupported argument type `{ft}`")
            items.append(f"(.{fn}, {ARG_TY[ft]})")
        lines.append(f"  | .{v} => " + lean_list(items))
    lines.append(f"/-- account struct of each variant (`empty_star_frame_instruction!`), declared order -/")
    lines.append(f"def {lean_name}.accounts : {lean_name} → List (AName × AcctTy)")
    for v, payload, _, _ in variants:
        if payload not in pairs:
            die(f"{payload}: no empty_star_frame_instruction! pairing")
        fs = parse_struct(raw, pairs[payload])
        items = [f"(.{fn}, {acct_ty(ft, pairs[payload] + '.' + fn)})" for fn, ft in fs]
        lines.append(f"  | .{v} => " + lean_list(items))
    lines.append("")


def main():
    system = read("star_frame/src/program/system.rs")
    tok_ix = read("star_frame_spl/src/token/instructions.rs")
    tok_mod = read("star_frame_spl/src/token/mod.rs")
    tok_state = read("star_frame_spl/src/token/state.rs")
    ata = read("star_frame_spl/src/associated_token.rs")
    pod = read("star_frame_spl/src/pod.rs")
    pin = sorted(glob.glob(os.path.expanduser("~/.cargo/registry/src/*/pinocchio-0.9.2/src/sysvars/rent.rs")))
    if not pin:
        die("pinocchio-0.9.2 source not found in the cargo registry")
    m = re.search(r"pub const RENT_ID: Pubkey = \[([\d,\s]+)\];", open(pin[0]).read())
    if not m:
        die("pinocchio RENT_ID not found")
    rent_id = [int(x) for x in m.group(1).replace("\n", " ").split(",") if x.strip()]
    if len(rent_id) != 32:
        die("RENT_ID is not 32 bytes")
    sysvar_src = strip_comments(read("star_frame/src/account_set/sysvar.rs"))
    if not re.search(r"impl SysvarId for pinocchio::sysvars::rent::Rent\s*\{\s*fn id\(\)\s*->\s*Pubkey\s*\{\s*bytemuck::cast\(pinocchio::sysvars::rent::RENT_ID\)", sysvar_src):
        die("SysvarId for Rent no longer casts pinocchio RENT_ID")

    L = []
    L.append("import Spl.Types")
    L.append("/-! GENERATED by bin/gen_spl_tables.py from the repository source — do not edit.")
    L.append("Regenerated on every `bin/check C16`; a changed table re-proves `Spl.Props.C16` against it. -/")
    L.append("namespace Spl.Generated")
    L.append("open Spl")
    L.append("")
    L.append("def systemId : List Nat := " + lean_list(program_id(system, "System")))
    L.append("def tokenId : List Nat := " + lean_list(program_id(tok_mod, "Token")))
    L.append("def ataId : List Nat := " + lean_list(program_id(ata, "AssociatedToken")))
    L.append("/-- what `Sysvar<Rent>` puts in the metas when the client passes `None` (pinocchio `RENT_ID`) -/")
    L.append("def rentSysvarId : List Nat := " + lean_list(rent_id))
    L.append("")
    ix_set(L, system, "SystemInstructionSet", "SysIx", "sys")
    ix_set(L, tok_ix, "TokenInstructionSet", "TokIx", "tok")
    ix_set(L, ata, "AssociatedTokenInstructionSet", "AtaIx", "ata")

    # AuthorityType: a borsh-derived fieldless enum is encoded as its variant INDEX (u8)
    rep, vs = parse_enum(tok_ix, "AuthorityType")
    if any(p is not None for _, p, _, _ in vs):
        die("AuthorityType: variant with payload")
    if re.search(r"borsh\(use_discriminant\s*=\s*true\)", strip_comments(tok_ix)):
        die("AuthorityType: borsh(use_discriminant = true) is not modelled")
    L.append("inductive AuthorityType where")
    for v, _, _, _ in vs:
        L.append(f"  | {v}")
    L.append("  deriving DecidableEq, Repr")
    L.append("def AuthorityType.all : List AuthorityType := " + lean_list("." + v for v, _, _, _ in vs))
    L.append("/-- borsh variant index -/")
    L.append("def AuthorityType.idx : AuthorityType → Nat")
    for v, _, _, i in vs:
        L.append(f"  | .{v} => {i}")
    L.append("")

    # AccountState: CheckedBitPattern accepts exactly the declared discriminants
    rep, vs = parse_enum(tok_state, "AccountState")
    if rep != "u8":
        die("AccountState: repr is not u8")
    L.append("/-- `AccountState` discriminants in declaration order (`#[repr(u8)]`, CheckedBitPattern) -/")
    L.append("def accountStateDiscs : List (String × Nat) := " + lean_list(f'("{v}", {d})' for v, _, d, _ in vs))
    L.append("def accountStateValid : List Nat := " + lean_list(d for _, _, d, _ in vs))
    un = [d for v, _, d, _ in vs if v == "Uninitialized"]
    if len(un) != 1:
        die("AccountState::Uninitialized missing")
    L.append(f"def accountStateUninitialized : Nat := {un[0]}")
    L.append("")

    # packed state structs
    for sname, lname in (("MintAccountData", "mintFields"), ("TokenAccountData", "tokenFields")):
        src = strip_comments(tok_state)
        if not re.search(r"#\[repr\(C, packed\)\]\s*pub struct " + sname + r"\b", src):
            die(f"{sname}: not `#[repr(C, packed)]` directly before the struct")
        fs = parse_struct(tok_state, sname)
        items = []
        for fn, ft in fs:
            if ft not in STATE_TY:
                die(f"{sname}.{fn}: unsupported field type `{ft}`")
            items.append(f"(.{fn}, {STATE_TY[ft]})")
        L.append(f"/-- `{sname}` (`#[repr(C, packed)]`): declared field order -/")
        L.append(f"def {lname} : List (SName × STy) := " + lean_list(items))
    for ty, nm in (("MintAccount", "mintLen"), ("TokenAccount", "tokenLen")):
        body = body_of(strip_comments(tok_state), r"impl " + ty + r"\s*\{", f"impl {ty}")
        m = re.search(r"pub const LEN: usize = (\d+);", body)
        if not m:
            die(f"{ty}::LEN not found")
        L.append(f"def {nm} : Nat := {m.group(1)}")
    psrc = strip_comments(pod)
    if not re.search(r"#\[repr\(C, packed\)\]\s*(#\[[^\]]*\]\s*)*pub struct PodOption\b", psrc):
        die("PodOption: not `#[repr(C, packed)]`")
    pf = parse_struct(pod, "PodOption")
    parts = []
    for fn, ft in pf:
        if fn == "option":
            m = re.fullmatch(r"\[u8;(\d+)\]", ft)
            if not m:
                die(f"PodOption.option: unsupported type {ft}")
            parts.append(f".tag {m.group(1)}")
        elif fn == "value" and ft == "T":
            parts.append(".value")
        else:
            die(f"PodOption: unknown field {fn}: {ft}")
    L.append("/-- `PodOption<T>` (`#[repr(C, packed)]`): declared field order; `tag n` = `option: [u8; n]` -/")
    L.append("def podOptionLayout : List PodPart := " + lean_list(parts))

    def arr(name):
        m = re.search(r"pub const " + name + r": \[u8; (\d+)\] = \[([^\]]*)\];", psrc)
        if not m:
            die(f"PodOption::{name} not found")
        n, body = int(m.group(1)), m.group(2).strip()
        mm = re.fullmatch(r"(\d+);\s*(\d+)", body)
        vals = [int(mm.group(1))] * int(mm.group(2)) if mm else [int(x) for x in body.split(",") if x.strip()]
        if len(vals) != n:
            die(f"PodOption::{name}: length mismatch")
        return vals
    L.append("def podNone : List Nat := " + lean_list(arr("NONE")))
    L.append("def podSome : List Nat := " + lean_list(arr("SOME")))
    L.append("")

    # ATA derivation
    asrc = strip_comments(ata)
    body = body_of(asrc, r"pub fn find_address_with_bump\([^)]*\)\s*->\s*\(Pubkey, u8\)\s*\{", "find_address_with_bump")
    m = re.fullmatch(r"\s*Pubkey::find_program_address\(\s*&\[(.*?)\]\s*,\s*&([\w:]+)\s*,?\s*\)\s*", body, flags=re.S)
    if not m:
        die("find_address_with_bump: body is not a single Pubkey::find_program_address(&[..], &ID) call")
    seedmap = {"wallet.as_ref()": ".wallet", "Token::ID.as_ref()": ".tokenProgram", "mint.pubkey().as_ref()": ".mint"}
    seeds = []
    for s in split_top(m.group(1)):
        s = re.sub(r"\s+", "", s)
        if s not in seedmap:
            die(f"find_address_with_bump: unknown seed expression `{s}`")
        seeds.append(seedmap[s])
    progmap = {"Self::ID": ".ata", "Token::ID": ".token", "System::ID": ".system"}
    if m.group(2) not in progmap:
        die(f"find_address_with_bump: unknown program `{m.group(2)}`")
    L.append("/-- seed list and program of `AssociatedToken::find_address_with_bump` -/")
    L.append("def ataSeeds : List SeedTok := " + lean_list(seeds))
    L.append(f"def ataProgram : Prog := {progmap[m.group(2)]}")
    L.append("")
    L.append("end Spl.Generated")
    text = "\n".join(L) + "\n"

    os.makedirs(os.path.dirname(OUT), exist_ok=True)
    old = open(OUT).read() if os.path.exists(OUT) else ""
    if old != text:
        if old:
            d = list(difflib.unified_diff(old.splitlines(), text.splitlines(), "Tables.lean (previous run)", "Tables.lean (this run)", lineterm="", n=0))
            print("TABLE-DIFF (generated table changed since the previous run):")
            print("\n".join(d[:80]))
        else:
            print("TABLE-DIFF: (no previous table)")
        open(OUT, "w").write(text)
    else:
        print("tables unchanged")
    print(f"wrote {os.path.relpath(OUT, VERIF)} from {REPO}")


if __name__ == "__main__":
    main()
