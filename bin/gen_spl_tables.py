#!/usr/bin/env python3
"""gen_spl_tables.py — translator for C16.

Re-extracts, 1:1 and textually, the tables the C16 model depends on from the repository source
($VERIF_REPO, default /repo) and rewrites lean/Spl/Spl/Generated/Tables.lean:

  * the three `#[ix_set(use_repr)]` instruction-set enums (repr width, variant order, rustc
    discriminant rule: previous + 1, explicit `= n` resets), the payload struct of every variant
    (borsh field order and types) and its `empty_star_frame_instruction!` account struct (field order,
    wrapper types -> signer / writable flags);
  * `AuthorityType` (borsh encodes the variant *index*), `AccountState` (repr discriminants);
  * the packed state structs `MintAccountData`, `TokenAccountData`, `PodOption` (field order/types,
    `NONE` / `SOME` tag constants), `MintAccount::LEN`, `TokenAccount::LEN`;
  * program ids (`System::ID`, `Token::ID`, `AssociatedToken::ID`), the Rent sysvar id
    (pinocchio `RENT_ID`, the value `Sysvar<Rent>` defaults to on the client path);
  * the seed list and program of `AssociatedToken::find_address_with_bump`.

Expressions are EVALUATED (`ceval`: literals in any base with `_`/suffixes, `[e; n]`, arrays, byte strings,
`pubkey!`, `Pubkey::new_from_array`, same-crate `const` items, `| << + - *`, `size_of::<prim>()`), so the
tables depend on values, never on how a value is spelled; attributes, comments, `use` and item order do not
matter. An expression it cannot evaluate keeps the item's previously generated VALUE and prints
`gen_spl_tables: FALLBACK <item>: <reason>` (exit 0; bin/check records the line in the evidence) — safe because
the correspondence run compares every table entry with the compiled code (`table …` ops). A changed source
SHAPE (unknown field/wrapper type, missing item) is still an error (exit 1). The previous output is diffed and the diff printed (bin/check keeps the
tail in the evidence).
"""
import difflib, glob, os, re, sys

REPO = os.environ.get("VERIF_REPO", "/repo")
VERIF = os.path.dirname(os.path.dirname(os.path.abspath(__file__)))
OUT = os.path.join(VERIF, "lean", "Spl", "Spl", "Generated", "Tables.lean")


def die(msg):
    print("gen_spl_tables: ERROR: " + msg, file=sys.stderr)
    sys.exit(1)


def read(rel):
    p = os.path.join(REPO, rel)
    if not os.path.exists(p):
        die(f"missing source file {p}")
    return open(p).read()


def strip_comments(src):
    src = re.sub(r"/\*.*?\*/", "", src, flags=re.S)
    return re.sub(r"//[^\n]*", "", src)


def strip_attrs(src):
    """remove every `#[ ... ]` (bracket-matched)"""
    out, i, n = [], 0, len(src)
    while i < n:
        if src.startswith("#[", i):
            depth, j = 0, i + 1
            while j < n:
                if src[j] == "[":
                    depth += 1
                elif src[j] == "]":
                    depth -= 1
                    if depth == 0:
                        break
                j += 1
            i = j + 1
            continue
        out.append(src[i]); i += 1
    return "".join(out)


def split_top(s):
    """split on commas at bracket depth 0"""
    parts, depth, cur = [], 0, []
    for ch in s:
        if ch in "<([{":
            depth += 1
        elif ch in ">)]}":
            depth -= 1
        if ch == "," and depth == 0:
            parts.append("".join(cur)); cur = []
        else:
            cur.append(ch)
    parts.append("".join(cur))
    return [p.strip() for p in parts if p.strip()]


# --------------------------------------------------------------------------------------------------
# Rust constant expressions: VALUES, not text. Everything the tables take from an expression goes
# through `ceval`; an expression it cannot evaluate raises Unknown, and the item falls back (see `item`).

class Unknown(Exception):
    pass


INT_TYPES = {"u8": 1, "i8": 1, "u16": 2, "i16": 2, "u32": 4, "i32": 4, "u64": 8, "i64": 8, "u128": 16, "i128": 16,
             "usize": 8, "isize": 8, "bool": 1}
TOK = re.compile(r"""\s*(?:
    (?P<bstr>b"(?:[^"\\]|\\.)*") | (?P<str>"(?:[^"\\]|\\.)*") | (?P<bchar>b'(?:[^'\\]|\\.)') |
    (?P<num>0[xX][0-9a-fA-F_]+(?:[ui](?:8|16|32|64|128|size))?|0[bB][01_]+(?:[ui](?:8|16|32|64|128|size))?|0[oO][0-7_]+(?:[ui](?:8|16|32|64|128|size))?|[0-9][0-9_]*(?:[ui](?:8|16|32|64|128|size))?) |
    (?P<id>[A-Za-z_][A-Za-z0-9_]*!?) | (?P<op><<|>>|::|[\[\]();,+\-*|&<>.])
)""", re.X)


def tokenize(src):
    out, i = [], 0
    src = src.strip()
    while i < len(src):
        m = TOK.match(src, i)
        if not m or m.end() == i:
            raise Unknown(f"cannot tokenize `{src[i:i+20]}`")
        k = m.lastgroup
        out.append((k, m.group(k)))
        i = m.end()
    return out


def unescape_bytes(body):
    out, i = [], 0
    while i < len(body):
        c = body[i]
        if c == "\\":
            n = body[i + 1]
            if n == "x":
                out.append(int(body[i + 2:i + 4], 16)); i += 4; continue
            out.append({"n": 10, "r": 13, "t": 9, "0": 0, "\\": 92, '"': 34, "'": 39}.get(n, ord(n))); i += 2; continue
        out.append(ord(c)); i += 1
    return out


class CEval:
    """recursive descent over: | << + - * unary `as`, literals in any base with `_` and suffixes, `[e; n]`,
    `[a, b, …]`, b"…", b'x', (e), size_of::<T>(), pubkey!("…"), Pubkey::new_from_array(e),
    Pubkey::from_str_const("…"), paths to `const` items of the same crate (resolved, bounded depth)."""

    def __init__(self, toks, consts, depth):
        self.t, self.i, self.consts, self.depth = toks, 0, consts, depth

    def peek(self):
        return self.t[self.i] if self.i < len(self.t) else (None, None)

    def eat(self, val=None):
        k, v = self.peek()
        if k is None or (val is not None and v != val):
            raise Unknown(f"expected `{val}`, found `{v}`")
        self.i += 1
        return k, v

    def parse(self):
        v = self.or_()
        if self.i != len(self.t):
            raise Unknown(f"trailing tokens from `{self.peek()[1]}`")
        return v

    def binop(self, sub, ops):
        v = sub()
        while self.peek()[1] in ops:
            op = self.eat()[1]
            w = sub()
            if not (isinstance(v, int) and isinstance(w, int)):
                raise Unknown(f"`{op}` on a non-integer")
            v = {"|": v | w, "<<": v << w, ">>": v >> w, "+": v + w, "-": v - w, "*": v * w}[op]
        return v

    def or_(self):
        return self.binop(self.shift, ("|",))

    def shift(self):
        return self.binop(self.add, ("<<", ">>"))

    def add(self):
        return self.binop(self.mul, ("+", "-"))

    def mul(self):
        return self.binop(self.unary, ("*",))

    def unary(self):
        while self.peek()[1] in ("&", "*"):
            self.eat()
        v = self.primary()
        while self.peek() == ("id", "as"):
            self.eat()
            ty = self.eat()[1]
            if ty not in INT_TYPES or not isinstance(v, int):
                raise Unknown(f"cast to `{ty}`")
            if ty.startswith("u"):
                v &= (1 << (8 * INT_TYPES[ty])) - 1
        return v

    def path(self):
        segs = [self.eat()[1]]
        while self.peek()[1] == "::":
            self.eat()
            if self.peek()[1] == "<":      # turbofish: collect `<T>`
                self.eat("<")
                ty = self.eat()[1]
                self.eat(">")
                segs.append("<" + ty + ">")
            else:
                segs.append(self.eat()[1])
        return segs

    def primary(self):
        k, v = self.peek()
        if k == "num":
            self.eat()
            body = re.sub(r"[ui](8|16|32|64|128|size)$", "", v) if not v.lower().startswith("0x") else re.sub(r"(?<=[0-9a-fA-F_])[ui](8|16|32|64|128|size)$", "", v)
            return int(body.replace("_", ""), 0) if body[:2].lower() in ("0x", "0b", "0o") else int(body.replace("_", ""))
        if k == "bstr":
            self.eat(); return unescape_bytes(v[2:-1])
        if k == "bchar":
            self.eat(); return unescape_bytes(v[2:-1])[0]
        if v == "(":
            self.eat(); x = self.or_(); self.eat(")"); return x
        if v == "[":
            self.eat()
            if self.peek()[1] == "]":
                self.eat(); return []
            first = self.or_()
            if self.peek()[1] == ";":
                self.eat(); n = self.or_(); self.eat("]")
                if not isinstance(first, int) or not isinstance(n, int):
                    raise Unknown("`[e; n]` with non-integer parts")
                return [first] * n
            items = [first]
            while self.peek()[1] == ",":
                self.eat()
                if self.peek()[1] == "]":
                    break
                items.append(self.or_())
            self.eat("]")
            if not all(isinstance(x, int) for x in items):
                raise Unknown("nested array")
            return items
        if k == "id":
            if v in ("pubkey!", "solana_pubkey::pubkey!"):
                self.eat(); self.eat("("); s = self.eat()[1]; self.eat(")")
                return b58(s[1:-1])
            segs = self.path()
            last = segs[-1]
            if last == "pubkey!":
                self.eat("("); s = self.eat()[1]; self.eat(")"); return b58(s[1:-1])
            if len(segs) >= 2 and segs[-2] == "size_of" and last.startswith("<"):
                self.eat("("); self.eat(")")
                ty = last[1:-1]
                if ty not in INT_TYPES:
                    raise Unknown(f"size_of::<{ty}>")
                return INT_TYPES[ty]
            if last in ("new_from_array", "from") and "Pubkey" in segs and self.peek()[1] == "(":
                self.eat("("); x = self.or_(); self.eat(")")
                if not (isinstance(x, list) and len(x) == 32):
                    raise Unknown("Pubkey::new_from_array of a non-[u8; 32]")
                return x
            if last == "from_str_const" and self.peek()[1] == "(":
                self.eat("("); s = self.eat()[1]; self.eat(")"); return b58(s[1:-1])
            if last in ("MAX", "MIN") and len(segs) == 2 and segs[0] in INT_TYPES and segs[0].startswith("u"):
                return (1 << (8 * INT_TYPES[segs[0]])) - 1 if last == "MAX" else 0
            if self.peek()[1] == "(":
                raise Unknown(f"call of `{'::'.join(segs)}`")
            # a const item of the same crate
            if self.depth <= 0:
                raise Unknown(f"const `{last}`: resolution depth exceeded")
            cands = self.consts.get(last, [])
            vals = []
            for e in cands:
                vals.append(ceval(e, self.consts, self.depth - 1))
            if not vals:
                raise Unknown(f"unknown name `{'::'.join(segs)}`")
            if any(x != vals[0] for x in vals):
                raise Unknown(f"const `{last}` is defined more than once with different values")
            return vals[0]
        raise Unknown(f"unexpected `{v}`")


def ceval(expr, consts=None, depth=2):
    return CEval(tokenize(expr), consts or {}, depth).parse()


def init_after(src, head_re):
    """initializer expression of the first `…head… = EXPR;` (the `;` at bracket depth 0), or None"""
    m = re.search(head_re + r"\s*=\s*", src)
    if not m:
        return None
    depth, i = 0, m.end()
    while i < len(src):
        c = src[i]
        if c in "([{":
            depth += 1
        elif c in ")]}":
            depth -= 1
        elif c == ";" and depth == 0:
            return src[m.end():i].strip()
        i += 1
    return None


def crate_consts(crate_dir):
    """name -> [initializer expressions] of every `const NAME: T = EXPR;` in the crate (comments stripped)"""
    out = {}
    for root, _, files in os.walk(os.path.join(REPO, crate_dir, "src")):
        for f in files:
            if f.endswith(".rs"):
                src = strip_comments(open(os.path.join(root, f)).read())
                for m in re.finditer(r"\bconst\s+([A-Z_][A-Z0-9_]*)\s*:", src):
                    e = init_after(src[m.start():], r"\bconst\s+" + m.group(1) + r"\s*:\s*(?:\[[^\]]*\]|[^=;\[]+)")
                    if e is not None:
                        out.setdefault(m.group(1), []).append(e)
    return out


def attrs_before(src, pos):
    """the `#[…]` attributes directly preceding position `pos` (any number, any order)"""
    out, i = [], pos
    while True:
        j = i
        while j > 0 and src[j - 1].isspace():
            j -= 1
        if j > 0 and src[j - 1] == "]":
            depth, k = 0, j - 1
            while k >= 0:
                if src[k] == "]":
                    depth += 1
                elif src[k] == "[":
                    depth -= 1
                    if depth == 0:
                        break
                k -= 1
            if k >= 1 and src[k - 1] == "#":
                out.append(src[k - 1:j]); i = k - 1; continue
        return out


def repr_of(src, item_re, what):
    m = re.search(item_re, src)
    if not m:
        die(f"cannot find {what}")
    for a in attrs_before(src, m.start()):
        mm = re.fullmatch(r"#\[\s*repr\s*\((.*)\)\s*\]", a, flags=re.S)
        if mm:
            return [x.strip() for x in mm.group(1).split(",")]
    die(f"{what}: no #[repr(..)] attribute")


# item-level fallback: an item whose expression cannot be evaluated keeps its previously generated VALUE;
# the `table …` ops of the correspondence run compare every table entry with the compiled code, so a stale
# value cannot survive a real difference.
SIDE = os.path.join(VERIF, "lean", "Spl", "Spl", "Generated", "tables.json")
PREV, CUR = {}, {}


def item(name, thunk):
    try:
        v = thunk()
    except Unknown as e:
        if name not in PREV:
            die(f"{name}: {e} (and no previously generated value to fall back on)")
        v = PREV[name]
        print(f"gen_spl_tables: FALLBACK {name}: {e}; kept the previously generated value {v}")
    CUR[name] = v
    return v


def body_of(src, header_re, what):
    m = re.search(header_re, src)
    if not m:
        die(f"cannot find {what}")
    i = src.index("{", m.end() - 1) if src[m.end() - 1] != "{" else m.end() - 1
    depth, j = 0, i
    while j < len(src):
        if src[j] == "{":
            depth += 1
        elif src[j] == "}":
            depth -= 1
            if depth == 0:
                return src[i + 1:j]
        j += 1
    die(f"unbalanced braces in {what}")


def parse_enum(raw, name, consts=None, label=None):
    """-> (repr, [(variant, payload-or-None, discriminant, index)])"""
    src = strip_comments(raw)
    reps = [r for r in repr_of(src, r"pub enum " + name + r"\b", f"enum {name}") if r in INT_TYPES]
    if len(reps) != 1:
        die(f"enum {name}: no integer repr")
    rep = reps[0]
    body = strip_attrs(body_of(src, r"pub enum " + name + r"\s*\{", f"enum {name}"))
    out, nxt = [], 0
    for idx, it in enumerate(split_top(body)):
        head, eq, expr = it.partition("=")
        mm = re.fullmatch(r"(\w+)\s*(?:\(\s*([\w:<>]+)\s*\))?\s*", head)
        if not mm:
            die(f"enum {name}: cannot parse variant `{it}`")
        v, payload = mm.groups()
        if eq:
            def ev(expr=expr):
                x = ceval(expr, consts)
                if not isinstance(x, int):
                    raise Unknown("discriminant is not an integer")
                return x
            disc = item(f"{label or name}.disc.{v}", ev)
        else:
            disc = nxt
        nxt = disc + 1
        out.append((v, payload, disc, idx))
    return rep, out


def parse_struct(raw, name):
    """-> list of (field name, type); tuple fields are named f0, f1…; unit struct -> []"""
    src = strip_attrs(strip_comments(raw))
    m = re.search(r"pub struct " + name + r"\b\s*(?:<[^>{;(]*>)?\s*(?:where[^{;]*)?([;{(])", src)
    if not m:
        die(f"cannot find struct {name}")
    kind = m.group(1)
    if kind == ";":
        return []
    if kind == "(":
        j = src.index(")", m.end())
        fs = split_top(src[m.end():j])
        return [(f"f{i}", re.sub(r"^pub(\([^)]*\))?\s+", "", f).strip()) for i, f in enumerate(fs)]
    body = body_of(src[m.start():], r"pub struct " + name + r"\b[^{;]*\{", f"struct {name}")
    out = []
    for f in split_top(body):
        mm = re.fullmatch(r"(?:pub(?:\([^)]*\))?\s+)?(\w+)\s*:\s*(.+)", f, flags=re.S)
        if not mm:
            die(f"struct {name}: cannot parse field `{f}`")
        out.append((mm.group(1), re.sub(r"\s+", "", mm.group(2))))
    return out


B58 = "123456789ABCDEFGHJKLMNPQRSTUVWXYZabcdefghijkmnopqrstuvwxyz"


def b58(s):
    n = 0
    for c in s:
        if c not in B58:
            die(f"bad base58 `{s}`")
        n = n * 58 + B58.index(c)
    raw = n.to_bytes((n.bit_length() + 7) // 8, "big")
    pad = len(s) - len(s.lstrip("1"))
    raw = b"\0" * pad + raw
    if len(raw) != 32:
        die(f"pubkey `{s}` does not decode to 32 bytes")
    return list(raw)


def program_id(raw, prog, consts):
    src = strip_comments(raw)
    m = re.search(r"impl\s+StarFrameProgram\s+for\s+" + prog + r"\s*\{", src)
    if not m:
        die(f"no `impl StarFrameProgram for {prog}`")
    body = body_of(src[m.start():], r"impl\s+StarFrameProgram\s+for\s+" + prog + r"\s*\{", f"impl StarFrameProgram for {prog}")
    id_expr = init_after(strip_attrs(body), r"const\s+ID\s*:\s*Pubkey")
    if id_expr is None:
        die(f"{prog}::ID not found")

    def ev():
        v = ceval(id_expr, consts)
        if not (isinstance(v, list) and len(v) == 32 and all(0 <= b < 256 for b in v)):
            raise Unknown("not a 32-byte value")
        return v
    return item(f"{prog}.ID", ev)


ARG_TY = {"u8": ".u8", "u64": ".u64", "Pubkey": ".pubkey", "Option<Pubkey>": ".optPubkey",
          "AuthorityType": ".authorityType"}
STATE_TY = {"PodOption<Pubkey>": ".podOptKey", "PodOption<u64>": ".podOptU64", "u64": ".u64", "u8": ".u8",
            "bool": ".bool", "Pubkey": ".key", "KeyFor<MintAccount>": ".key", "AccountState": ".state"}


def acct_ty(t, where):
    """wrapper types -> Lean AcctTy term (mirrors SingleSetMeta composition: Mut sets writable,
    Signer sets signer, everything else inherits)"""
    signer = writable = False
    rest = False
    cur = t
    while True:
        m = re.fullmatch(r"(\w+)<(.+)>", cur)
        head, inner = (m.group(1), m.group(2)) if m else (cur, None)
        if head == "Mut" and inner:
            writable = True; cur = inner; continue
        if head == "Signer":
            signer = True
            if inner is None:
                cur = "AccountInfo"
            else:
                cur = inner
            continue
        if head == "Rest" and inner and not rest and not signer and not writable:
            rest = True; cur = inner; continue
        if head == "AccountInfo" and inner is None:
            b = lambda x: "true" if x else "false"
            return f".rest {b(signer)} {b(writable)}" if rest else f".info {b(signer)} {b(writable)}"
        if head == "Sysvar" and inner == "Rent" and not (signer or writable or rest):
            return ".sysvarRent"
        if head == "Program" and inner in ("System", "Token") and not (signer or writable or rest):
            return f".program .{inner.lower()}"
        die(f"{where}: unsupported account type `{t}`")


def lean_list(xs):
    return "[" + ", ".join(str(x) for x in xs) + "]"


def ix_set(lines, raw, enum_name, lean_name, prefix, consts):
    rep, variants = parse_enum(raw, enum_name, consts, lean_name)
    width = {"u8": 1, "u16": 2, "u32": 4, "u64": 8}.get(rep)
    if width is None:
        die(f"{enum_name}: unsupported repr {rep}")
    src = strip_comments(raw)
    pairs = dict(re.findall(r"empty_star_frame_instruction!\(\s*(\w+)\s*,\s*(\w+)\s*\)", src))
    lines.append(f"/-- `{enum_name}` (`#[repr({rep})]`, `use_repr`): one constructor per bound instruction. -/")
    lines.append(f"inductive {lean_name} where")
    for v, _, _, _ in variants:
        lines.append(f"  | {v}")
    lines.append("  deriving DecidableEq, Repr")
    lines.append(f"def {prefix}ReprBytes : Nat := {width}")
    lines.append(f"def {lean_name}.all : List {lean_name} := " + lean_list("." + v for v, _, _, _ in variants))
    lines.append(f"def {lean_name}.disc : {lean_name} → Nat")
    for v, _, d, _ in variants:
        lines.append(f"  | .{v} => {d}")
    lines.append(f"def {lean_name}.name : {lean_name} → String")
    for v, _, d, _ in variants:
        lines.append(f"  | .{v} => \"{v}\"")
    lines.append(f"/-- borsh field order and types of the payload struct of each variant -/")
    lines.append(f"def {lean_name}.fields : {lean_name} → List (FName × ArgTy)")
    for v, payload, _, _ in variants:
        if payload is None:
            die(f"{enum_name}::{v}: variant without payload")
        fs = parse_struct(raw, payload)
        items = []
        for fn, ft in fs:
            if ft not in ARG_TY:
                die(f"{payload}.{fn}: unsupported argument type `{ft}`")
            items.append(f"(.{fn}, {ARG_TY[ft]})")
        lines.append(f"  | .{v} => " + lean_list(items))
    lines.append(f"/-- account struct of each variant (`empty_star_frame_instruction!`), declared order -/")
    lines.append(f"def {lean_name}.accounts : {lean_name} → List (AName × AcctTy)")
    for v, payload, _, _ in variants:
        if payload not in pairs:
            die(f"{payload}: no empty_star_frame_instruction! pairing")
        fs = parse_struct(raw, pairs[payload])
        items = [f"(.{fn}, {acct_ty(ft, pairs[payload] + '.' + fn)})" for fn, ft in fs]
        lines.append(f"  | .{v} => " + lean_list(items))
    lines.append("")


def main():
    system = read("star_frame/src/program/system.rs")
    tok_ix = read("star_frame_spl/src/token/instructions.rs")
    tok_mod = read("star_frame_spl/src/token/mod.rs")
    tok_state = read("star_frame_spl/src/token/state.rs")
    ata = read("star_frame_spl/src/associated_token.rs")
    pod = read("star_frame_spl/src/pod.rs")
    if os.path.exists(SIDE):
        try:
            PREV.update(__import__("json").load(open(SIDE)))
        except Exception:
            pass
    sf_consts = crate_consts("star_frame")
    spl_consts = crate_consts("star_frame_spl")
    pin = sorted(glob.glob(os.path.expanduser("~/.cargo/registry/src/*/pinocchio-0.9.2/src/sysvars/rent.rs")))
    if not pin:
        die("pinocchio-0.9.2 source not found in the cargo registry")
    rent_expr = init_after(strip_comments(open(pin[0]).read()), r"pub const RENT_ID\s*:\s*Pubkey")
    if rent_expr is None:
        die("pinocchio RENT_ID not found")

    def ev_rent():
        v = ceval(rent_expr)
        if not (isinstance(v, list) and len(v) == 32):
            raise Unknown("RENT_ID is not 32 bytes")
        return v
    rent_id = item("pinocchio.RENT_ID", ev_rent)
    sysvar_src = strip_comments(read("star_frame/src/account_set/sysvar.rs"))
    if not re.search(r"impl SysvarId for pinocchio::sysvars::rent::Rent\s*\{\s*fn id\(\)\s*->\s*Pubkey\s*\{\s*bytemuck::cast\(pinocchio::sysvars::rent::RENT_ID\)", sysvar_src):
        die("SysvarId for Rent no longer casts pinocchio RENT_ID")

    L = []
    L.append("import Spl.Types")
    L.append("/-! GENERATED by bin/gen_spl_tables.py from the repository source — do not edit.")
    L.append("Regenerated on every `bin/check C16`; a changed table re-proves `Spl.Props.C16` against it. -/")
    L.append("namespace Spl.Generated")
    L.append("open Spl")
    L.append("")
    L.append("def systemId : List Nat := " + lean_list(program_id(system, "System", sf_consts)))
    L.append("def tokenId : List Nat := " + lean_list(program_id(tok_mod, "Token", spl_consts)))
    L.append("def ataId : List Nat := " + lean_list(program_id(ata, "AssociatedToken", spl_consts)))
    L.append("/-- what `Sysvar<Rent>` puts in the metas when the client passes `None` (pinocchio `RENT_ID`) -/")
    L.append("def rentSysvarId : List Nat := " + lean_list(rent_id))
    L.append("")
    ix_set(L, system, "SystemInstructionSet", "SysIx", "sys", sf_consts)
    ix_set(L, tok_ix, "TokenInstructionSet", "TokIx", "tok", spl_consts)
    ix_set(L, ata, "AssociatedTokenInstructionSet", "AtaIx", "ata", spl_consts)

    # AuthorityType: a borsh-derived fieldless enum is encoded as its variant INDEX (u8)
    rep, vs = parse_enum(tok_ix, "AuthorityType", spl_consts)
    if any(p is not None for _, p, _, _ in vs):
        die("AuthorityType: variant with payload")
    if re.search(r"borsh\(use_discriminant\s*=\s*true\)", strip_comments(tok_ix)):
        die("AuthorityType: borsh(use_discriminant = true) is not modelled")
    L.append("inductive AuthorityType where")
    for v, _, _, _ in vs:
        L.append(f"  | {v}")
    L.append("  deriving DecidableEq, Repr")
    L.append("def AuthorityType.all : List AuthorityType := " + lean_list("." + v for v, _, _, _ in vs))
    L.append("/-- borsh variant index -/")
    L.append("def AuthorityType.idx : AuthorityType → Nat")
    for v, _, _, i in vs:
        L.append(f"  | .{v} => {i}")
    L.append("def AuthorityType.name : AuthorityType → String")
    for v, _, _, i in vs:
        L.append(f'  | .{v} => "{v}"')
    L.append("")

    # AccountState: CheckedBitPattern accepts exactly the declared discriminants
    rep, vs = parse_enum(tok_state, "AccountState", spl_consts)
    if rep != "u8":
        die("AccountState: repr is not u8")
    L.append("/-- `AccountState` discriminants in declaration order (`#[repr(u8)]`, CheckedBitPattern) -/")
    L.append("def accountStateDiscs : List (String × Nat) := " + lean_list(f'("{v}", {d})' for v, _, d, _ in vs))
    L.append("def accountStateValid : List Nat := " + lean_list(d for _, _, d, _ in vs))
    un = [d for v, _, d, _ in vs if v == "Uninitialized"]
    if len(un) != 1:
        die("AccountState::Uninitialized missing")
    L.append(f"def accountStateUninitialized : Nat := {un[0]}")
    L.append("")

    # packed state structs
    for sname, lname in (("MintAccountData", "mintFields"), ("TokenAccountData", "tokenFields")):
        src = strip_comments(tok_state)
        reps = repr_of(src, r"pub struct " + sname + r"\b", f"struct {sname}")
        if not ("C" in reps and "packed" in reps):
            die(f"{sname}: not `#[repr(C, packed)]`")
        fs = parse_struct(tok_state, sname)
        items = []
        for fn, ft in fs:
            if ft not in STATE_TY:
                die(f"{sname}.{fn}: unsupported field type `{ft}`")
            items.append(f"(.{fn}, {STATE_TY[ft]})")
        L.append(f"/-- `{sname}` (`#[repr(C, packed)]`): declared field order -/")
        L.append(f"def {lname} : List (SName × STy) := " + lean_list(items))
    for ty, nm in (("MintAccount", "mintLen"), ("TokenAccount", "tokenLen")):
        body = body_of(strip_comments(tok_state), r"impl " + ty + r"\s*\{", f"impl {ty}")
        len_expr = init_after(body, r"pub const LEN\s*:\s*usize")
        if len_expr is None:
            die(f"{ty}::LEN not found")

        def ev_len(len_expr=len_expr):
            v = ceval(len_expr, spl_consts)
            if not isinstance(v, int):
                raise Unknown("LEN is not an integer")
            return v
        L.append(f"def {nm} : Nat := {item(ty + '.LEN', ev_len)}")
    psrc = strip_comments(pod)
    reps = repr_of(psrc, r"pub struct PodOption\b", "struct PodOption")
    if not ("C" in reps and "packed" in reps):
        die("PodOption: not `#[repr(C, packed)]`")
    pf = parse_struct(pod, "PodOption")
    parts = []
    for fn, ft in pf:
        if fn == "option":
            m = re.fullmatch(r"\[u8;(.+)\]", ft)
            if not m:
                die(f"PodOption.option: unsupported type {ft}")

            def ev_w(m=m):
                v = ceval(m.group(1), spl_consts)
                if not isinstance(v, int):
                    raise Unknown("tag width is not an integer")
                return v
            parts.append(f".tag {item('PodOption.option.width', ev_w)}")
        elif fn == "value" and ft == "T":
            parts.append(".value")
        else:
            die(f"PodOption: unknown field {fn}: {ft}")
    L.append("/-- `PodOption<T>` (`#[repr(C, packed)]`): declared field order; `tag n` = `option: [u8; n]` -/")
    L.append("def podOptionLayout : List PodPart := " + lean_list(parts))

    def arr(name):
        m = re.search(r"pub const " + name + r"\s*:\s*\[u8;\s*([^\]]+)\]", psrc)
        init = init_after(psrc, r"pub const " + name + r"\s*:\s*\[u8;\s*[^\]]+\]")
        if not m or init is None:
            die(f"PodOption::{name} not found")

        def ev():
            n, vals = ceval(m.group(1), spl_consts), ceval(init, spl_consts)
            if not (isinstance(vals, list) and isinstance(n, int) and len(vals) == n):
                raise Unknown("length mismatch")
            return vals
        return item(f"PodOption.{name}", ev)
    L.append("def podNone : List Nat := " + lean_list(arr("NONE")))
    L.append("def podSome : List Nat := " + lean_list(arr("SOME")))
    L.append("")

    # ATA derivation
    asrc = strip_comments(ata)
    seedmap = {"wallet.as_ref()": ".wallet", "Token::ID.as_ref()": ".tokenProgram", "mint.pubkey().as_ref()": ".mint"}
    progmap = {"Self::ID": ".ata", "AssociatedToken::ID": ".ata", "Token::ID": ".token", "System::ID": ".system"}

    def ev_ata():
        mh = re.search(r"pub fn find_address_with_bump\s*\(([^)]*)\)\s*->\s*\(Pubkey, u8\)\s*\{", asrc)
        if not mh:
            raise Unknown("find_address_with_bump not found in its known signature")
        body = body_of(asrc, r"pub fn find_address_with_bump\s*\([^)]*\)\s*->\s*\(Pubkey, u8\)\s*\{", "find_address_with_bump")
        # parameter names may change: normalise the first two to wallet / mint
        params = [x.split(":")[0].strip() for x in split_top(mh.group(1))]
        if len(params) != 2:
            raise Unknown("find_address_with_bump does not take two parameters")
        for old_name, new_name in zip(params, ("wallet", "mint")):
            body = re.sub(r"\b" + re.escape(old_name) + r"\b", new_name, body)
        m = re.fullmatch(r"\s*Pubkey::find_program_address\(\s*&\[(.*?)\]\s*,\s*&([\w:]+)\s*,?\s*\)\s*", body, flags=re.S)
        if not m:
            raise Unknown("body is not a single Pubkey::find_program_address(&[..], &ID) call")
        seeds = []
        for sd in split_top(m.group(1)):
            sd = re.sub(r"\s+", "", sd)
            if sd not in seedmap:
                raise Unknown(f"unknown seed expression `{sd}`")
            seeds.append(seedmap[sd])
        if m.group(2) not in progmap:
            raise Unknown(f"unknown program `{m.group(2)}`")
        return [seeds, progmap[m.group(2)]]
    seeds, ata_prog = item("AssociatedToken.find_address_with_bump", ev_ata)
    L.append("/-- seed list and program of `AssociatedToken::find_address_with_bump` -/")
    L.append("def ataSeeds : List SeedTok := " + lean_list(seeds))
    L.append(f"def ataProgram : Prog := {ata_prog}")
    L.append("")
    L.append("end Spl.Generated")
    text = "\n".join(L) + "\n"

    os.makedirs(os.path.dirname(OUT), exist_ok=True)
    __import__("json").dump(CUR, open(SIDE, "w"), indent=0, sort_keys=True)
    old = open(OUT).read() if os.path.exists(OUT) else ""
    if old != text:
        if old:
            d = list(difflib.unified_diff(old.splitlines(), text.splitlines(), "Tables.lean (previous run)", "Tables.lean (this run)", lineterm="", n=0))
            print("TABLE-DIFF (generated table changed since the previous run):")
            print("\n".join(d[:80]))
        else:
            print("TABLE-DIFF: (no previous table)")
        open(OUT, "w").write(text)
    else:
        print("tables unchanged")
    print(f"wrote {os.path.relpath(OUT, VERIF)} from {REPO}")


if __name__ == "__main__":
    main()
