#!/usr/bin/env python3
"""bin/gen_idl_tables.py C18

Translator for the Idl Lean package: re-extracts from the star_frame_idl sources under $VERIF_REPO
(default /repo) the tables of VALUES the model is tied to, and rewrites
lean/Idl/Idl/Generated/Rules.lean:

  ruleIds                the values of the rule-id string constants of verifier/mod.rs ("SFIDLnnn")
  docRuleIds             the ids listed in docs/IDL_VERIFIER_SCOPE.md, section "Rule IDs"
  typeDefVariants        enum IdlTypeDef: (variant, number of fields holding type definitions)
  accountSetDefVariants  enum IdlAccountSetDef: (variant, number of fields holding sets/references)
  seedVariants, modes    enum IdlSeed, enum VerificationMode
  typeDefWalk            per variant: does the arm of `verify_type_def` that matches it descend
  accountSetDefWalk      (same for `verify_account_set_def`)

No table records the source TEXT of a condition or a call count: those are neither necessary nor
sufficient for the behaviour.  Conditions (Many bounds, Or emptiness, arities …) and "does the walk
reach every field of every variant" are established behaviourally by the correspondence run
(hx-idlver families `boundary` and `variant`, every run).

The walk tables are a cheap early signal only.  The extraction tolerates merged or-pattern arms,
match guards, methods on a private struct, let-else, try_for_each …; when the shape of the source is
not understood the PREVIOUS table of that item is kept, a line
    gen_idl_tables: FALLBACK <item>: <reason>
is printed (bin/check records it in the evidence / trusted base) and the exit code stays 0.
The only statically reported walk defect is an arm that matches a reference-holding variant and
whose body contains no call at all.
"""
import difflib, os, re, sys

REPO = os.environ.get("VERIF_REPO", "/repo")
VERIF = os.path.dirname(os.path.dirname(os.path.abspath(__file__)))
OUT = os.path.join(VERIF, "lean", "Idl", "Idl", "Generated", "Rules.lean")
ME = "gen_idl_tables"


class Unknown(Exception):
    """the source has a shape this extractor does not understand"""


def read(rel):
    return open(os.path.join(REPO, rel), encoding="utf-8").read()


def strip_comments(src):
    src = re.sub(r"/\*.*?\*/", "", src, flags=re.S)
    return re.sub(r"//[^\n]*", "", src)


def block_at(src, i):
    """Text between the braces opening at/after index i (brace-balanced), and the end index."""
    i = src.index("{", i)
    depth, j = 0, i
    while j < len(src):
        c = src[j]
        if c == "{":
            depth += 1
        elif c == "}":
            depth -= 1
            if depth == 0:
                return src[i + 1:j], j + 1
        j += 1
    raise Unknown("unbalanced braces")


def block_after(src, header_re):
    m = re.search(header_re, src)
    if not m:
        raise Unknown(f"pattern not found: {header_re}")
    return block_at(src, m.end() - 1)[0]


def split_top(body):
    """Split on commas that are not nested in () {} <> []."""
    parts, depth, cur = [], 0, []
    prev = ""
    for c in body:
        if c in "({<[":
            depth += 1
        elif c in ")}]" or (c == ">" and prev not in "=-"):
            depth -= 1
        if c == "," and depth == 0:
            parts.append("".join(cur)); cur = []
        else:
            cur.append(c)
        prev = c
    parts.append("".join(cur))
    return [p.strip() for p in parts if p.strip()]


def enum_variants(src, enum_name, holders):
    """[(variant, number of fields whose type mentions one of `holders`)]"""
    body = block_after(strip_comments(src), r"pub\s+enum\s+" + enum_name + r"\s*\{")
    out = []
    for v in split_top(body):
        v = re.sub(r"#\[[^\]]*\]\s*", "", v).strip()
        m = re.match(r"(\w+)\s*(.*)$", v, flags=re.S)
        name, rest = m.group(1), m.group(2).strip()
        n = 0
        if rest:
            inner = rest[1:-1]
            for f in split_top(inner):
                f = re.sub(r"#\[[^\]]*\]\s*", "", f).strip()
                ty = f.split(":", 1)[1] if (rest[0] == "{" and ":" in f) else f
                if any(re.search(r"\b" + h + r"\b", ty) for h in holders):
                    n += 1
        out.append((name, n))
    return out


KEYWORDS = {"if", "match", "while", "for", "loop", "return", "fn", "let", "in", "move", "ref", "mut", "as", "else"}


def walk_table(src, fn_name, enum_name, variants):
    """[(variant, descends: bool)] for the `match` over `enum_name` inside `fn fn_name`.

    Raises Unknown when the source shape is not understood (caller keeps the previous table)."""
    code = strip_comments(src)
    m = re.search(r"fn\s+" + fn_name + r"\b", code)
    if not m:
        raise Unknown(f"no `fn {fn_name}` (renamed or inlined?)")
    body, _ = block_at(code, m.end())
    # the match whose arms are patterns of this enum: the first `match … {` block containing `Enum::`
    mm = None
    for cand in re.finditer(r"\bmatch\b[^{;]*\{", body):
        blk, _ = block_at(body, cand.end() - 1)
        if re.search(enum_name + r"::\w+", blk):
            mm = blk
            break
    if mm is None:
        raise Unknown(f"no `match` over {enum_name}:: patterns in `{fn_name}` (imported variants / if-let chain / helper?)")
    # split the match block into arms at top nesting level: pattern `=>` body
    arms, depth, i, start = [], 0, 0, 0
    n = len(mm)
    pos_arrow = None
    while i < n:
        c = mm[i]
        if c in "({[":
            depth += 1
        elif c in ")}]":
            depth -= 1
        elif depth == 0 and mm.startswith("=>", i) and pos_arrow is None:
            pos_arrow = i
            i += 2
            # body: either a block `{…}` (possibly followed by a comma) or an expression up to the top-level comma
            j = i
            while j < n and mm[j].isspace():
                j += 1
            if j < n and mm[j] == "{":
                blk, end = block_at(mm, j)
                # `match x { … }` as arm body starts with an identifier, not `{`; so this is a plain block
                arms.append((mm[start:pos_arrow], blk))
                i = end
            else:
                d2, k = 0, j
                while k < n:
                    ch = mm[k]
                    if ch in "({[":
                        d2 += 1
                    elif ch in ")}]":
                        d2 -= 1
                    elif ch == "," and d2 == 0:
                        break
                    k += 1
                arms.append((mm[start:pos_arrow], mm[j:k]))
                i = k
            while i < n and (mm[i].isspace() or mm[i] == ","):
                i += 1
            start, pos_arrow = i, None
            continue
        i += 1
    if mm[start:].strip():
        raise Unknown(f"trailing text after the last arm of the match in `{fn_name}`")
    seen = {}
    for pat, arm_body in arms:
        pat_nog = re.split(r"\bif\b", pat, 1)[0]          # drop a match guard
        names = re.findall(enum_name + r"::(\w+)", pat_nog)
        if not names:
            raise Unknown(f"arm `{' '.join(pat.split())[:60]}` of `{fn_name}` names no {enum_name} variant (wildcard / binding arm)")
        verify_calls = len(re.findall(r"\bverify_\w+\s*\(", arm_body))
        any_calls = [c for c in re.findall(r"\b([a-z_][a-z0-9_]*)\s*\(", arm_body) if c not in KEYWORDS]
        for nm in names:
            if nm in seen:
                raise Unknown(f"variant {nm} matched by two arms of `{fn_name}`")
            seen[nm] = (verify_calls, len(any_calls))
    want = [v for v, _ in variants]
    if sorted(seen) != sorted(want):
        raise Unknown(f"arms of `{fn_name}` cover {sorted(seen)} but {enum_name} has {sorted(want)}")
    out = []
    for v, fields in variants:
        vc, ac = seen[v]
        if fields >= 1:
            if vc >= 1:
                out.append((v, True))
            elif ac >= 1:
                raise Unknown(f"arm for {v} in `{fn_name}` makes no verify_* call but calls something else (helper?)")
            else:
                out.append((v, False))          # reference-holding variant, arm body calls nothing: reported
        else:
            if vc >= 1 or ac >= 1:
                raise Unknown(f"arm for leaf variant {v} in `{fn_name}` makes calls")
            out.append((v, False))
    return out


def lean_str(s):
    return '"' + s.replace("\\", "\\\\").replace('"', '\\"') + '"'


def lean_list_s(name, doc, rows):
    body = ", ".join(lean_str(a) for a in rows)
    return f"/-- {doc} -/\ndef {name} : List String :=\n  [{body}]\n"


def lean_pairs_sn(name, doc, rows):
    body = ",\n   ".join(f"({lean_str(a)}, {b})" for a, b in rows)
    return f"/-- {doc} -/\ndef {name} : List (String × Nat) :=\n  [{body}]\n"


def lean_pairs_sb(name, doc, rows):
    body = ",\n   ".join(f"({lean_str(a)}, {'true' if b else 'false'})" for a, b in rows)
    return f"/-- {doc} -/\ndef {name} : List (String × Bool) :=\n  [{body}]\n"


def previous_item(old, name):
    """The text of `def name … := [...]` (with its doc comment) in the previously generated file."""
    m = re.search(r"(/--[^\n]*-/\n)?def " + name + r" :[^\n]*:=\n  \[.*?\]\n", old, flags=re.S)
    return m.group(0) if m else None


def main():
    old = open(OUT, encoding="utf-8").read() if os.path.exists(OUT) else ""
    fallbacks = []

    def item(name, build, default=None):
        """build() -> lean text; on Unknown keep the previous text (or `default()`), report FALLBACK."""
        try:
            return build()
        except Unknown as e:
            prev = previous_item(old, name)
            if prev is None and default is not None:
                prev = default()
            if prev is None:
                sys.exit(f"{ME}: cannot extract {name} and there is no previous table: {e}")
            fallbacks.append(f"{ME}: FALLBACK {name}: {e}")
            return prev

    ver = read("star_frame_idl/src/verifier/mod.rs")
    ver_code = ver.split("#[cfg(test)]")[0]
    ty = read("star_frame_idl/src/ty.rs")
    aset = read("star_frame_idl/src/account_set.rs")
    seeds = read("star_frame_idl/src/seeds.rs")

    # ---- values: public AST (a parse failure here is a real "model out of date", not a fallback)
    try:
        td_vars = enum_variants(ty, "IdlTypeDef", ["IdlTypeDef", "IdlTypeId", "IdlStructField", "IdlEnumVariant"])
        as_vars = enum_variants(aset, "IdlAccountSetDef",
                                ["IdlAccountSetDef", "IdlAccountSetId", "IdlSingleAccountSet", "IdlAccountSetStructField"])
        seed_vars = enum_variants(seeds, "IdlSeed", ["IdlTypeDef", "IdlTypeId"])
        modes = re.findall(r"^\s*(\w+),\s*$", block_after(strip_comments(ver_code), r"pub\s+enum\s+VerificationMode\s*\{"), flags=re.M)
    except Unknown as e:
        sys.exit(f"{ME}: public IDL AST not readable: {e}")

    def rule_ids():
        code = strip_comments(ver_code)
        ids = re.findall(r'\bconst\s+\w+\s*:\s*&(?:\'static\s+)?str\s*=\s*"([A-Z]+\d+)"\s*;', code)
        if not ids:
            # ids not held in `const NAME: &str` items any more: take the id-shaped literals of the code
            ids = re.findall(r'"([A-Z]{3,}\d{3})"', code)
        ids = sorted(set(ids))
        if not ids:
            raise Unknown("no rule-id string constants / literals found in verifier/mod.rs")
        return lean_list_s("ruleIds", "the rule-id string constants of verifier/mod.rs (values, sorted)", ids)

    def doc_rule_ids():
        doc = read("docs/IDL_VERIFIER_SCOPE.md")
        if "## Rule IDs" not in doc:
            raise Unknown("docs/IDL_VERIFIER_SCOPE.md has no section `## Rule IDs`")
        sec = doc.split("## Rule IDs", 1)[1].split("\n## ", 1)[0]
        ids = sorted(set(re.findall(r"`([A-Z]{3,}\d{3})`", sec)))
        if not ids:
            raise Unknown("no rule ids in the `Rule IDs` section of docs/IDL_VERIFIER_SCOPE.md")
        return lean_list_s("docRuleIds", "docs/IDL_VERIFIER_SCOPE.md, section \"Rule IDs\": the documented ids (sorted)", ids)

    def default_walk(name, variants):
        return lambda: lean_pairs_sb(name, "(no previous table: taken from the variant table)", [(v, n >= 1) for v, n in variants])

    out = ("-- GENERATED by bin/gen_idl_tables.py from the star_frame_idl sources; do not edit.\n"
           "namespace Idl.Generated\n\n")
    out += item("ruleIds", rule_ids) + "\n"
    out += item("docRuleIds", doc_rule_ids) + "\n"
    out += lean_pairs_sn("typeDefVariants", "`enum IdlTypeDef` (ty.rs): variant, number of fields holding type definitions", td_vars) + "\n"
    out += lean_pairs_sn("accountSetDefVariants", "`enum IdlAccountSetDef` (account_set.rs): variant, number of fields holding sets/references", as_vars) + "\n"
    out += lean_pairs_sn("seedVariants", "`enum IdlSeed` (seeds.rs): variant, number of fields holding type definitions", seed_vars) + "\n"
    out += item("typeDefWalk",
                lambda: lean_pairs_sb("typeDefWalk", "`verify_type_def`: per variant, whether the arm matching it descends (makes a verify call)",
                                      walk_table(ver_code, "verify_type_def", "IdlTypeDef", td_vars)),
                default_walk("typeDefWalk", td_vars)) + "\n"
    out += item("accountSetDefWalk",
                lambda: lean_pairs_sb("accountSetDefWalk", "`verify_account_set_def`: per variant, whether the arm matching it descends",
                                      walk_table(ver_code, "verify_account_set_def", "IdlAccountSetDef", as_vars)),
                default_walk("accountSetDefWalk", as_vars)) + "\n"
    out += "/-- `enum VerificationMode` -/\ndef modes : List String := [" + ", ".join(lean_str(m) for m in modes) + "]\n\n"
    out += "end Idl.Generated\n"

    if old == out:
        print(f"{ME}: {os.path.relpath(OUT, VERIF)} unchanged ({len(td_vars)} IdlTypeDef variants, "
              f"{len(as_vars)} IdlAccountSetDef variants, repo={REPO})")
    else:
        os.makedirs(os.path.dirname(OUT), exist_ok=True)
        open(OUT, "w", encoding="utf-8").write(out)
        print(f"{ME}: {os.path.relpath(OUT, VERIF)} CHANGED (repo={REPO}):")
        try:
            for l in difflib.unified_diff(old.splitlines(), out.splitlines(), "previous", "regenerated", lineterm="", n=0):
                print("  " + l)
        except BrokenPipeError:
            pass
    for f in fallbacks:
        print(f)


if __name__ == "__main__":
    main()
