#!/usr/bin/env python3
"""bin/gen_idl_tables.py C18

Translator for the Idl Lean package: re-extracts, textually, from the star_frame_idl sources under
$VERIF_REPO (default /repo)

  * the RULE_* constants of verifier/mod.rs and their SFIDLnnn ids,
  * the documented meaning of each id (docs/IDL_VERIFIER_SCOPE.md, section "Rule IDs"),
  * the variants of IdlTypeDef / IdlAccountSetDef / IdlSeed with, per variant, the number of fields
    that hold type definitions / account-set definitions / references (ty.rs, account_set.rs, seeds.rs),
  * per match arm of verify_type_def / verify_account_set_def, the number of recursive verify calls
    (the "walk" table), and the two shape conditions as written,

and rewrites lean/Idl/Idl/Generated/Rules.lean.  Props/C18.lean proves the model's own tables equal
to these, so any change in the source tables breaks the proof stage until the model follows.
"""
import difflib, os, re, sys

REPO = os.environ.get("VERIF_REPO", "/repo")
VERIF = os.path.dirname(os.path.dirname(os.path.abspath(__file__)))
OUT = os.path.join(VERIF, "lean", "Idl", "Idl", "Generated", "Rules.lean")


def read(rel):
    return open(os.path.join(REPO, rel), encoding="utf-8").read()


def strip_comments(src):
    src = re.sub(r"/\*.*?\*/", "", src, flags=re.S)
    return re.sub(r"//[^\n]*", "", src)


def block_after(src, header_re):
    """Text between the braces that follow the first match of header_re (brace-balanced)."""
    m = re.search(header_re, src)
    if not m:
        sys.exit(f"gen_idl_tables: pattern not found: {header_re}")
    i = src.index("{", m.end() - 1)
    depth, j = 0, i
    while True:
        c = src[j]
        if c == "{":
            depth += 1
        elif c == "}":
            depth -= 1
            if depth == 0:
                return src[i + 1:j]
        j += 1


def split_top(body):
    """Split on commas that are not nested in () {} <> []."""
    parts, depth, cur = [], 0, []
    for c in body:
        if c in "({<[":
            depth += 1
        elif c in ")}>]":
            depth -= 1
        if c == "," and depth == 0:
            parts.append("".join(cur)); cur = []
        else:
            cur.append(c)
    parts.append("".join(cur))
    return [p.strip() for p in parts if p.strip()]


def enum_variants(src, enum_name, holders):
    """[(variant, number of fields whose type mentions one of `holders`)]"""
    body = block_after(strip_comments(src), r"pub\s+enum\s+" + enum_name + r"\s*\{")
    out = []
    for v in split_top(body):
        v = re.sub(r"#\[[^\]]*\]\s*", "", v).strip()
        m = re.match(r"(\w+)\s*(.*)$", v, flags=re.S)
        name, rest = m.group(1), m.group(2).strip()
        n = 0
        if rest:
            inner = rest[1:-1]
            for f in split_top(inner):
                f = re.sub(r"#\[[^\]]*\]\s*", "", f).strip()
                ty = f.split(":", 1)[1] if (rest[0] == "{" and ":" in f) else f
                if any(re.search(r"\b" + h + r"\b", ty) for h in holders):
                    n += 1
        out.append((name, n))
    return out


def walk_table(src, fn_name, enum_name, call_names):
    """Per match arm of `fn fn_name`: (variants matched, number of calls to any of call_names)."""
    body = block_after(strip_comments(src), r"fn\s+" + fn_name + r"\b[^{]*\{")
    body = block_after(body, r"match\s+\w+\s*\{")
    tok = re.compile(r"(" + enum_name + r"::(\w+))|(=>)|\b(" + "|".join(call_names) + r")\s*\(")
    arms, names, count, in_body = [], [], 0, False
    for m in tok.finditer(body):
        if m.group(1):
            if in_body:
                arms.append((names, count)); names, count, in_body = [], 0, False
            names.append(m.group(2))
        elif m.group(3):
            in_body = True
        elif m.group(4) and in_body:
            count += 1
    if names:
        arms.append((names, count))
    return [(n, c) for ns, c in arms for n in ns]


def lean_str(s):
    return '"' + s.replace("\\", "\\\\").replace('"', '\\"') + '"'


def lean_pairs_ss(name, doc, rows):
    body = ",\n   ".join(f"({lean_str(a)}, {lean_str(b)})" for a, b in rows)
    return f"/-- {doc} -/\ndef {name} : List (String × String) :=\n  [{body}]\n"


def lean_pairs_sn(name, doc, rows):
    body = ",\n   ".join(f"({lean_str(a)}, {b})" for a, b in rows)
    return f"/-- {doc} -/\ndef {name} : List (String × Nat) :=\n  [{body}]\n"


def main():
    ver = read("star_frame_idl/src/verifier/mod.rs")
    # everything before the unit tests
    ver_code = ver.split("#[cfg(test)]")[0]
    rules = re.findall(r'const\s+(RULE_\w+)\s*:\s*&str\s*=\s*"([^"]*)"\s*;', ver_code)
    if not rules:
        sys.exit("gen_idl_tables: no RULE_* constants found")
    doc = read("docs/IDL_VERIFIER_SCOPE.md")
    sec = doc.split("## Rule IDs", 1)[1] if "## Rule IDs" in doc else ""
    doc_rules = [(a, re.sub(r"`", "", b).strip()) for a, b in re.findall(r"^- `(\w+)`\s+(.*)$", sec, flags=re.M)]
    ty = read("star_frame_idl/src/ty.rs")
    aset = read("star_frame_idl/src/account_set.rs")
    seeds = read("star_frame_idl/src/seeds.rs")
    td_vars = enum_variants(ty, "IdlTypeDef", ["IdlTypeDef", "IdlTypeId", "IdlStructField", "IdlEnumVariant"])
    as_vars = enum_variants(aset, "IdlAccountSetDef",
                            ["IdlAccountSetDef", "IdlAccountSetId", "IdlSingleAccountSet", "IdlAccountSetStructField"])
    seed_vars = enum_variants(seeds, "IdlSeed", ["IdlTypeDef", "IdlTypeId"])
    td_walk = walk_table(ver_code, "verify_type_def", "IdlTypeDef", ["verify_type_def", "verify_type_id"])
    as_walk = walk_table(ver_code, "verify_account_set_def", "IdlAccountSetDef",
                         ["verify_account_set_def", "verify_account_set_id", "verify_single_account_set"])
    code = strip_comments(ver_code)
    many = re.search(r"if\s+let\s+Some\(max\)\s*=\s*max\s*\{\s*if\s+([^{]*?)\s*\{", code)
    orc = re.search(r"IdlAccountSetDef::Or\((\w+)\)\s*=>\s*\{\s*if\s+([^{]*?)\s*\{", code)
    many_cond = re.sub(r"\s+", " ", many.group(1)) if many else "?"
    or_cond = re.sub(r"\s+", " ", orc.group(2)) if orc else "?"
    modes = re.findall(r"^\s*(\w+),\s*$", block_after(code, r"pub\s+enum\s+VerificationMode\s*\{"), flags=re.M)

    out = ("-- GENERATED by bin/gen_idl_tables.py from the star_frame_idl sources; do not edit.\n"
           "namespace Idl.Generated\n\n")
    out += lean_pairs_ss("ruleConsts", "`const RULE_*: &str = \"SFIDLnnn\"` of verifier/mod.rs, in source order", rules) + "\n"
    out += lean_pairs_ss("docRules", "docs/IDL_VERIFIER_SCOPE.md, section \"Rule IDs\": id, documented meaning", doc_rules) + "\n"
    out += lean_pairs_sn("typeDefVariants", "`enum IdlTypeDef` (ty.rs): variant, number of fields holding type definitions", td_vars) + "\n"
    out += lean_pairs_sn("accountSetDefVariants", "`enum IdlAccountSetDef` (account_set.rs): variant, number of fields holding sets/references", as_vars) + "\n"
    out += lean_pairs_sn("seedVariants", "`enum IdlSeed` (seeds.rs): variant, number of fields holding type definitions", seed_vars) + "\n"
    out += lean_pairs_sn("typeDefWalk", "`verify_type_def`: per matched variant, the number of recursive verify calls in its arm", td_walk) + "\n"
    out += lean_pairs_sn("accountSetDefWalk", "`verify_account_set_def`: per matched variant, the number of verify calls in its arm", as_walk) + "\n"
    out += f"/-- the `Many` rejection condition as written -/\ndef manyBoundsCond : String := {lean_str(many_cond)}\n\n"
    out += f"/-- the `Or` rejection condition as written -/\ndef orCond : String := {lean_str(or_cond)}\n\n"
    out += "/-- `enum VerificationMode` -/\ndef modes : List String := [" + ", ".join(lean_str(m) for m in modes) + "]\n\n"
    out += "end Idl.Generated\n"

    old = open(OUT, encoding="utf-8").read() if os.path.exists(OUT) else ""
    if old == out:
        print(f"gen_idl_tables: {os.path.relpath(OUT, VERIF)} unchanged ({len(rules)} rules, {len(td_vars)} IdlTypeDef variants, "
              f"{len(as_vars)} IdlAccountSetDef variants, repo={REPO})")
    else:
        os.makedirs(os.path.dirname(OUT), exist_ok=True)
        open(OUT, "w", encoding="utf-8").write(out)
        print(f"gen_idl_tables: {os.path.relpath(OUT, VERIF)} CHANGED (repo={REPO}):")
        for l in difflib.unified_diff(old.splitlines(), out.splitlines(), "previous", "regenerated", lineterm="", n=0):
            print("  " + l)


if __name__ == "__main__":
    main()
