#!/usr/bin/env python3
"""Translator for C20: re-extracts the tables the Lean model of `sf new` depends on from the source.

  $VERIF_REPO/star_frame_cli/src/new_project.rs  + src/template/*   (default VERIF_REPO=/repo)
      -> /verif/lean/Cli/Cli/Generated/Keywords.lean    (is_rust_keyword list)
      -> /verif/lean/Cli/Cli/Generated/Templates.lean   (placeholders of render_template in order,
                                                         directories of create_project_directories in order,
                                                         (output path, template text) of write_project_files in order,
                                                         number of println! lines, staging attempts)

A 1:1 textual extraction (regexes over the source); it fails loudly (exit 2) when the source no longer
has the shape it knows, which `bin/check` reports as a broken `translate` obligation.
Prints a one-line diff summary against the previous output.
"""
import hashlib, os, re, sys

VERIF = os.path.dirname(os.path.dirname(os.path.abspath(__file__)))
REPO = os.environ.get("VERIF_REPO", "/repo")
SRC = os.path.join(REPO, "star_frame_cli", "src")
OUT = os.path.join(VERIF, "lean", "Cli", "Cli", "Generated")


def die(msg):
    print("gen_cli_tables: " + msg, file=sys.stderr)
    sys.exit(2)


def fn_body(src, name):
    """Text of `fn name(...) ... { body }` (brace matched, string/char literals skipped)."""
    m = re.search(r"\bfn\s+" + re.escape(name) + r"\b", src)
    if not m:
        die(f"fn {name} not found")
    i = src.index("{", m.end())
    depth, j, n = 0, i, len(src)
    while j < n:
        c = src[j]
        if c == '"':
            j += 1
            while src[j] != '"':
                j += 2 if src[j] == "\\" else 1
        elif c == "'" and re.match(r"'(\\.|[^\\'])'", src[j:j + 4]):
            j += len(re.match(r"'(\\.|[^\\'])'", src[j:j + 4]).group(0)) - 1
        elif c == "/" and src[j:j + 2] == "//":
            while src[j] != "\n":
                j += 1
        elif c == "{":
            depth += 1
        elif c == "}":
            depth -= 1
            if depth == 0:
                return src[i + 1:j]
        j += 1
    die(f"unbalanced braces in fn {name}")


def rust_str(lit):
    """Value of a plain Rust string literal body (only the escapes that occur here)."""
    out, i = [], 0
    while i < len(lit):
        if lit[i] == "\\":
            e = lit[i + 1]
            out.append({"n": "\n", "t": "\t", "\\": "\\", '"': '"', "'": "'", "0": "\0"}.get(e) or die("escape \\" + e))
            i += 2
        else:
            out.append(lit[i]); i += 1
    return "".join(out)


def lean_char(c):
    o = ord(c)
    if c == "'":
        return "'\\''"
    if c == "\\":
        return "'\\\\'"
    if c == "\n":
        return "'\\n'"
    if c == "\t":
        return "'\\t'"
    if 32 <= o < 127:
        return "'" + c + "'"
    return "'\\u{%x}'" % o


def lean_chars(s):
    return "[" + ", ".join(lean_char(c) for c in s) + "]"


def lean_path(comps):
    return "[" + ", ".join(lean_chars(c) for c in comps) + "]"


def lean_str(s):
    return '"' + s.replace("\\", "\\\\").replace('"', '\\"').replace("\n", "\\n").replace("\t", "\\t") + '"'


def main():
    path = os.path.join(SRC, "new_project.rs")
    src = open(path, encoding="utf-8").read()

    # ---- keywords: the string literals of the `matches!` in is_rust_keyword, in source order
    kb = fn_body(src, "is_rust_keyword")
    if not re.match(r"\s*matches!\(\s*value\s*,", kb):
        die("is_rust_keyword is no longer a single matches!(value, …)")
    inner = kb[kb.index(",") + 1: kb.rindex(")")]
    if re.sub(r'"(?:[^"\\]|\\.)*"|[\s|]', "", inner) != "":
        die("is_rust_keyword: unexpected tokens in the pattern list: " + re.sub(r'"(?:[^"\\]|\\.)*"|[\s|]', "", inner)[:40])
    keywords = [rust_str(x) for x in re.findall(r'"((?:[^"\\]|\\.)*)"', inner)]
    if not keywords:
        die("no keywords found")

    # ---- placeholders: render_template = template.replace(P1, &values.f1).replace(P2, …)…
    rb = fn_body(src, "render_template")
    flat = re.sub(r"\s+", "", rb)
    if not flat.startswith("template"):
        die("render_template no longer starts from `template`")
    reps = re.findall(r'\.replace\("((?:[^"\\]|\\.)*)",&values\.(\w+),?\)', flat)
    if "template" + "".join(f'.replace("{p}",&values.{f}' + ")" for p, f in reps) != flat.replace(",)", ")"):
        die("render_template is no longer a pure chain of .replace(\"…\", &values.field)")
    placeholders = [(rust_str(p), f) for p, f in reps]

    # ---- TemplateValues::new: field -> expression (recorded; the Lean model of each expression is hand-written
    #      in Cli/Render.lean and checked against this text by `valuesShape`)
    m = re.search(r"impl\s+TemplateValues\s*\{(.*?)\n\}", src, re.S)
    if not m:
        die("impl TemplateValues not found")
    short = re.search(r"Self\s*\{([^{}]*)\}", m.group(1), re.S)
    if not short:
        die("TemplateValues::new: Self { … } literal not found")
    values = []
    for line in short.group(1).strip().split("\n"):
        line = line.strip().rstrip(",")
        if not line:
            continue
        if ":" in line:
            k, v = line.split(":", 1)
            values.append((k.strip(), re.sub(r"\s+", " ", v.strip())))
        else:
            values.append((line, line))

    # ---- directories: create_project_directories
    db = fn_body(src, "create_project_directories")
    var = {"base": []}
    for v, parent, comp in re.findall(r'let\s+(\w+)\s*=\s*(\w+)\.join\("([^"]+)"\);', db):
        if parent not in var:
            die(f"create_project_directories: unknown parent {parent}")
        var[v] = var[parent] + comp.split("/")
    fm = re.search(r"for\s+\w+\s+in\s*\[(.*?)\]\s*\{\s*fs::create_dir_all\(\w+\)\?;", db, re.S)
    if not fm:
        die("create_project_directories: loop shape changed")
    dirs = []
    for item in [x.strip() for x in fm.group(1).split(",") if x.strip()]:
        mm = re.fullmatch(r"(\w+)\.as_path\(\)", item)
        if not mm or mm.group(1) not in var:
            die("create_project_directories: item " + item)
        dirs.append(var[mm.group(1)])

    # ---- files: write_project_files
    wb = fn_body(src, "write_project_files")
    consts = dict(re.findall(r'const\s+(\w+):\s*&str\s*=\s*include_str!\("([^"]+)"\);', wb))
    am = re.search(r"let\s+files\s*=\s*\[(.*?)\];", wb, re.S)
    if not am:
        die("write_project_files: files array not found")
    entries = re.findall(r'\(\s*(\w+)\s*,\s*base\.join\("([^"]+)"\)\s*\)', am.group(1))
    if len(entries) != am.group(1).count("base.join"):
        die("write_project_files: entry shape changed")
    files = []
    for c, rel in entries:
        if c not in consts:
            die("write_project_files: const " + c)
        text = open(os.path.join(SRC, consts[c]), encoding="utf-8").read()
        files.append((consts[c], rel.split("/"), text))
    tdir = os.path.join(SRC, "template")
    unused = sorted(set(os.listdir(tdir)) - {os.path.basename(f[0]) for f in files})

    # ---- println! lines of new_project_in, staging attempts, keypair path
    nb = fn_body(src, "new_project_in")
    printlns = len(re.findall(r"\bprintln!\s*\(", nb))
    sb = fn_body(src, "staging_directory_for")
    am2 = re.search(r"for\s+attempt\s+in\s+0_u32\.\.(\d+)", sb)
    if not am2:
        die("staging_directory_for: attempt loop shape changed")
    attempts = int(am2.group(1))
    kb2 = re.sub(r"\s+", "", fn_body(src, "program_keypair_relative_path"))
    km = re.fullmatch(r'letartifact_name=project_name\.replace\(\'-\',"_"\);Path::new\("([^"]+)"\)((?:\.join\("[^"]+"\))*)\.join\(format!\("\{artifact_name\}([^"]*)"\)\)', kb2)
    if not km:
        die("program_keypair_relative_path: shape changed: " + kb2)
    kp_dir = [km.group(1)] + re.findall(r'\.join\("([^"]+)"\)', km.group(2))
    kp_suffix = km.group(3)

    os.makedirs(OUT, exist_ok=True)
    hdr = ("/-! GENERATED by bin/gen_cli_tables.py from star_frame_cli/src/new_project.rs (+ src/template/*).\n"
           "Do not edit: rewritten on every `bin/check C20`. -/\n")
    kw = hdr + "namespace Cli.Generated\n\n/-- The string patterns of `is_rust_keyword`, in source order. -/\ndef keywords : List (List Char) := [\n"
    kw += ",\n".join(f"  {lean_chars(k)}" for k in keywords)
    kw += "\n]\n\n/-- Same list as strings (for reading; not used by proofs). -/\ndef keywordStrings : List String := [" + ", ".join(lean_str(k) for k in keywords) + "]\n\nend Cli.Generated\n"

    tp = "import Cli.Values\n" + hdr + "namespace Cli.Generated\n\n"
    tp += "/-- `render_template`: the patterns of the `.replace(pattern, &values.field)` chain, in order. -/\n"
    tp += "def placeholderPatterns : List (List Char) := [\n" + ",\n".join(f"  {lean_chars(p)}" for p, f in placeholders) + "\n]\n\n"
    tp += "/-- … and the replacement of each pattern, in the same order. -/\n"
    tp += "def placeholderValues (values : Cli.TemplateValues) : List (List Char) := [" + ", ".join(f"values.{f}" for p, f in placeholders) + "]\n\n"
    tp += "/-- `TemplateValues::new`: field := expression, as written in the source. -/\n"
    tp += "def valuesShape : List (String × String) := [\n" + ",\n".join(f"  ({lean_str(k)}, {lean_str(v)})" for k, v in values) + "\n]\n\n"
    tp += "/-- `create_project_directories`: the directories, in loop order (components below the project root). -/\n"
    tp += "def projectDirs : List (List (List Char)) := [\n" + ",\n".join("  " + lean_path(d) for d in dirs) + "\n]\n"
    tp += "-- i.e. " + ", ".join("/".join(d) for d in dirs) + "\n\n"
    tp += "/-- `program_keypair_relative_path`: directory components and file-name suffix after the artifact name. -/\n"
    tp += "def keypairDir : List (List Char) := " + lean_path(kp_dir) + "  -- " + "/".join(kp_dir) + "\n"
    tp += "def keypairSuffix : List Char := " + lean_chars(kp_suffix) + "\n\n"
    tp += f"/-- `println!` invocations of `new_project_in` after a successful scaffold. -/\ndef printlnCount : Nat := {printlns}\n\n"
    tp += f"/-- Attempts of the staging-name loop in `staging_directory_for`. -/\ndef stagingAttempts : Nat := {attempts}\n\n"
    for tname, rel, text in files:
        ident = "tpl_" + re.sub(r"\W", "_", os.path.basename(tname))
        tp += f"/-- `{tname}` ({len(text)} chars) -/\ndef {ident} : List Char := {lean_chars(text)}\n\n"
    tp += "/-- `write_project_files`: (output path below the project root, template text), in write order. -/\n"
    tp += "def projectFiles : List (List (List Char) × List Char) := [\n" + ",\n".join(
        "  (" + lean_path(rel) + ", tpl_" + re.sub(r"\W", "_", os.path.basename(tname)) + ")" for tname, rel, _ in files) + "\n]\n"
    tp += "-- i.e. " + ", ".join("/".join(rel) for _, rel, _ in files) + "\n\n"
    tp += "/-- Template source file name of each entry of `projectFiles` (for the driver's `rendertpl` op). -/\n"
    tp += "def templateNames : List String := [" + ", ".join(lean_str(os.path.basename(tname)) for tname, _, _ in files) + "]\n\n"
    tp += "/-- Template files present in src/template but not written by `write_project_files`. -/\n"
    tp += "def unusedTemplates : List String := [" + ", ".join(lean_str(u) for u in unused) + "]\n\nend Cli.Generated\n"

    summary = []
    for fname, body in (("Keywords.lean", kw), ("Templates.lean", tp)):
        p = os.path.join(OUT, fname)
        old = open(p, encoding="utf-8").read() if os.path.exists(p) else None
        h = hashlib.sha1(body.encode()).hexdigest()[:10]
        if old is None:
            summary.append(f"{fname}: new ({h})")
        elif old == body:
            summary.append(f"{fname}: unchanged ({h})")
        else:
            ol, nl = set(old.split("\n")), set(body.split("\n"))
            summary.append(f"{fname}: CHANGED ({h}) -{len(ol - nl)} +{len(nl - ol)} lines; first new: " + "; ".join(sorted(nl - ol))[:300])
        if old != body:
            with open(p, "w", encoding="utf-8") as f:
                f.write(body)
    print(f"gen_cli_tables: source {path}: {len(keywords)} keywords, {len(placeholders)} placeholders, {len(dirs)} dirs, "
          f"{len(files)} files, {printlns} println, {attempts} attempts, unused templates {unused}")
    for s in summary:
        print("gen_cli_tables: " + s)


if __name__ == "__main__":
    main()
