#!/usr/bin/env python3
"""Translator for C20: re-extracts the tables the Lean model of `sf new` depends on from the source.

  $VERIF_REPO/star_frame_cli/src/new_project.rs  + src/template/*   (default VERIF_REPO=/repo)
      -> /verif/lean/Cli/Cli/Generated/Keywords.lean    (the keyword list)
      -> /verif/lean/Cli/Cli/Generated/Templates.lean   (placeholder chain, directories, (path, template) list,
                                                         keypair path, println! count, staging attempts, template texts)

Items are located BY ROLE, not by the name of a private function, and several equivalent shapes of each are
understood (matches!/const array/match for the keyword list; literal/hex/underscore/named-constant numbers;
looped, unrolled or table-driven directory creation; templates declared at function or module level; a
`.replace(..)` chain or a table of (placeholder, value) pairs).

When an item still has a shape this script does not understand it does NOT fail: it keeps the previously
generated block of that item (the committed Generated/*.lean come from the pristine tree), prints
    gen_cli_tables: FALLBACK <item>: <reason>
and exits 0. `bin/check` collects those lines into the evidence (`translate_fallbacks`). This is sound only
because the correspondence run validates every table entry behaviourally on every run (keywords through the
real validator, every generated file byte for byte, the tree listing, the staging-attempt and println
boundaries) — see notes/C20.md "Harmless rewrites".
"""
import hashlib, os, re, sys

VERIF = os.path.dirname(os.path.dirname(os.path.abspath(__file__)))
REPO = os.environ.get("VERIF_REPO", "/repo")
SRC = os.path.join(REPO, "star_frame_cli", "src")
OUT = os.environ.get("GEN_CLI_OUT") or os.path.join(VERIF, "lean", "Cli", "Cli", "Generated")

STR = r'"((?:[^"\\]|\\.)*)"'


class Unknown(Exception):
    pass


def die(msg):
    print("gen_cli_tables: " + msg, file=sys.stderr)
    sys.exit(2)


# ------------------------------------------------------------------------------------------------ source

def strip_comments(src):
    """Blank out // comments (doc comments included) and /* */ comments; string and char literals are kept."""
    out, i, n = [], 0, len(src)
    while i < n:
        c = src[i]
        if c == '"':
            j = i + 1
            while j < n and src[j] != '"':
                j += 2 if src[j] == "\\" else 1
            out.append(src[i:j + 1]); i = j + 1
        elif c == "'":
            m = re.match(r"'(\\.|[^\\'])'", src[i:i + 4])
            if m:
                out.append(m.group(0)); i += len(m.group(0))
            else:
                out.append(c); i += 1
        elif src.startswith("//", i):
            while i < n and src[i] != "\n":
                i += 1
        elif src.startswith("/*", i):
            j = src.find("*/", i + 2)
            i = n if j < 0 else j + 2
        else:
            out.append(c); i += 1
    return "".join(out)


def match_close(s, i, open_ch, close_ch):
    """Index of the bracket closing the one at s[i] (string/char literals skipped)."""
    depth, j, n = 0, i, len(s)
    while j < n:
        c = s[j]
        if c == '"':
            j += 1
            while j < n and s[j] != '"':
                j += 2 if s[j] == "\\" else 1
        elif c == "'":
            m = re.match(r"'(\\.|[^\\'])'", s[j:j + 4])
            if m:
                j += len(m.group(0)) - 1
        elif c == open_ch:
            depth += 1
        elif c == close_ch:
            depth -= 1
            if depth == 0:
                return j
        j += 1
    raise Unknown("unbalanced " + open_ch)


def functions(src):
    """[(name, params text, body text)] of every fn (nested ones included), in source order."""
    res = []
    for m in re.finditer(r"\bfn\s+(\w+)\s*(?:<[^>]*>)?\s*\(", src):
        try:
            pe = match_close(src, m.end() - 1, "(", ")")
            bi = src.index("{", pe)
            if ";" in src[pe:bi]:
                continue
            be = match_close(src, bi, "{", "}")
        except (Unknown, ValueError):
            continue
        res.append((m.group(1), src[m.end():pe], src[bi + 1:be]))
    return res


def rust_str(lit):
    out, i = [], 0
    while i < len(lit):
        if lit[i] == "\\":
            e = lit[i + 1]
            v = {"n": "\n", "t": "\t", "\\": "\\", '"': '"', "'": "'", "0": "\0"}.get(e)
            if v is None:
                raise Unknown("escape \\" + e)
            out.append(v); i += 2
        else:
            out.append(lit[i]); i += 1
    return "".join(out)


def parse_int(tok, consts):
    tok = tok.strip()
    seen = set()
    while tok in consts and tok not in seen:
        seen.add(tok); tok = consts[tok].strip()
    m = re.fullmatch(r"(0x[0-9a-fA-F_]+|0o[0-7_]+|0b[01_]+|[0-9][0-9_]*)(_?(?:u|i)(?:8|16|32|64|128|size))?", tok)
    if not m:
        raise Unknown("not an integer literal: " + tok[:30])
    return int(m.group(1).replace("_", ""), 0)


# ------------------------------------------------------------------------------------------------ lean text

def lean_char(c):
    o = ord(c)
    if c == "'":
        return "'\\''"
    if c == "\\":
        return "'\\\\'"
    if c == "\n":
        return "'\\n'"
    if c == "\t":
        return "'\\t'"
    if 32 <= o < 127:
        return "'" + c + "'"
    return "'\\u{%x}'" % o


def lean_chars(s):
    return "[" + ", ".join(lean_char(c) for c in s) + "]"


def lean_path(comps):
    return "[" + ", ".join(lean_chars(c) for c in comps) + "]"


def lean_str(s):
    return '"' + s.replace("\\", "\\\\").replace('"', '\\"').replace("\n", "\\n").replace("\t", "\\t") + '"'


def tpl_ident(fname):
    return "tpl_" + re.sub(r"\W", "_", fname)


# ------------------------------------------------------------------------------------------------ items

def item_keywords(src, fns, consts):
    """The keyword list = the string literals of the unique fn body / const array that holds only word-like
    literals and contains the tell-tale keywords."""
    tell = {"fn", "struct", "impl", "match", "self", "crate", "unsafe"}
    groups = []
    for name, _, body in fns:
        lits = re.findall(STR, body)
        groups.append(("fn " + name, lits))
    for m in re.finditer(r"\b(?:const|static)\s+(\w+)\s*:\s*[^=]*?=\s*&?\s*\[", src):
        try:
            e = match_close(src, m.end() - 1, "[", "]")
        except Unknown:
            continue
        groups.append(("const " + m.group(1), re.findall(STR, src[m.end():e])))
    cands = [(w, l) for w, l in groups if l and tell <= set(l) and all(re.fullmatch(r"[A-Za-z_]+", x) for x in l)]
    # a fn that merely mentions the const does not add a second candidate (its own literals would have to qualify)
    if len(cands) != 1:
        raise Unknown(f"{len(cands)} candidate keyword lists")
    kws = []
    for k in cands[0][1]:
        if k not in kws:
            kws.append(k)
    return kws, cands[0][0]


ROLE_FIELD = {"lower": "name_lowercase", "underscore": "name_lowercase_underscore", "upper": "name_uppercase",
              "pascal": "name_pascalcase", "pubkey": "pubkey"}


def classify_value(expr, consts, name_param, key_param):
    """Which of the five modelled values a Rust expression of TemplateValues::new computes (by role)."""
    e = re.sub(r"\s+", "", expr)
    for k, v in consts.items():
        e = re.sub(r"\b" + re.escape(k) + r"\b", re.sub(r"\s+", "", v), e)
    e = e.lstrip("&")
    n, p = re.escape(name_param), re.escape(key_param)
    if re.fullmatch(rf"{n}\.to_case\(Case::(Pascal|UpperCamel)\)", e):
        return "pascal"
    if re.fullmatch(rf"{n}\.to_ascii_uppercase\(\)", e):
        return "upper"
    if re.fullmatch(rf"{n}\.replace\(('-'|\"-\"),(\"_\"|'_')\)", e):
        return "underscore"
    if re.fullmatch(rf"({n}\.(to_owned|to_string|into)\(\)|String::from\({n}\)|{n}\.to_owned\(\)\.into\(\))", e):
        return "lower"
    if re.fullmatch(rf"({p}|{p}\.clone\(\)|{p}\.to_owned\(\)|{p}\.to_string\(\))", e):
        return "pubkey"
    raise Unknown("value expression not recognised: " + expr.strip()[:60])


def item_placeholders(src, fns, consts):
    """[(placeholder pattern, role)] in replacement order + the source text of each value (informational)."""
    # the constructor: the fn whose params are (x: &str, y: String) and whose body builds the values
    ctor = None
    for name, params, body in fns:
        ps = [q.strip() for q in params.split(",") if q.strip()]
        if len(ps) == 2 and re.fullmatch(r"\w+\s*:\s*&\s*str", ps[0]) and re.fullmatch(r"\w+\s*:\s*String", ps[1]) \
                and ("to_case" in body or "to_ascii_uppercase" in body):
            if ctor is not None:
                raise Unknown("two candidate value constructors")
            ctor = (ps[0].split(":")[0].strip(), ps[1].split(":")[0].strip(), body)
    if ctor is None:
        raise Unknown("value constructor (name: &str, pubkey: String) not found")
    name_param, key_param, cbody = ctor
    pairs = []  # (pattern, expr text)
    # shape B: a table of ("{placeholder}", expr) pairs
    for m in re.finditer(r"\(\s*" + STR + r"\s*,", cbody):
        lit = rust_str(m.group(1))
        if not re.fullmatch(r"\{[a-z_]+\}", lit):
            continue
        start = cbody.rindex("(", 0, m.end())
        end = match_close(cbody, start, "(", ")")
        pairs.append((lit, cbody[m.end():end].strip().rstrip(",").strip()))
    if not pairs:
        # shape A: a `.replace("{placeholder}", &values.field)` chain + field initialisers in the constructor
        chain = re.findall(r"\.replace\(\s*" + STR + r"\s*,\s*&?\s*\w+\.(\w+)\s*,?\s*\)", src)
        chain = [(rust_str(p), f) for p, f in chain if re.fullmatch(r"\{[a-z_]+\}", rust_str(p))]
        if not chain:
            raise Unknown("neither a .replace(\"{…}\", &values.field) chain nor a (placeholder, value) table found")
        lm = re.search(r"\b(?:Self|\w+)\s*\{([^{}]*)\}\s*$", cbody.strip(), re.S) or re.search(r"\bSelf\s*\{([^{}]*)\}", cbody, re.S)
        if not lm:
            raise Unknown("struct literal of the value constructor not found")
        inits = {}
        depth, cur, parts = 0, "", []
        for ch in lm.group(1):
            if ch in "([{":
                depth += 1
            elif ch in ")]}":
                depth -= 1
            if ch == "," and depth == 0:
                parts.append(cur); cur = ""
            else:
                cur += ch
        parts.append(cur)
        for part in parts:
            part = part.strip()
            if not part:
                continue
            if ":" in part and re.match(r"\w+\s*:", part):
                k, v = part.split(":", 1)
                inits[k.strip()] = v.strip()
            else:
                inits[part] = part
        for p, f in chain:
            if f not in inits:
                raise Unknown(f"field {f} has no initialiser in the constructor")
            pairs.append((p, inits[f]))
    # every placeholder literal of the file must be covered
    lits = {rust_str(x) for x in re.findall(STR, src)}
    missing = {l for l in lits if re.fullmatch(r"\{[a-z_]+\}", l)} - {p for p, _ in pairs}
    if missing:
        raise Unknown("placeholder literals not covered by the chain: " + ", ".join(sorted(missing)))
    return [(p, classify_value(e, consts, name_param, key_param), e) for p, e in pairs]


def join_chain(expr, var, consts):
    """Components of `base.join("a").join("b")` / a variable bound to such a chain; None if not such a thing."""
    e = re.sub(r"\s+", "", expr).lstrip("&")
    e = re.sub(r"\.as_path\(\)$", "", e)
    m = re.fullmatch(r"(\w+)((?:\.join\(" + STR + r"\))*)", e)
    if not m or m.group(1) not in var:
        return None
    comps = list(var[m.group(1)])
    for lit in re.findall(r"\.join\(" + STR + r"\)", m.group(2)):
        comps += [c for c in rust_str(lit).split("/") if c]
    return comps


def item_dirs(src, fns, consts):
    cands = [(n, p, b) for n, p, b in fns if "create_dir_all" in b and "keypair" not in b.lower() and "keypair" not in p.lower()]
    if len(cands) != 1:
        raise Unknown(f"{len(cands)} candidate directory-creating functions")
    name, params, body = cands[0]
    pm = re.match(r"\s*(\w+)\s*:\s*&\s*Path", params)
    if not pm:
        raise Unknown("directory function does not take a base &Path")
    var = {pm.group(1): []}
    for v, rhs in re.findall(r"let\s+(\w+)\s*=\s*([^;]+);", body):
        c = join_chain(rhs, var, consts)
        if c is not None:
            var[v] = c
    dirs = []
    # table driven: CONST.iter()… create_dir_all(base.join(x))
    tm = re.search(r"\b([A-Z][A-Z0-9_]*)\s*\.\s*(?:iter|into_iter)\(\)", body)
    lm = re.search(r"for\s+\w+\s+in\s*\[(.*?)\]\s*\{", body, re.S)
    if tm:
        am = re.search(r"\b(?:const|static)\s+" + tm.group(1) + r"\s*:\s*[^=]*?=\s*&?\s*\[", src)
        if not am:
            raise Unknown("directory table " + tm.group(1) + " not found")
        e = match_close(src, am.end() - 1, "[", "]")
        for lit in re.findall(STR, src[am.end():e]):
            dirs.append([c for c in rust_str(lit).split("/") if c])
        if not re.search(r"create_dir_all\(\s*&?\s*" + re.escape(pm.group(1)) + r"\.join\(\s*\w+\s*\)\s*\)", body):
            raise Unknown("table-driven directory loop has an unknown body")
    elif lm:
        for item in [x.strip() for x in lm.group(1).split(",") if x.strip()]:
            c = join_chain(item, var, consts)
            if c is None:
                raise Unknown("directory loop item " + item[:30])
            dirs.append(c)
        if not re.search(r"create_dir_all\(\s*&?\s*\w+\s*\)", body):
            raise Unknown("directory loop has an unknown body")
    else:
        for arg in re.findall(r"create_dir_all\(([^()]*(?:\([^()]*\)[^()]*)*)\)", body):
            c = join_chain(arg, var, consts)
            if c is None:
                raise Unknown("create_dir_all argument " + arg.strip()[:30])
            dirs.append(c)
    if not dirs or any(not d for d in dirs):
        raise Unknown("no directories found")
    return dirs


def item_keypair(src, fns, consts):
    for name, params, body in fns:
        m = re.search(r'format!\(\s*"\{(\w*)\}([^"{}]*keypair[^"{}]*)"', body)
        if not m:
            continue
        flat = re.sub(r"\s+", "", body)
        pm = re.search(r'Path::new\(' + STR + r'\)((?:\.join\(' + STR + r'\))*)\.join\(format!', flat)
        if not pm:
            raise Unknown("keypair path is not Path::new(\"…\").join(\"…\")….join(format!(…))")
        comps = [c for c in rust_str(pm.group(1)).split("/") if c]
        for lit in re.findall(r"\.join\(" + STR + r"\)", pm.group(2)):
            comps += [c for c in rust_str(lit).split("/") if c]
        # the artifact name must be the `-` -> `_` normalised project name
        b = flat
        for k, v in consts.items():
            b = re.sub(r"\b" + re.escape(k) + r"\b", re.sub(r"\s+", "", v), b)
        if not re.search(r"\.replace\(('-'|\"-\"),(\"_\"|'_')\)", b):
            raise Unknown("keypair artifact name is not name.replace('-', \"_\")")
        return comps, rust_str(m.group(2))
    raise Unknown("keypair path function not found")


def item_println(src, fns, consts):
    counts = [len(re.findall(r"\bprintln!\s*\(", b)) for _, _, b in fns]
    n = max(counts) if counts else 0
    if n == 0 or sum(counts) != n:
        raise Unknown("println! calls are spread over several functions")
    return n


def item_attempts(src, fns, consts):
    cands = [b for _, _, b in fns if re.search(r"\bcreate_dir\(", b)]
    if len(cands) != 1:
        raise Unknown(f"{len(cands)} functions call create_dir")
    m = re.search(r"for\s+\w+\s+in\s+([\w']+)\s*\.\.(=?)\s*([\w']+)\s*\{", cands[0])
    if not m:
        raise Unknown("attempt loop is not `for x in a..b`")
    lo, hi = parse_int(m.group(1), consts), parse_int(m.group(3), consts)
    n = hi - lo + (1 if m.group(2) else 0)
    if n <= 0:
        raise Unknown("empty attempt range")
    return n


def item_files(src, fns, consts, tnames):
    tconst = {}
    for c, f in re.findall(r"\bconst\s+(\w+)\s*:\s*&\s*(?:'static\s+)?str\s*=\s*include_str!\(\s*" + STR + r"\s*\)\s*;", src):
        tconst[c] = rust_str(f)
    pairs = []
    # (CONST, base.join("rel")) | ("rel", include_str!("…")) | ("rel", CONST)
    pat = (r"\(\s*(?:(?P<c1>[A-Z][A-Z0-9_]*)\s*,\s*\w+\.join\(\s*" + STR.replace("(", "(?P<p1>", 1) + r"\s*\)"
           r"|" + STR.replace("(", "(?P<p2>", 1) + r"\s*,\s*(?:include_str!\(\s*" + STR.replace("(", "(?P<f2>", 1) + r"\s*\)|(?P<c2>[A-Z][A-Z0-9_]*)))\s*,?\s*\)")
    for m in re.finditer(pat, src):
        if m.group("c1"):
            if m.group("c1") not in tconst:
                continue
            pairs.append((rust_str(m.group("p1")), tconst[m.group("c1")]))
        elif m.group("f2") is not None:
            pairs.append((rust_str(m.group("p2")), rust_str(m.group("f2"))))
        elif m.group("c2") in tconst:
            pairs.append((rust_str(m.group("p2")), tconst[m.group("c2")]))
    if not pairs:
        raise Unknown("no (template, path) pairs found")
    n_inc = len(re.findall(r"include_str!\(", src))
    if len(pairs) != n_inc:
        raise Unknown(f"{n_inc} include_str! but {len(pairs)} (template, path) pairs")
    out = []
    for rel, tf in pairs:
        base = os.path.basename(tf)
        if base not in tnames or os.path.dirname(tf) != "template":
            raise Unknown("template file " + tf)
        out.append(([c for c in rel.split("/") if c], base))
    return out


# ------------------------------------------------------------------------------------------------ blocks

def blocks_of(text):
    return {m.group(1): m.group(2) for m in re.finditer(r"-- BEGIN (\w+)\n(.*?)-- END \1\n", text, re.S)}


def main():
    path = os.path.join(SRC, "new_project.rs")
    if not os.path.exists(path):
        die(path + " not found")
    raw = open(path, encoding="utf-8").read()
    src = strip_comments(raw)
    tm = re.search(r"#\[cfg\(test\)\]\s*mod\s+\w+\s*\{", src)
    if tm:
        src = src[:tm.start()]
    fns = functions(src)
    consts = {k: v.strip() for k, v in re.findall(r"\bconst\s+(\w+)\s*:\s*[^=;]+=\s*([^;\[\]]+);", src) if "include_str" not in v}
    tdir = os.path.join(SRC, "template")
    tnames = sorted(os.listdir(tdir))

    os.makedirs(OUT, exist_ok=True)
    kpath, tpath = os.path.join(OUT, "Keywords.lean"), os.path.join(OUT, "Templates.lean")
    old_k = open(kpath, encoding="utf-8").read() if os.path.exists(kpath) else ""
    old_t = open(tpath, encoding="utf-8").read() if os.path.exists(tpath) else ""
    old = {**blocks_of(old_k), **blocks_of(old_t)}
    fallbacks, info = [], []

    def item(name, extract, render):
        try:
            val = extract()
            return render(val), val
        except Unknown as e:
            if name not in old:
                die(f"{name}: {e} — and no previously generated block to fall back on")
            fallbacks.append((name, str(e)))
            return old[name], None

    blocks = {}
    blocks["keywords"], kw = item("keywords", lambda: item_keywords(src, fns, consts), lambda v: (
        "/-- The keyword list of the name validator, in source order. -/\n"
        "def keywords : List (List Char) := [\n" + ",\n".join(f"  {lean_chars(k)}" for k in v[0]) + "\n]\n\n"
        "/-- Same list as strings (read by the harness for its probes; not used by proofs). -/\n"
        "def keywordStrings : List String := [" + ", ".join(lean_str(k) for k in v[0]) + "]\n"))
    blocks["placeholders"], ph = item("placeholders", lambda: item_placeholders(src, fns, consts), lambda v: (
        "/-- The placeholder replacement chain: patterns, in order. -/\n"
        "def placeholderPatterns : List (List Char) := [\n" + ",\n".join(f"  {lean_chars(p)}" for p, _, _ in v) + "\n]\n\n"
        "/-- … and the replacement of each pattern, in the same order (fields of the MODEL's `TemplateValues`, chosen by the\n"
        "role of the source expression). Source expressions, for information only:\n"
        + "".join(f"  {p} := {e}\n" for p, _, e in v) + "-/\n"
        "def placeholderValues (values : Cli.TemplateValues) : List (List Char) := ["
        + ", ".join("values." + ROLE_FIELD[r] for _, r, _ in v) + "]\n"))
    blocks["projectDirs"], _ = item("projectDirs", lambda: item_dirs(src, fns, consts), lambda v: (
        "/-- Directories created below the project root before any file is written, in order. -/\n"
        "def projectDirs : List (List (List Char)) := [\n" + ",\n".join("  " + lean_path(d) for d in v) + "\n]\n"
        "-- i.e. " + ", ".join("/".join(d) for d in v) + "\n"))
    blocks["keypair"], _ = item("keypair", lambda: item_keypair(src, fns, consts), lambda v: (
        "/-- Keypair path: directory components and file-name suffix after the `-`→`_` normalised name. -/\n"
        "def keypairDir : List (List Char) := " + lean_path(v[0]) + "  -- " + "/".join(v[0]) + "\n"
        "def keypairSuffix : List Char := " + lean_chars(v[1]) + "\n"))
    blocks["printlnCount"], _ = item("printlnCount", lambda: item_println(src, fns, consts), lambda v: (
        f"/-- `println!` invocations after a successful scaffold. -/\ndef printlnCount : Nat := {v}\n"))
    blocks["stagingAttempts"], _ = item("stagingAttempts", lambda: item_attempts(src, fns, consts), lambda v: (
        f"/-- Attempts of the staging-name loop. -/\ndef stagingAttempts : Nat := {v}\n"))
    # template texts: always regenerated, one definition per file of src/template
    ttext = ""
    for t in tnames:
        text = open(os.path.join(tdir, t), encoding="utf-8").read()
        ttext += f"/-- `template/{t}` ({len(text)} chars) -/\ndef {tpl_ident(t)} : List Char := {lean_chars(text)}\n\n"
    blocks["templateTexts"] = ttext
    blocks["projectFiles"], files = item("projectFiles", lambda: item_files(src, fns, consts, tnames), lambda v: (
        "/-- (output path below the project root, template text), in write order. -/\n"
        "def projectFiles : List (List (List Char) × List Char) := [\n"
        + ",\n".join("  (" + lean_path(rel) + ", " + tpl_ident(t) + ")" for rel, t in v) + "\n]\n"
        "-- i.e. " + ", ".join("/".join(rel) + " <- " + t for rel, t in v) + "\n\n"
        "/-- Template files present in src/template but not written. -/\n"
        "def unusedTemplates : List String := [" + ", ".join(lean_str(u) for u in sorted(set(tnames) - {t for _, t in v})) + "]\n"))
    if files is None:
        # the kept block refers to tpl_ identifiers: they must still exist
        for ident in set(re.findall(r"\btpl_\w+", blocks["projectFiles"])):
            if ident not in {tpl_ident(t) for t in tnames}:
                die(f"projectFiles: fallback block refers to {ident}, which no longer exists in src/template")

    hdr = ("/-! GENERATED by bin/gen_cli_tables.py from star_frame_cli/src/new_project.rs (+ src/template/*).\n"
           "Do not edit: rewritten on every `bin/check C20` (block by block; a block whose source shape is not\n"
           "understood keeps its previous contents and the run reports `FALLBACK <block>`). -/\n")

    def wrap(name):
        return f"-- BEGIN {name}\n{blocks[name]}-- END {name}\n\n"

    kw_text = hdr + "namespace Cli.Generated\n\n" + wrap("keywords") + "end Cli.Generated\n"
    tp_text = ("import Cli.Values\n" + hdr + "namespace Cli.Generated\n\n"
               + "".join(wrap(n) for n in ("placeholders", "projectDirs", "keypair", "printlnCount", "stagingAttempts", "templateTexts", "projectFiles"))
               + "end Cli.Generated\n")

    for fname, body, oldt in (("Keywords.lean", kw_text, old_k), ("Templates.lean", tp_text, old_t)):
        p = os.path.join(OUT, fname)
        h = hashlib.sha1(body.encode()).hexdigest()[:10]
        if not oldt:
            print(f"gen_cli_tables: {fname}: new ({h})")
        elif oldt == body:
            print(f"gen_cli_tables: {fname}: unchanged ({h})")
        else:
            ob, nb = blocks_of(oldt), blocks_of(body)
            changed = [k for k in nb if ob.get(k) != nb[k]]
            print(f"gen_cli_tables: {fname}: CHANGED ({h}) blocks: {', '.join(changed) or '(layout)'}")
        if oldt != body:
            with open(p, "w", encoding="utf-8") as f:
                f.write(body)
    print(f"gen_cli_tables: source {path}: extracted "
          + ", ".join(n for n in ("keywords", "placeholders", "projectDirs", "keypair", "printlnCount", "stagingAttempts", "projectFiles")
                      if n not in {f for f, _ in fallbacks}) + f"; {len(tnames)} template texts")
    for name, why in fallbacks:
        print(f"gen_cli_tables: FALLBACK {name}: {why} (previous table kept; validated behaviourally by the correspondence run)")


if __name__ == "__main__":
    main()
