#!/usr/bin/env python3
"""bin/gen_c14_sets.py [--seed N] [--count K]

Writes /verif/harness/hx-sets/src/gen_sets.rs: K (default 30) seeded-random derived account sets built from
the framework's building blocks (single accounts under Signer/Mut/pass-through/Box stacks, Program, Sysvar,
`()`, Option, Box, arrays of length 0..3, nested derived structs, Vec with every decode-argument form, a
trailing Rest), for the C14 harness. Only Rust TYPES are generated; each set's model shape and argument
type are computed at run time by `Probe::shape()` / `DArg::ty_for()`, so the generator cannot "agree with
itself". The file is pre-generated (deterministic per seed) and only rewritten when this script is run.
"""
import argparse, os, random

LEAVES = ["AccountInfo", "Sg", "Mu", "Mut<Sg>", "Signer<Mu>", "Program<System>", "Sysvar<Rent>", "Mut<Box<Sg>>",
          "NSg<Sg>", "Signer<Box<Mu>>", "NMu<Signer<Mu>>", "Mut<Program<System>>"]


class T:
    """a generated type: rust text, decode-argument rust type ('()' = plain), max accounts, min accounts"""
    def __init__(self, rust, darg, hi, lo, via=""):
        self.rust, self.darg, self.hi, self.lo, self.via = rust, darg, hi, lo, via


class Gen:
    def __init__(self, rng, prefix):
        self.rng, self.prefix, self.defs, self.n_inner = rng, prefix, [], 0

    def leaf(self):
        return T(self.rng.choice(LEAVES), "()", 1, 1)

    def ty(self, depth, allow_vec=True):
        r = self.rng
        k = r.choices(["leaf", "opt", "box", "arr", "struct", "vec", "unit"], [6, 3, 2, 3, 2 if depth > 0 else 0, 3 if allow_vec else 0, 1])[0]
        if depth <= 0 and k not in ("leaf", "unit"):
            k = "leaf"
        if k == "leaf":
            return self.leaf()
        if k == "unit":
            return T("()", "()", 0, 0)
        if k == "opt":
            t = self.ty(depth - 1, allow_vec)
            return T(f"Option<{t.rust}>", t.darg, max(t.hi, 1), 1 if t.lo > 0 else 0, t.via)
        if k == "box":
            t = self.ty(depth - 1, allow_vec)
            return T(f"Box<{t.rust}>", t.darg, t.hi, t.lo, t.via)
        if k == "arr":
            n = r.choice([0, 1, 2, 2, 3])
            t = self.ty(depth - 1, allow_vec)
            if t.darg == "()":
                darg = "()"
            elif r.random() < 0.5:
                darg = f"({t.darg},)"
            else:
                darg = f"[{t.darg}; {n}]"
            return T(f"[{t.rust}; {n}]", darg, t.hi * n, t.lo * n)
        if k == "vec":
            t = self.ty(depth - 1, allow_vec)
            form = r.choice(["len", "len", "each", "tuple"])
            if form == "len":
                return T(f"Vec<{t.rust}>", f"(usize, {t.darg})", t.hi * 3, 0)
            n = r.choice([0, 1, 2, 3])
            return T(f"Vec<{t.rust}>", f"[{t.darg}; {n}]", t.hi * n, t.lo * n, "[tuple]" if form == "tuple" else "")
        # nested derived struct
        return self.struct(depth - 1, top=False)

    def struct(self, depth, top, name=None):
        r = self.rng
        if name is None:
            self.n_inner += 1
            name = f"{self.prefix}i{self.n_inner}"
        nf = r.choice([1, 2, 3, 3, 4, 4, 5] if top else [0, 1, 2, 2, 3])
        fields = [self.ty(depth) for _ in range(nf)]
        if top and r.random() < 0.4:
            # a trailing Rest whose elements always use at least one account and contain neither Rest nor Vec
            e = r.choice([self.leaf(), self.leaf(), T(f"Box<{self.leaf().rust}>", "()", 1, 1), T(f"[{self.leaf().rust}; 2]", "()", 2, 2)])
            fields.append(T(f"Rest<{e.rust}>", "()", e.hi * 3, 0))
        names = [f"f{i}" for i in range(len(fields))]
        plain = all(f.darg == "()" for f in fields)
        hi, lo = sum(f.hi for f in fields), sum(f.lo for f in fields)
        if plain:
            body = ", ".join(f"{n}: {f.rust}" for n, f in zip(names, fields))
            self.defs.append(f"plain_set!({name}, {name}ClientAccounts {{ {body} }});")
            return T(name, "()", hi, lo)
        body = ", ".join(f"{n}: {f.rust} => {f.darg}{(' ' + f.via) if f.via else ''}" for n, f in zip(names, fields))
        self.defs.append(f"args_set!({name}, {name}ClientAccounts, {name}Arg {{ {body} }});")
        return T(name, f"{name}Arg", hi, lo)


def main():
    ap = argparse.ArgumentParser()
    ap.add_argument("--seed", type=int, default=20260930)
    ap.add_argument("--count", type=int, default=30)
    ap.add_argument("--out", default=os.path.join(os.path.dirname(os.path.dirname(os.path.abspath(__file__))), "harness/hx-sets/src/gen_sets.rs"))
    a = ap.parse_args()
    rng = random.Random(a.seed)
    defs, entries = [], []
    i = 0
    while len(entries) < a.count:
        i += 1
        name = f"G{len(entries) + 1:02d}"
        g = Gen(random.Random(rng.getrandbits(64)), name)
        t = g.struct(3, top=True, name=name)
        # keep the account count well below the 64 accounts of a CPI / of the native world
        if t.hi > 36 or i > 10000:
            continue
        defs += g.defs
        entries.append(f"({name}, Ix{name}, {t.darg})")
    out = [f"// @generated by bin/gen_c14_sets.py --seed {a.seed} --count {a.count} — do not edit; re-run the script to refresh.",
           "// Seeded-random derived account sets (types only; shapes and argument types come from Probe / DArg at run time).",
           ""] + defs + ["",
           "macro_rules! with_generated_sets {",
           "    ($($rest:tt)*) => {",
           "        registry! { gen [" + ", ".join(entries) + "] $($rest)* }",
           "    };",
           "}", ""]
    text = "\n".join(out)
    if not os.path.exists(a.out) or open(a.out).read() != text:
        open(a.out, "w").write(text)
    print(f"wrote {a.out}: {len(entries)} sets, {len(defs)} derived structs")


if __name__ == "__main__":
    main()
