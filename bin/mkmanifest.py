#!/usr/bin/env python3
"""Regenerate MANIFEST.json from checks/*.json (claimed) and properties.jsonl (the rest -> not_applicable)."""
import json, os, glob
V = os.path.dirname(os.path.dirname(os.path.abspath(__file__)))
props = [json.loads(l) for l in open(os.path.join(V, "properties.jsonl"))]
na_reasons = json.load(open(os.path.join(V, "checks", "not_applicable.json"))) if os.path.exists(os.path.join(V, "checks", "not_applicable.json")) else {}
checks, claimed = [], set()
_u = os.path.join(V, "checks", "unclaimed.txt")
unclaimed = set(open(_u).read().split()) if os.path.exists(_u) else set()
engines = {}
for p in props:
    cid = p["id"]
    f = os.path.join(V, "checks", cid + ".json")
    if not os.path.exists(f):
        continue
    c = json.load(open(f))
    if c.get("claim", True) is False or cid in unclaimed:
        continue
    claimed.add(cid)
    thms = ", ".join(t.split(".")[-1] for t in c.get("required_theorems", []))
    checks.append({
        "property_id": cid,
        "quick_cmd": f"bin/check {cid} --tier quick",
        "thorough_cmd": f"bin/check {cid} --tier thorough",
        "evidence_file": f"/verif/evidence/{cid}.json",
        "replay_cmd_template": f"bin/check {cid} --replay {{path}}",
        "engine": c["lean_pkg"],
        "level_claimed": {
            "category": c.get("level", "proof"),
            "text": c.get("level_text") or (f"Lean 4 theorems over a hand-written model of the anchored code ({thms}), kernel-checked with an axiom audit on every run; the model is tied to /repo's current tree by a correspondence check (harness {c['harness_crate']} runs the real code, compiled Lean driver {c.get('model_exe')} answers the same op lines, outputs diffed) plus an independent property oracle on the implementation."),
            "design_ref": c.get("design_ref", f"DESIGN.md section 5, {cid}"),
        },
        "level_note": c.get("level_note") or ("Trusted: Lean kernel + allowed axioms (propext, Classical.choice, Quot.sound), Lean compiler for the driver, the hand-written model (tied only differentially), " + "; ".join(c.get("trusted_base_extra", []))),
        "technique": c.get("technique", "Lean 4 proof over executable model + differential correspondence check"),
    })
    e = engines.setdefault(c["lean_pkg"], {"name": c["lean_pkg"], "path": f"lean/{c['lean_pkg']}", "serves_properties": [], "kind_free_text": "Lean 4 lake package (model, lemmas, property theorems, model driver executables)"})
    e["serves_properties"].append(cid)
m = {
    "version": 1,
    "setup_cmd": "bin/setup",
    "hooks": {
        "guard": "star_frame_verif",
        "enable": "RUSTFLAGS=\"--cfg star_frame_verif\" (set by bin/check for every harness build); hooks: star_frame/src/verif_hooks.rs and #[cfg(star_frame_verif)] blocks in cpi.rs, context.rs, unsize/wrapper.rs, unsize/impls/unsized_list.rs",
        "baseline_off_cmd": "cd /repo && (cargo nextest run --workspace --no-fail-fast --test-threads 8 --offline || cargo test --workspace --no-fail-fast --offline)",
        "source_commits": ["3a2af01"],
        "add_only": True,
    },
    "engines": list(engines.values()) + [
        {"name": "bin/check", "path": "bin/check", "serves_properties": sorted(claimed), "kind_free_text": "driver: translate, prove (lake build + forbidden-token + axiom audit), build harness against /repo, correspond (diff impl vs model), decide (violation search, shrink, known findings), evidence"},
        {"name": "harness", "path": "harness", "serves_properties": sorted(claimed), "kind_free_text": "cargo workspace of Rust harnesses calling the real code in-process (path deps on /repo)"}],
    "checks": checks,
    "notes": "Machine-checked proof in Lean 4 (models + theorems under lean/), tied to /repo by correspondence checks (Rust harnesses under harness/ calling the real code, diffed line-by-line against compiled Lean model drivers) and by tables regenerated from source. See DESIGN.md. Known findings: known_findings.json.",
    "not_applicable": [{"property_id": p["id"], "reason": na_reasons.get(p["id"], "not yet claimed: check under construction (DESIGN.md section 9 build order)")} for p in props if p["id"] not in claimed],
}
json.dump(m, open(os.path.join(V, "MANIFEST.json"), "w"), indent=1)
print("claimed:", sorted(claimed))
