#!/usr/bin/env python3
"""Regenerates DESIGN.md section 10.5 (trusted base per property) from checks/*.json."""
import json, glob, os, re
V = os.path.dirname(os.path.dirname(os.path.abspath(__file__)))
out = []
for f in sorted(glob.glob(os.path.join(V, "checks", "C*.json"))):
    c = json.load(open(f)); pid = os.path.basename(f)[:-5]
    out.append(f"* **{pid}** — theorems required: {', '.join(c.get('required_theorems', []))}.")
    for t in c.get("trusted_base_extra", []):
        out.append(f"  - trusted: {t}")
    for a in c.get("assumptions", []):
        out.append(f"  - assumes: {a}")
    if c.get("translate"):
        out.append(f"  - translator(s): {', '.join(c['translate'])} (tolerant parse; unreadable item -> previous table kept + FALLBACK line in the evidence; every table entry validated against the compiled code by the correspondence check)")
p = os.path.join(V, "DESIGN.md"); s = open(p).read()
m = re.search(r"(### 10\.5 [^\n]*\n\n)(.*?)(\nCommon to all: )", s, re.S)
s = s[:m.start(2)] + "\n".join(out) + "\n" + s[m.start(3):]
open(p, "w").write(s); print("10.5 regenerated:", len(out), "lines")
