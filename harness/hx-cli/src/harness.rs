//! The harness proper. It uses ONLY the public API of the real `new_project.rs` (`new_project`, `NewArgs`) and the
//! real `sf` binary, so that renaming / reordering / restructuring private items of the source cannot break it.
use crate::real::{new_project, NewArgs};
use hx_common::{Args, Recorder, Rng};
use std::{
    collections::{BTreeMap, BTreeSet},
    fs,
    io::Read,
    path::{Path, PathBuf},
    process::{Command, Stdio},
    sync::OnceLock,
};

// ------------------------------------------------------------------------------------------------
// encoding / hashing shared with the Lean driver

const MODULUS: u128 = 2305843009213693951;

fn hash_chars(it: impl Iterator<Item = char>) -> u64 {
    let mut h: u128 = 7;
    for c in it {
        h = (h * 1000003 + c as u128 + 1) % MODULUS;
    }
    h as u64
}

fn cps(s: &str) -> String {
    if s.is_empty() {
        return "-".into();
    }
    s.chars().map(|c| format!("{:x}", c as u32)).collect::<Vec<_>>().join(".")
}

fn uncps(t: &str) -> Option<String> {
    if t == "-" {
        return Some(String::new());
    }
    let mut out = String::new();
    for part in t.split('.') {
        if part.is_empty() || part.len() > 6 || !part.chars().all(|c| c.is_ascii_hexdigit()) {
            return None;
        }
        out.push(char::from_u32(u32::from_str_radix(part, 16).ok()?)?);
    }
    Some(out)
}

// ------------------------------------------------------------------------------------------------
// independent oracle (written from the documentation / property text, not from the code)

/// Rust 2021 keywords (strict + reserved), alphabetical. Independent of `is_rust_keyword`.
const ORACLE_KEYWORDS: &[&str] = &[
    "abstract", "as", "async", "await", "become", "box", "break", "const", "continue", "crate", "do", "dyn", "else",
    "enum", "extern", "false", "final", "fn", "for", "if", "impl", "in", "let", "loop", "macro", "match", "mod",
    "move", "mut", "override", "priv", "pub", "ref", "return", "self", "Self", "static", "struct", "super", "trait",
    "true", "try", "type", "typeof", "unsafe", "unsized", "use", "virtual", "where", "while", "yield",
];

/// Unicode White_Space (what "trimming surrounding whitespace" means for a Rust `str`).
fn oracle_is_ws(c: char) -> bool {
    matches!(c as u32, 0x09..=0x0D | 0x20 | 0x85 | 0xA0 | 0x1680 | 0x2000..=0x200A | 0x2028 | 0x2029 | 0x202F | 0x205F | 0x3000)
}

fn oracle_trim(s: &str) -> &str {
    s.trim_matches(oracle_is_ws)
}

/// "a lowercase letter followed by lowercase letters, digits and single '-' or '_' separators, not ending
/// in a separator, and not a Rust keyword once '-' is read as '_'" — by position, on the trimmed name.
fn oracle_name_ok(t: &str) -> bool {
    let cs: Vec<char> = t.chars().collect();
    let lower = |c: char| ('a'..='z').contains(&c);
    let digit = |c: char| ('0'..='9').contains(&c);
    let sep = |c: char| c == '-' || c == '_';
    if cs.is_empty() || !lower(cs[0]) {
        return false;
    }
    if !cs.iter().all(|&c| lower(c) || digit(c) || sep(c)) {
        return false;
    }
    if cs.windows(2).any(|w| sep(w[0]) && sep(w[1])) {
        return false;
    }
    if sep(*cs.last().unwrap()) {
        return false;
    }
    let normalised: String = cs.iter().map(|&c| if c == '-' { '_' } else { c }).collect();
    !ORACLE_KEYWORDS.contains(&normalised.as_str())
}

fn oracle_pascal(name: &str) -> String {
    // words: maximal runs of letters / of digits, separators dropped; first char of each word upper-cased
    let mut out = String::new();
    let mut prev: Option<char> = None;
    for c in name.chars() {
        if c == '-' || c == '_' {
            prev = Some(c);
            continue;
        }
        let start = match prev {
            None => true,
            Some(p) => p == '-' || p == '_' || (p.is_ascii_digit() != c.is_ascii_digit()),
        };
        out.push(if start { c.to_ascii_uppercase() } else { c });
        prev = Some(c);
    }
    out
}

const DOC_PLACEHOLDERS: &[&str] =
    &["{name_lowercase_underscore}", "{name_lowercase}", "{name_uppercase}", "{name_pascalcase}", "{pubkey}"];

/// One-pass substitution (longest placeholder first at each position).
fn oracle_render(template: &str, name: &str, pubkey: &str) -> String {
    let vals = [name.replace('-', "_"), name.to_string(), name.to_ascii_uppercase(), oracle_pascal(name), pubkey.to_string()];
    let mut out = String::new();
    let mut rest = template;
    'outer: while !rest.is_empty() {
        for (p, v) in DOC_PLACEHOLDERS.iter().zip(vals.iter()) {
            if let Some(r) = rest.strip_prefix(p) {
                out.push_str(v);
                rest = r;
                continue 'outer;
            }
        }
        let c = rest.chars().next().unwrap();
        out.push(c);
        rest = &rest[c.len_utf8()..];
    }
    out
}

/// `{ident}` groups that look like an unreplaced placeholder.
fn leftover_placeholder(text: &str) -> Option<String> {
    for p in DOC_PLACEHOLDERS {
        if text.contains(p) {
            return Some((*p).to_string());
        }
    }
    let b = text.as_bytes();
    let mut i = 0;
    while i < b.len() {
        if b[i] == b'{' {
            let mut j = i + 1;
            while j < b.len() && (b[j].is_ascii_lowercase() || b[j] == b'_') {
                j += 1;
            }
            if j > i + 1 && j < b.len() && b[j] == b'}' {
                return Some(String::from_utf8_lossy(&b[i..=j]).into_owned());
            }
        }
        i += 1;
    }
    None
}

// ------------------------------------------------------------------------------------------------
// results of executing one op line

#[derive(Default, Debug)]
struct Outcome {
    answer: String,
    nontrivial: bool,
    bumps: Vec<String>,
    fails: Vec<(String, String)>,
}

impl Outcome {
    fn bad() -> Self {
        Outcome { answer: "bad-op".into(), bumps: vec!["bad-op".into()], ..Default::default() }
    }
}

fn name_err_class(msg: &str) -> &'static str {
    if msg.contains("cannot be empty") {
        "empty"
    } else if msg.contains("must start with") {
        "first"
    } else if msg.contains("consecutive") {
        "consecutive"
    } else if msg.contains("can only include") {
        "charset"
    } else if msg.contains("cannot end with") {
        "trailing"
    } else if msg.contains("keyword") {
        "keyword"
    } else {
        "other"
    }
}

thread_local! {
    /// thread-private working directory (see `enter_private_cwd`)
    static THREAD_CWD: std::cell::RefCell<Option<PathBuf>> = const { std::cell::RefCell::new(None) };
}

/// Give the calling thread its own current directory (Linux: `unshare(CLONE_FS)`), an empty scratch
/// directory. `new_project` works in "." — this lets name ops run in parallel inside this process.
fn enter_private_cwd(i: usize) {
    let dir = SCRATCH.get().expect("scratch").join(format!("t{i}"));
    let _ = fs::remove_dir_all(&dir);
    fs::create_dir_all(&dir).unwrap();
    // SAFETY: plain syscall; only affects the calling thread's fs attributes
    let rc = unsafe { libc::unshare(libc::CLONE_FS) };
    assert_eq!(rc, 0, "unshare(CLONE_FS) failed: {}", std::io::Error::last_os_error());
    std::env::set_current_dir(&dir).unwrap();
    THREAD_CWD.with(|c| *c.borrow_mut() = Some(dir));
}

fn quoted_after<'a>(line: &'a str, key: &str) -> Option<&'a str> {
    let l = line.trim();
    let rest = l.strip_prefix(key)?.trim_start().strip_prefix('=')?.trim_start();
    rest.strip_prefix('"')?.split('"').next()
}

/// What a generated project says about its own names: (package name, lib name, Pascal-case name, keypair file).
fn names_in_project(root: &Path) -> (String, String, String, String) {
    let q = || "?".to_string();
    let (mut package, mut lib, mut pascal, mut kp) = (q(), q(), q(), q());
    if let Ok(t) = fs::read_to_string(root.join("Cargo.toml")) {
        let mut section = "";
        for l in t.lines() {
            let lt = l.trim();
            if lt.starts_with('[') {
                section = lt;
            } else if let Some(v) = quoted_after(lt, "name") {
                if section == "[package]" {
                    package = v.to_string();
                } else if section == "[lib]" {
                    lib = v.to_string();
                }
            }
        }
    }
    if let Ok(t) = fs::read_to_string(root.join("src/lib.rs")) {
        for l in t.lines() {
            if let Some(r) = l.trim().strip_prefix("pub struct ") {
                if let Some(n) = r.strip_suffix("Program;") {
                    pascal = n.to_string();
                }
            }
        }
    }
    if let Ok(rd) = fs::read_dir(root.join("target/deploy")) {
        let mut names: Vec<String> = rd.flatten().map(|e| e.file_name().to_string_lossy().into_owned()).collect();
        names.sort();
        if names.len() == 1 {
            kp = names.remove(0);
        } else if !names.is_empty() {
            kp = names.join("+");
        }
    }
    (package, lib, pascal, kp)
}

/// `name <arg>`: the real `new_project(NewArgs { name })` in an empty thread-private directory.
fn exec_name(raw: &str) -> Outcome {
    if raw.chars().count() > 64 {
        return Outcome::bad();
    }
    let mut o = Outcome::default();
    let cwd = THREAD_CWD.with(|c| c.borrow().clone()).expect("private cwd");
    // leftovers of a previous op that panicked half-way
    if let Ok(rd) = fs::read_dir(&cwd) {
        for e in rd.flatten() {
            if fs::remove_dir_all(e.path()).is_err() {
                let _ = fs::remove_file(e.path());
            }
        }
    }
    let res = new_project(NewArgs { name: raw.to_string() });
    let want = oracle_name_ok(oracle_trim(raw));
    let mut entries: Vec<String> = fs::read_dir(&cwd).map(|rd| rd.flatten().map(|e| e.file_name().to_string_lossy().into_owned()).collect()).unwrap_or_default();
    entries.sort();
    match &res {
        Ok(()) => {
            let t = oracle_trim(raw);
            let dir = entries.first().cloned().unwrap_or_default();
            let (package, lib, pascal, kpfile) = names_in_project(&cwd.join(&dir));
            o.answer = format!("ok {package} {lib} {pascal} {kpfile}");
            o.bumps.push("name:accepted".into());
            o.nontrivial = t.contains(['-', '_']) || t.chars().any(|c| c.is_ascii_digit()) || raw != t;
            if !want {
                o.fails.push(("name_accepted_outside_grammar".into(), format!("accepted {raw:?}")));
            } else {
                // consistency of everything the generated project says about its names
                let under = t.replace('-', "_");
                let mut bad = vec![];
                if entries.len() != 1 || dir != t {
                    bad.push("directory name differs from the trimmed argument");
                }
                if package != t {
                    bad.push("package name");
                }
                if lib != under {
                    bad.push("lib name");
                }
                if pascal != oracle_pascal(t) {
                    bad.push("pascal-case name");
                }
                if !(pascal.chars().next().is_some_and(|c| c.is_ascii_uppercase()) && pascal.chars().all(|c| c.is_ascii_alphanumeric())) {
                    bad.push("pascal-case name is not an identifier");
                }
                if kpfile != format!("{under}-keypair.json") {
                    bad.push("keypair file name");
                }
                for s in [&package, &lib, &pascal, &kpfile] {
                    if s.contains(['{', '}', '/']) {
                        bad.push("derived name contains a brace or slash");
                    }
                }
                if !bad.is_empty() {
                    o.fails.push(("name_derivation_inconsistent".into(), format!("{raw:?}: {}", bad.join(", "))));
                }
            }
        }
        Err(e) => {
            o.answer = "err".into();
            let class = name_err_class(&format!("{e:#}"));
            o.bumps.push(format!("name:err:{class}"));
            // a bad first character (or nothing at all) is the trivial way to be rejected
            o.nontrivial = class != "first" && class != "empty";
            if want {
                o.fails.push(("name_rejected_inside_grammar".into(), format!("rejected {raw:?}: {e}")));
            }
            if !entries.is_empty() {
                o.fails.push(("not_all_or_nothing".into(), format!("rejected {raw:?} but left {entries:?}")));
            }
        }
    }
    for e in entries {
        let p = cwd.join(e);
        if fs::remove_dir_all(&p).is_err() {
            let _ = fs::remove_file(&p);
        }
    }
    o
}

/// `replace <pat> <rep> <text>`: std's `str::replace` (ties the model's `replaceAll`).
fn exec_replace(pat: &str, rep: &str, text: &str) -> Outcome {
    if pat.is_empty() {
        return Outcome::bad();
    }
    let out = text.replace(pat, rep);
    Outcome { answer: format!("ok {}", hex_bytes(out.as_bytes())), nontrivial: out != text, bumps: vec!["replace".into()], ..Default::default() }
}

fn hex_bytes(b: &[u8]) -> String {
    if b.is_empty() {
        return "-".into();
    }
    b.iter().map(|x| format!("{x:02x}")).collect()
}

// ------------------------------------------------------------------------------------------------
// the real binary

fn repo_root() -> PathBuf {
    PathBuf::from(std::env::var("VERIF_REPO").unwrap_or_else(|_| env!("HX_CLI_REPO").to_string()))
}

struct Sf {
    bin: PathBuf,
    /// number of calls of each syscall that precede the first scaffold-related one (dynamic loader etc.)
    off: BTreeMap<String, usize>,
    /// scaffold-related calls per syscall in a clean run
    counts: BTreeMap<String, usize>,
    /// template file name -> text, read from the source tree
    templates: Vec<(String, String)>,
    scratch: PathBuf,
}

static SF: OnceLock<Sf> = OnceLock::new();
static SCRATCH: OnceLock<PathBuf> = OnceLock::new();

fn build_sf() -> PathBuf {
    let repo = repo_root();
    let verif = std::env::var("VERIF_DIR").unwrap_or_else(|_| "/verif".into());
    let is_alt = repo.canonicalize().ok() != Some(PathBuf::from("/repo"));
    let target = match std::env::var("CARGO_TARGET_DIR") {
        Ok(t) => PathBuf::from(t).join("sf"),
        Err(_) if is_alt => PathBuf::from(format!("{}-target", repo.canonicalize().unwrap().display())).join("sf"),
        Err(_) => PathBuf::from(verif).join("harness/target/sf"),
    };
    let out = Command::new("cargo")
        .args(["build", "--release", "--offline", "--locked", "-p", "star_frame_cli", "--manifest-path"])
        .arg(repo.join("Cargo.toml"))
        // run inside the tree so that its rust-toolchain.toml selects the compiler (and so the std
        // whose create_dir_all / fs::write the binary ends up with) a user of the repo would get
        .current_dir(&repo)
        .env_remove("RUSTUP_TOOLCHAIN")
        .env("CARGO_TARGET_DIR", &target)
        .env("RUSTFLAGS", "--cfg star_frame_verif")
        .env("CARGO_NET_OFFLINE", "true")
        .output()
        .expect("run cargo");
    if !out.status.success() {
        eprintln!("{}", String::from_utf8_lossy(&out.stderr));
        panic!("building the real `sf` binary from {} failed", repo.display());
    }
    let bin = target.join("release/sf");
    assert!(bin.exists(), "{} missing", bin.display());
    bin
}

/// (syscall, args text, result text) of each traced line
fn parse_trace(path: &Path) -> Vec<(String, String, String)> {
    let text = fs::read_to_string(path).unwrap_or_default();
    let mut v = vec![];
    for l in text.lines() {
        // "<pid> name(args) = ret ..."
        let l = l.trim_start_matches(|c: char| c.is_ascii_digit()).trim_start();
        if let Some(p) = l.find('(') {
            let name = &l[..p];
            if name.chars().all(|c| c.is_ascii_alphanumeric() || c == '_') && !name.is_empty() {
                let (args, ret) = match l.rfind(" = ") {
                    Some(q) if q > p => (&l[p + 1..q], &l[q + 3..]),
                    _ => (&l[p + 1..], ""),
                };
                v.push((name.to_string(), args.to_string(), ret.to_string()));
            }
        }
    }
    v
}

const TRACED: &str = "trace=mkdir,openat,write,rename";

fn sf() -> &'static Sf {
    SF.get_or_init(|| {
        let bin = build_sf();
        let scratch = SCRATCH.get().expect("scratch dir").clone();
        // baseline: a clean traced run tells how many loader-related calls precede the scaffold's own
        let d = scratch.join("baseline");
        let _ = fs::remove_dir_all(&d);
        fs::create_dir_all(&d).unwrap();
        let tr = scratch.join("baseline.trace");
        let st = Command::new("strace")
            .args(["-f", "-o"])
            .arg(&tr)
            .args(["-e", TRACED])
            .arg(&bin)
            .args(["new", "--", "ab"])
            .current_dir(&d)
            .stdout(Stdio::null())
            .stderr(Stdio::null())
            .status()
            .expect("run strace (is it installed?)");
        // a failing clean run is a finding of the ops below (a valid name rejected), not a harness error
        let baseline_ok = st.success();
        let calls = parse_trace(&tr);
        let mut off = BTreeMap::new();
        let mut counts = BTreeMap::new();
        for sys in ["mkdir", "openat", "write", "rename"] {
            let mine: Vec<&(String, String, String)> = calls.iter().filter(|c| c.0 == sys).collect();
            let is_scaffold = |c: &(String, String, String)| match sys {
                "write" => !c.1.starts_with("0,") && !c.1.starts_with("1,") && !c.1.starts_with("2,"),
                _ => c.1.contains(".sf-new-"),
            };
            let first = mine.iter().position(|c| is_scaffold(c)).unwrap_or(0);
            let n = if sys == "write" {
                // file writes first, then the println! lines on fd 1
                mine.len() - first
            } else {
                mine.iter().filter(|c| is_scaffold(c)).count()
            };
            off.insert(sys.to_string(), first);
            let default = match sys {
                "mkdir" => 9,
                "openat" => 12,
                "write" => 21,
                _ => 1,
            };
            counts.insert(sys.to_string(), if baseline_ok { n } else { default });
        }
        let _ = fs::remove_dir_all(&d);
        let tdir = repo_root().join("star_frame_cli/src/template");
        let mut templates = vec![];
        let mut names: Vec<_> = fs::read_dir(&tdir).expect("template dir").map(|e| e.unwrap().file_name().to_string_lossy().into_owned()).collect();
        names.sort();
        for n in names {
            templates.push((n.clone(), fs::read_to_string(tdir.join(&n)).unwrap()));
        }
        Sf { bin, off, counts, templates, scratch }
    })
}

#[derive(Debug, Clone, PartialEq, Eq)]
enum Entry {
    Dir,
    File(Vec<u8>),
    Link(String),
}

fn snapshot(root: &Path) -> BTreeMap<String, Entry> {
    fn walk(root: &Path, dir: &Path, out: &mut BTreeMap<String, Entry>) {
        let Ok(rd) = fs::read_dir(dir) else { return };
        for e in rd.flatten() {
            let p = e.path();
            let rel = p.strip_prefix(root).unwrap().to_string_lossy().into_owned();
            let md = fs::symlink_metadata(&p).unwrap();
            if md.file_type().is_symlink() {
                out.insert(rel, Entry::Link(fs::read_link(&p).unwrap().to_string_lossy().into_owned()));
            } else if md.is_dir() {
                out.insert(rel, Entry::Dir);
                walk(root, &p, out);
            } else {
                let mut b = vec![];
                let _ = fs::File::open(&p).and_then(|mut f| f.read_to_end(&mut b));
                out.insert(rel, Entry::File(b));
            }
        }
    }
    let mut out = BTreeMap::new();
    walk(root, root, &mut out);
    out
}

fn valid_component(t: &str) -> bool {
    !t.is_empty() && !t.contains('/') && !t.contains('\0') && t != "." && t != ".."
}

const OK_ERRNOS: &[&str] = &[
    "EACCES", "ENOSPC", "EIO", "EXDEV", "EROFS", "EMFILE", "EPERM", "EDQUOT", "ENOTDIR", "EISDIR", "ENAMETOOLONG", "ELOOP",
    "ENOMEM", "EBUSY", "ENOTEMPTY", "EINTR",
];

/// The errno dimension of the fault grid: what mkdir/open/write/rename can plausibly return, one per distinct
/// `io::ErrorKind` (AlreadyExists, DirectoryNotEmpty, NotFound, PermissionDenied x2, StorageFull, Uncategorized(EIO),
/// CrossesDevices, NotADirectory, IsADirectory, ReadOnlyFilesystem, Uncategorized(EMFILE), InvalidFilename,
/// Interrupted — retried by std for open and write, fatal for mkdir and rename —, ResourceBusy, QuotaExceeded).
const GRID_ERRNOS: &[&str] = &[
    "EEXIST", "ENOTEMPTY", "ENOENT", "EACCES", "EPERM", "ENOSPC", "EIO", "EXDEV", "ENOTDIR", "EISDIR", "EROFS", "EMFILE", "ENAMETOOLONG",
    "EINTR", "EBUSY", "EDQUOT",
];

/// `none` or (syscall, first, last, errno): every call from the first-th to the last-th fails
fn parse_fault(s: &str) -> Option<Option<(String, usize, usize, String)>> {
    if s == "none" {
        return Some(None);
    }
    let parts: Vec<&str> = s.split(':').collect();
    if parts.len() != 3 || !["mkdir", "openat", "write", "rename"].contains(&parts[0]) {
        return None;
    }
    let num = |t: &str| -> Option<usize> {
        if t.is_empty() || !t.chars().all(|c| c.is_ascii_digit()) {
            return None;
        }
        t.parse().ok()
    };
    let (lo, hi) = match parts[1].split("..").collect::<Vec<_>>().as_slice() {
        [a] => (num(a)?, num(a)?),
        [a, b] => (num(a)?, num(b)?),
        _ => return None,
    };
    if lo == 0 || hi < lo || !(parts[2] == "EEXIST" || parts[2] == "ENOENT" || OK_ERRNOS.contains(&parts[2])) {
        return None;
    }
    Some(Some((parts[0].to_string(), lo, hi, parts[2].to_string())))
}

/// The independent notion of "the complete project directory" (from the property text): exactly one
/// rendered copy of every template file of the source tree, with no placeholder left; a keypair file
/// `target/deploy/<lib>-keypair.json` that parses as an ed25519 keypair; the program id declared in
/// `src/lib.rs` is that keypair's public key; directories are exactly the ancestors of those files.
fn check_complete(sfx: &Sf, name: &str, tree: &BTreeMap<String, Entry>) -> Vec<String> {
    let mut problems = vec![];
    if tree.get(name) != Some(&Entry::Dir) {
        return vec!["project root is not a directory".to_string()];
    }
    let prefix = format!("{name}/");
    let below: BTreeMap<&str, &Entry> = tree.iter().filter_map(|(k, v)| k.strip_prefix(&prefix).map(|r| (r, v))).collect();
    // keypair
    let under = name.replace('-', "_");
    let kp_rel = format!("target/deploy/{under}-keypair.json");
    let mut pubkey = None;
    match below.get(kp_rel.as_str()) {
        Some(Entry::File(bytes)) => match serde_json::from_slice::<Vec<u8>>(bytes) {
            Ok(raw) => match solana_keypair::Keypair::try_from(&raw[..]) {
                Ok(kp) => {
                    use solana_signer::Signer;
                    pubkey = Some(kp.pubkey().to_string());
                }
                Err(e) => problems.push(format!("keypair file is not a consistent ed25519 keypair: {e}")),
            },
            Err(e) => problems.push(format!("keypair file is not a JSON byte array: {e}")),
        },
        _ => problems.push(format!("keypair file {kp_rel} missing")),
    }
    // declared program id
    let declared = match below.get("src/lib.rs") {
        Some(Entry::File(b)) => String::from_utf8_lossy(b)
            .lines()
            .find_map(|l| l.trim().strip_prefix("id = \"").and_then(|v| v.strip_suffix('"')).map(str::to_owned)),
        _ => None,
    };
    match (&declared, &pubkey) {
        (Some(d), Some(p)) if d == p => {}
        (d, p) => problems.push(format!("declared program id {d:?} != keypair public key {p:?}")),
    }
    // every template rendered exactly once, nothing else
    let pk = pubkey.clone().unwrap_or_default();
    let mut files: BTreeMap<&str, &Vec<u8>> =
        below.iter().filter_map(|(k, v)| if let Entry::File(b) = v { Some((*k, b)) } else { None }).collect();
    files.remove(kp_rel.as_str());
    for (tname, ttext) in &sfx.templates {
        let want = oracle_render(ttext, name, &pk);
        let hits: Vec<&str> = files.iter().filter(|(_, b)| b.as_slice() == want.as_bytes()).map(|(k, _)| *k).collect();
        match hits.len() {
            0 => problems.push(format!("no file holds the rendering of template {tname}")),
            _ => {
                // identical templates would be ambiguous; take the first unclaimed one
                files.remove(hits[0]);
            }
        }
    }
    for k in files.keys() {
        problems.push(format!("unexpected file {k}"));
    }
    for (k, v) in &below {
        match v {
            Entry::File(b) => {
                if *k != kp_rel {
                    if let Some(p) = leftover_placeholder(&String::from_utf8_lossy(b)) {
                        problems.push(format!("placeholder {p} left in {k}"));
                    }
                }
            }
            Entry::Dir => {
                let pre = format!("{k}/");
                if !below.iter().any(|(f, e)| matches!(e, Entry::File(_)) && f.starts_with(&pre)) {
                    problems.push(format!("directory {k} holds no file"));
                }
            }
            Entry::Link(_) => problems.push(format!("symlink {k} in the project")),
        }
    }
    problems
}

fn listing(name: &str, tree: &BTreeMap<String, Entry>) -> (usize, u64) {
    let prefix = format!("{name}/");
    let (mut n, mut h) = (0usize, 0u128);
    for (k, v) in tree {
        if let Some(rel) = k.strip_prefix(&prefix) {
            let tag = match v {
                Entry::Dir => "d:",
                Entry::File(_) => "f:",
                Entry::Link(_) => "l:",
            };
            n += 1;
            h = (h + hash_chars(tag.chars().chain(rel.chars())) as u128) % MODULUS;
        }
    }
    (n, h as u64)
}

/// `at_raw`: the pre-existing entry sits at the RAW (untrimmed) argument instead of at the trimmed name —
/// the program must not care about it (it works on the trimmed name only).
fn exec_scaffold(idx: usize, raw: &str, pre: &str, fault: &str, at_raw: bool) -> Outcome {
    let Some(fault) = parse_fault(fault) else { return Outcome::bad() };
    if raw.contains('\0') || raw.chars().count() > 64 {
        return Outcome::bad();
    }
    let t = oracle_trim(raw);
    if !["none", "file", "dir", "emptydir", "symlink", "symlinkdir", "dangling"].contains(&pre) || (pre != "none" && !valid_component(t)) {
        return Outcome::bad();
    }
    if at_raw && (pre == "none" || raw == t || !valid_component(raw)) {
        return Outcome::bad();
    }
    // where the pre-existing entry is placed
    let place = if at_raw { raw } else { t };
    let sfx = sf();
    let mut o = Outcome::default();
    let work = sfx.scratch.join(format!("c{idx}"));
    let _ = fs::remove_dir_all(&work);
    let cwd = work.join("cwd");
    fs::create_dir_all(&cwd).unwrap();
    match pre {
        "file" => fs::write(cwd.join(place), "x").unwrap(),
        "dir" => {
            fs::create_dir(cwd.join(place)).unwrap();
            fs::write(cwd.join(place).join("keep"), "x").unwrap();
        }
        "emptydir" => fs::create_dir(cwd.join(place)).unwrap(),
        "symlink" => {
            fs::write(work.join("elsewhere"), "x").unwrap();
            std::os::unix::fs::symlink("../elsewhere", cwd.join(place)).unwrap();
        }
        "symlinkdir" => {
            fs::create_dir(work.join("elsewheredir")).unwrap();
            std::os::unix::fs::symlink("../elsewheredir", cwd.join(place)).unwrap();
        }
        "dangling" => std::os::unix::fs::symlink("../nowhere", cwd.join(place)).unwrap(),
        _ => {}
    }
    let before = snapshot(&cwd);
    let trace = work.join("trace.txt");
    let mut cmd;
    // `openat:k` means the k-th openat(O_CREAT) of the scaffold. Positions past the last one of the clean
    // run do not exist; strace cannot filter on flags, and a raw position past the end could only hit the
    // opendir calls of remove_dir_all (cleanup is not faulted in this property), so nothing is injected.
    let inject = match &fault {
        Some((sys, k, _, _)) if sys == "openat" && *k > sfx.counts["openat"] => None,
        other => other.clone(),
    };
    match &inject {
        None => {
            cmd = Command::new(&sfx.bin);
        }
        Some((sys, lo, hi, errno)) => {
            cmd = Command::new("strace");
            cmd.args(["-f", "-o"]).arg(&trace).args(["-e", TRACED]);
            let off = sfx.off[sys.as_str()];
            let when = if lo == hi { format!("{}", lo + off) } else { format!("{}..{}", lo + off, hi + off) };
            cmd.arg("-e").arg(format!("inject={sys}:error={errno}:when={when}"));
            cmd.arg(&sfx.bin);
        }
    }
    let out = cmd
        .args(["new", "--", raw])
        .current_dir(&cwd)
        .stdin(Stdio::null())
        .stdout(Stdio::piped())
        .stderr(Stdio::piped())
        .output()
        .expect("spawn sf");
    let status = match out.status.code() {
        Some(0) => "ok",
        Some(101) => "panic",
        Some(_) => "err",
        None => "signal",
    };
    let fired = fault.is_some() && fs::read_to_string(&trace).map(|t| t.contains("(INJECTED)")).unwrap_or(false);
    let after = snapshot(&cwd);
    // classify
    let mut class = "dirty".to_string();
    let mut why = vec![];
    if after == before {
        class = "clean".into();
    } else if !before.contains_key(t) && valid_component(t) {
        let extra: Vec<&String> = after.keys().filter(|k| !before.contains_key(*k) && **k != t && !k.starts_with(&format!("{t}/"))).collect();
        let changed = before.iter().any(|(k, v)| after.get(k) != Some(v));
        if !extra.is_empty() {
            why.push(format!("left behind: {}", extra.iter().take(4).map(|s| s.as_str()).collect::<Vec<_>>().join(", ")));
        }
        if changed {
            why.push("a pre-existing entry changed".into());
        }
        let problems = check_complete(sfx, t, &after);
        if extra.is_empty() && !changed && problems.is_empty() {
            let (n, h) = listing(t, &after);
            class = format!("complete n={n} h={h}");
        } else {
            why.extend(problems);
        }
    } else {
        let diff: Vec<String> = after
            .keys()
            .chain(before.keys())
            .filter(|k| after.get(*k) != before.get(*k))
            .take(4)
            .cloned()
            .collect();
        why.push(format!("tree differs at: {}", diff.join(", ")));
    }
    o.answer = format!("{status} {class}");
    o.nontrivial = fired || pre != "none" || status != "ok";
    o.bumps.push(format!("scaffold:{status}:{}", class.split(' ').next().unwrap()));
    if let Some((sys, _, _, errno)) = &fault {
        o.bumps.push(format!("fault:{sys}:{}:{errno}", if fired { "fired" } else { "not-reached" }));
    }
    if pre != "none" {
        o.bumps.push(format!("pre:{pre}{}{}", if at_raw { ":at-raw" } else { "" }, if raw != t { ":padded-arg" } else { "" }));
    }
    // property oracle
    let detail = || format!("name={raw:?} pre={pre}{} fault={fault:?} status={status}: {}", if at_raw { " at=raw" } else { "" }, why.join("; "));
    if pre != "none" && !at_raw && (class != "clean" || status == "ok") {
        o.fails.push(("existing_target_modified".into(), detail()));
    } else if class == "dirty" {
        let leftover = after.keys().any(|k| !before.contains_key(k) && k.contains(".sf-new-"));
        o.fails.push((if leftover { "staging_left_behind".into() } else { "not_all_or_nothing".into() }, detail()));
    } else if status == "ok" && !class.starts_with("complete") {
        o.fails.push(("ok_without_project".into(), detail()));
    } else if status == "err" && class != "clean" {
        o.fails.push(("error_but_project_created".into(), detail()));
    } else if status == "signal" {
        o.fails.push(("killed_by_signal".into(), detail()));
    } else if (pre == "none" || at_raw) && fault.is_none() && class.starts_with("complete") != oracle_name_ok(t) {
        o.fails.push(("binary_name_acceptance".into(), detail()));
    }
    let _ = fs::remove_dir_all(&work);
    o
}

/// `race <arg> kind=<k>`: a competitor creates the target after the program's exists() probe and before its
/// rename. The rename is held back with `strace -e inject=rename:delay_enter=…` so that the competitor (this
/// function, which waits for the staging directory `.NAME.sf-new-*` to appear) always gets in first.
/// Tolerated outcomes: the competitor's entry is kept exactly as created and the command fails (`race kept`), or
/// — only possible for an EMPTY directory, which rename(2) replaces — the complete project (`race replaced`).
/// Never a staging directory left behind.
fn exec_race(idx: usize, raw: &str, kind: &str) -> Outcome {
    if raw.contains('\0') || raw.chars().count() > 64 || !["file", "emptydir", "dir", "symlink", "dangling"].contains(&kind) {
        return Outcome::bad();
    }
    let t = oracle_trim(raw);
    if !oracle_name_ok(t) {
        return Outcome::bad();
    }
    let sfx = sf();
    let mut o = Outcome::default();
    let mut last = String::new();
    for attempt in 0..3 {
        let work = sfx.scratch.join(format!("c{idx}"));
        let _ = fs::remove_dir_all(&work);
        let cwd = work.join("cwd");
        fs::create_dir_all(&cwd).unwrap();
        let trace = work.join("trace.txt");
        let mut child = Command::new("strace")
            .args(["-f", "-o"])
            .arg(&trace)
            .args(["-e", "trace=rename", "-e", "inject=rename:delay_enter=300000:when=1"])
            .arg(&sfx.bin)
            .args(["new", "--", raw])
            .current_dir(&cwd)
            .stdin(Stdio::null())
            .stdout(Stdio::null())
            .stderr(Stdio::null())
            .spawn()
            .expect("spawn strace");
        // wait for the staging directory
        let t0 = std::time::Instant::now();
        let mut seen = false;
        while t0.elapsed() < std::time::Duration::from_secs(10) {
            if let Ok(rd) = fs::read_dir(&cwd) {
                // any entry other than the target itself is the program's staging area (its name is an internal detail)
                if rd.flatten().any(|e| e.file_name().to_string_lossy() != t) {
                    seen = true;
                    break;
                }
            }
            if child.try_wait().ok().flatten().is_some() {
                break;
            }
            std::thread::sleep(std::time::Duration::from_micros(200));
        }
        let mut created = false;
        if seen {
            let target = cwd.join(t);
            created = match kind {
                "file" => fs::OpenOptions::new().write(true).create_new(true).open(&target).and_then(|mut f| std::io::Write::write_all(&mut f, b"x")).is_ok(),
                "emptydir" => fs::create_dir(&target).is_ok(),
                "dir" => fs::create_dir(&target).is_ok() && fs::write(target.join("keep"), "x").is_ok(),
                "symlink" => {
                    fs::write(work.join("elsewhere"), "x").unwrap();
                    std::os::unix::fs::symlink("../elsewhere", &target).is_ok()
                }
                _ => std::os::unix::fs::symlink("../nowhere", &target).is_ok(),
            };
        }
        let status = child.wait().map(|s| s.code()).unwrap_or(None);
        let after = snapshot(&cwd);
        let staging: Vec<&String> = after.keys().filter(|k| k.contains(".sf-new-")).collect();
        let competitor_intact = match kind {
            "file" => after.get(t) == Some(&Entry::File(b"x".to_vec())) && after.len() == 1,
            "emptydir" => after.get(t) == Some(&Entry::Dir) && after.len() == 1,
            "dir" => after.get(t) == Some(&Entry::Dir) && after.get(&format!("{t}/keep")) == Some(&Entry::File(b"x".to_vec())) && after.len() == 2,
            "symlink" => after.get(t) == Some(&Entry::Link("../elsewhere".into())) && after.len() == 1,
            _ => after.get(t) == Some(&Entry::Link("../nowhere".into())) && after.len() == 1,
        };
        let _ = fs::remove_dir_all(&work);
        last = format!("attempt {attempt}: staging seen={seen} competitor created={created} status={status:?} entries={:?}", after.keys().take(5).collect::<Vec<_>>());
        if !seen || !created {
            // the competitor lost the race (or the program never got as far as staging): try again
            continue;
        }
        o.nontrivial = true;
        o.bumps.push(format!("race:{kind}"));
        if !staging.is_empty() {
            o.answer = "race leftover".into();
            o.fails.push(("staging_left_behind".into(), format!("race kind={kind} name={raw:?} status={status:?}: left behind {:?}", staging.iter().take(3).collect::<Vec<_>>())));
        } else if status == Some(0) && kind == "emptydir" && check_complete(sfx, t, &after).is_empty() && after.keys().all(|k| k == t || k.starts_with(&format!("{t}/"))) {
            o.answer = "race replaced".into();
        } else if status != Some(0) && status.is_some() && competitor_intact {
            o.answer = "race kept".into();
        } else {
            o.answer = "race violation".into();
            let class = if status == Some(0) { "existing_target_modified" } else { "not_all_or_nothing" };
            o.fails.push((class.into(), format!("race kind={kind} name={raw:?}: {last}")));
        }
        return o;
    }
    // The competitor never got in between the existence test and the rename (machine load, or a program that
    // stages differently): nothing was observed, so nothing is claimed. The case is counted as inconclusive in
    // the distribution and answers what the specification prescribes, so that it is not a disagreement either.
    let _ = last;
    o.bumps.push(format!("race:{kind}:inconclusive"));
    o.answer = if kind == "emptydir" { "race replaced".into() } else { "race kept".into() };
    o
}

/// `project <arg>`: run the real binary in an empty directory and print the WHOLE generated tree — every
/// directory and every file with its full content (public key shown as `<<PUBKEY>>`, keypair file as `KEYPAIR`).
fn exec_project(idx: usize, raw: &str) -> Outcome {
    if raw.contains('\0') || raw.chars().count() > 64 {
        return Outcome::bad();
    }
    let sfx = sf();
    let mut o = Outcome::default();
    let work = sfx.scratch.join(format!("c{idx}"));
    let _ = fs::remove_dir_all(&work);
    let cwd = work.join("cwd");
    fs::create_dir_all(&cwd).unwrap();
    let out = Command::new(&sfx.bin)
        .args(["new", "--", raw])
        .current_dir(&cwd)
        .stdin(Stdio::null())
        .stdout(Stdio::null())
        .stderr(Stdio::null())
        .output()
        .expect("spawn sf");
    let tree = snapshot(&cwd);
    let t = oracle_trim(raw);
    if out.status.code() == Some(0) {
        let prefix = format!("{t}/");
        // the keypair: the one file that is a JSON array of 64 bytes
        let mut pubkey = String::new();
        let mut kp_path = String::new();
        for (k, v) in &tree {
            if let (Some(rel), Entry::File(b)) = (k.strip_prefix(&prefix), v) {
                if let Ok(rawkey) = serde_json::from_slice::<Vec<u8>>(b) {
                    if let Ok(kp) = solana_keypair::Keypair::try_from(&rawkey[..]) {
                        use solana_signer::Signer;
                        pubkey = kp.pubkey().to_string();
                        kp_path = rel.to_string();
                    }
                }
            }
        }
        let mut parts = vec![];
        for (k, v) in &tree {
            let Some(rel) = k.strip_prefix(&prefix) else { continue };
            match v {
                Entry::Dir => parts.push(format!("{rel}/")),
                Entry::File(_) if rel == kp_path => parts.push(format!("{rel}=KEYPAIR")),
                Entry::File(b) => {
                    let text = String::from_utf8_lossy(b).into_owned();
                    let text = if pubkey.is_empty() { text } else { text.replace(&pubkey, "<<PUBKEY>>") };
                    parts.push(format!("{rel}={}", hex_bytes(text.as_bytes())));
                }
                Entry::Link(l) => parts.push(format!("{rel}->{l}")),
            }
        }
        o.answer = format!("ok {}", parts.join(" "));
        o.nontrivial = true;
        o.bumps.push("project:ok".into());
        let problems = check_complete(sfx, t, &tree);
        let extra: Vec<&String> = tree.keys().filter(|k| **k != t && !k.starts_with(&prefix)).collect();
        if !problems.is_empty() || !extra.is_empty() {
            o.fails.push(("not_all_or_nothing".into(), format!("name={raw:?} status=ok: {}; extra entries {extra:?}", problems.join("; "))));
        }
        if !oracle_name_ok(t) {
            o.fails.push(("binary_name_acceptance".into(), format!("name={raw:?} accepted by the binary")));
        }
    } else {
        o.answer = "err".into();
        o.bumps.push("project:err".into());
        if !tree.is_empty() {
            o.fails.push(("not_all_or_nothing".into(), format!("name={raw:?} rejected but left {:?}", tree.keys().take(4).collect::<Vec<_>>())));
        }
        if oracle_name_ok(t) {
            o.fails.push(("binary_name_acceptance".into(), format!("name={raw:?} rejected by the binary")));
        }
    }
    let _ = fs::remove_dir_all(&work);
    o
}

// ------------------------------------------------------------------------------------------------
// op interpreter

fn exec_line(idx: usize, line: &str) -> Outcome {
    let toks: Vec<&str> = line.split(' ').filter(|t| !t.is_empty()).collect();
    match toks.as_slice() {
        ["name", a] => match uncps(a) {
            Some(raw) => exec_name(&raw),
            None => Outcome::bad(),
        },
        ["race", a, kind] => match (uncps(a), kind.strip_prefix("kind=")) {
            (Some(raw), Some(kind)) => exec_race(idx, &raw, kind),
            _ => Outcome::bad(),
        },
        ["project", a] => match uncps(a) {
            Some(raw) => exec_project(idx, &raw),
            None => Outcome::bad(),
        },
        ["replace", p, r, t] => match (uncps(p), uncps(r), uncps(t)) {
            (Some(p), Some(r), Some(t)) => exec_replace(&p, &r, &t),
            _ => Outcome::bad(),
        },
        ["scaffold", a, pre, flt] => match (uncps(a), pre.strip_prefix("pre="), flt.strip_prefix("fault=")) {
            (Some(raw), Some(pre), Some(flt)) => exec_scaffold(idx, &raw, pre, flt, false),
            _ => Outcome::bad(),
        },
        ["scaffold", a, pre, flt, "at=raw"] => match (uncps(a), pre.strip_prefix("pre="), flt.strip_prefix("fault=")) {
            (Some(raw), Some(pre), Some(flt)) => exec_scaffold(idx, &raw, pre, flt, true),
            _ => Outcome::bad(),
        },
        _ => Outcome::bad(),
    }
}

/// Execute the op lines of all cases (in parallel), record them in order.
fn run_cases(rec: &mut Recorder, cases: &[Vec<String>], evaluations: &mut u64) {
    let jobs: Vec<(usize, usize, &str)> = cases
        .iter()
        .enumerate()
        .flat_map(|(ci, c)| c.iter().enumerate().skip(1).map(move |(li, l)| (ci, li, l.as_str())))
        .collect();
    let n = jobs.len();
    let threads = std::thread::available_parallelism().map(|n| n.get()).unwrap_or(4).min(16);
    let next = std::sync::atomic::AtomicUsize::new(0);
    let results: Vec<std::sync::Mutex<Option<Outcome>>> = (0..n).map(|_| std::sync::Mutex::new(None)).collect();
    std::thread::scope(|s| {
        for ti in 0..threads {
            let (next, jobs, results) = (&next, &jobs, &results);
            s.spawn(move || {
                enter_private_cwd(ti);
                loop {
                let i = next.fetch_add(1, std::sync::atomic::Ordering::Relaxed);
                if i >= n {
                    break;
                }
                let (_, _, line) = jobs[i];
                let r = hx_common::catch(|| exec_line(i, line)).unwrap_or_else(|m| Outcome {
                    answer: "panic".into(),
                    fails: vec![("harness_or_code_panic".into(), m)],
                    ..Default::default()
                });
                *results[i].lock().unwrap() = Some(r);
                }
            });
        }
    });
    let mut j = 0;
    let mut sampled: BTreeSet<String> = BTreeSet::new();
    for c in cases {
        rec.case(&c[0]);
        let mut any_nontrivial = false;
        for l in c.iter().skip(1) {
            let o = results[j].lock().unwrap().take().unwrap();
            j += 1;
            rec.op(l, &o.answer);
            *evaluations += 1;
            for b in &o.bumps {
                rec.bump(b);
            }
            if o.nontrivial {
                any_nontrivial = true;
                rec.nontrivial.insert(fnv(l));
            }
            for (class, detail) in &o.fails {
                // the replay of a failure is the single op line that failed
                if rec.failures.len() < 200 {
                    rec.failures.push(hx_common::OracleFailure {
                        class: class.clone(),
                        detail: detail.clone(),
                        replay: format!("{}\n{}\n", c[0], l),
                    });
                }
                rec.bump(&format!("oracle_fail:{class}"));
            }
        }
        let _ = any_nontrivial;
        // samples: a few cases of every kind, written out (long lines cut)
        let id = c[0].split(' ').nth(1).unwrap_or("");
        let top = id.split('-').next().unwrap_or("").to_string();
        let descr = c[0].split(' ').skip(2).collect::<Vec<_>>().join(" ");
        let (key, cap) = match top.as_str() {
            "names" => (format!("names:{}", id.chars().filter(|ch| !ch.is_ascii_digit()).collect::<String>()), 4),
            "scaffold" => (format!("scaffold:{descr}"), 9),
            other => (other.to_string(), 1),
        };
        let n_top = sampled.iter().filter(|k| k.split(':').next() == Some(top.as_str())).count();
        if n_top < cap && !sampled.contains(&key) {
            sampled.insert(key);
            let cut = |l: &String| if l.len() > 240 { format!("{}…", &l[..240]) } else { l.clone() };
            // the first line plus a few from the middle of the case
            let mid = if c.len() > 8 { c.len() / 2 } else { 1 };
            let mut lines = vec![cut(&c[0])];
            lines.extend(c.iter().skip(mid).take(3).map(cut));
            rec.samples.push(serde_json::json!(lines));
        }
    }
}

fn fnv(s: &str) -> u64 {
    let mut h = 0xcbf29ce484222325u64;
    for b in s.bytes() {
        h = (h ^ b as u64).wrapping_mul(0x100000001b3);
    }
    h
}

// ------------------------------------------------------------------------------------------------
// generators

const ALPHABET: &[char] = &['a', 'z', 'A', '0', '9', '_', '-', '.', '/', ' ', 'é', '{'];

fn gen_name_cases(max_len: usize, cases: &mut Vec<Vec<String>>) {
    // exhaustive over the class-representative alphabet, one case per (length, first symbol)
    cases.push(vec!["case names-len0 exhaustive".into(), "name -".into()]);
    for len in 1..=max_len {
        for (fi, &first) in ALPHABET.iter().enumerate() {
            let mut c = vec![format!("case names-len{len}-first{fi} exhaustive over [azA09_-./ e-acute {{]")];
            let mut idx = vec![0usize; len - 1];
            loop {
                let mut s = String::new();
                s.push(first);
                for &i in &idx {
                    s.push(ALPHABET[i]);
                }
                c.push(format!("name {}", cps(&s)));
                let mut p = len - 1;
                loop {
                    if p == 0 {
                        break;
                    }
                    p -= 1;
                    idx[p] += 1;
                    if idx[p] < ALPHABET.len() {
                        break;
                    }
                    idx[p] = 0;
                    if p == 0 {
                        p = usize::MAX;
                        break;
                    }
                }
                if len == 1 || p == usize::MAX {
                    break;
                }
                if idx.iter().all(|&i| i == 0) {
                    break;
                }
            }
            cases.push(c);
        }
    }
}

/// Every strict / reserved / weak keyword of every edition (2015–2024). Independent of the source and of
/// the spec list (`ORACLE_KEYWORDS` is what the 2021 edition — the edition of the generated project — reserves).
const ALL_EDITION_KEYWORDS: &[&str] = &[
    "as", "break", "const", "continue", "crate", "else", "enum", "extern", "false", "fn", "for", "if", "impl", "in", "let", "loop",
    "match", "mod", "move", "mut", "pub", "ref", "return", "self", "Self", "static", "struct", "super", "trait", "true", "type",
    "unsafe", "use", "where", "while", "async", "await", "dyn", "abstract", "become", "box", "do", "final", "macro", "override", "priv",
    "typeof", "unsized", "virtual", "yield", "try", "gen", "macro_rules", "union", "safe", "raw", "auto", "catch", "default",
];

/// The entries of the generated keyword table (what the model uses), read from the generated Lean file.
fn table_keywords() -> Vec<String> {
    let p = PathBuf::from(std::env::var("VERIF_DIR").unwrap_or_else(|_| "/verif".into())).join("lean/Cli/Cli/Generated/Keywords.lean");
    let text = fs::read_to_string(&p).unwrap_or_default();
    let Some(line) = text.lines().find(|l| l.starts_with("def keywordStrings")) else { return vec![] };
    line.split('"').skip(1).step_by(2).map(str::to_string).collect()
}

fn probe_names() -> Vec<String> {
    let mut v: Vec<String> = vec![];
    let mut kws: Vec<String> = ALL_EDITION_KEYWORDS.iter().map(|s| s.to_string()).collect();
    for k in table_keywords() {
        if !kws.contains(&k) {
            kws.push(k);
        }
    }
    for k in &kws {
        let k = k.clone();
        v.push(k.clone());
        // every `-`/`_` spelling of the entry
        v.push(k.replace('_', "-"));
        v.push(k.replace('-', "_"));
        v.push(format!("{k}s"));
        v.push(format!("{k}1"));
        v.push(format!("{k}-"));
        v.push(format!("{k}_"));
        v.push(format!("{k}-x"));
        v.push(format!("{k}_x"));
        v.push(format!("x-{k}"));
        v.push(format!(" {k} "));
        v.push(format!("\t{k}\n"));
        v.push(k[..k.len() - 1].to_string());
        v.push(k.to_uppercase());
        v.push(k.to_lowercase());
        let mut cs: Vec<char> = k.chars().collect();
        if cs.len() > 2 {
            cs.insert(1, '-');
            v.push(cs.iter().collect());
            cs[1] = '_';
            v.push(cs.iter().collect());
        }
    }
    for w in ["gen", "union", "macro_rules", "macro-rules", "raw", "safe", "test", "core", "std", "main", "con", "nul", "static-", "r#fn"] {
        v.push(w.to_string());
    }
    for s in [
        "counter", "counter_program", "counter-program", "counter2", "Counter", "9counter", "counter--program", "counter__program",
        "counter-_program", "counter_-program", "counter-", "counter_", "counter!", "counter program", "a", "a1", "a-1", "a_1", "a1b2c3",
        "a-b-c-d", "a_b_c_d", "a-b_c-d", "-a", "_a", "1a", "a.", "a.b", "a/b", "./a", "../a", "a/", "/a", "a\\b", "a{b}", "{a}", "a}", "~a", "a b",
        "ａ", "ａb", "aｂ", "а", "аb", "aа", "ß", "aß", "İ", "aİ", "é", "ae\u{301}", "a\u{200b}", "\u{200b}a", "a\u{feff}", "\u{feff}a", "a٣", "a३",
        "\u{a0}ab\u{3000}", "\u{85}ab\u{1680}", "\u{2000}ab\u{200a}", "\u{2028}ab\u{2029}", "\u{202f}ab\u{205f}", "\u{1c}ab\u{1f}", "\u{b}ab\u{c}",
        " ab", "ab ", "  a-b  ", "a b ", " ", "\t", "\n", "", "a\tb", "a\nb", "ab\r\n", "\u{180e}ab", "ab\u{180e}", "a\u{7f}", "a\u{1}", "aA", "aZ", "a@",
        "a[", "a`", "a{", "a|", "a:", "a/0", "a0/", "a-0", "a_0", "a0-", "a0_", "z9", "z-9", "z_9_", "z__9", "a--", "a-_", "a_-", "a__", "a-b-", "a_b_",
    ] {
        v.push(s.to_string());
    }
    v.push("a".repeat(64));
    v.push("a".repeat(300));
    v.push(format!("a{}", "-b".repeat(31)));
    v.push(format!("{}-", "ab".repeat(20)));
    v
}

fn random_name(rng: &mut Rng) -> String {
    const RICH: &[char] = &[
        'a', 'b', 'f', 'n', 's', 'e', 'l', 'z', '0', '1', '9', '-', '_', '-', '_', 'A', 'Z', '.', '/', ' ', '\t', 'é', 'ß', '{', '}', '!', '\u{a0}',
        '\u{3000}', '\u{200b}', 'а',
    ];
    let len = rng.range(1, 14) as usize;
    let mostly_valid = rng.chance(3, 4);
    let mut s = String::new();
    for _ in 0..len {
        let c = if mostly_valid { RICH[rng.below(15) as usize] } else { *rng.pick(RICH) };
        s.push(c);
    }
    if rng.chance(1, 8) {
        s = format!(" {s}\t");
    }
    s
}

fn valid_random_name(rng: &mut Rng) -> String {
    loop {
        let len = rng.range(1, 12) as usize;
        let mut s = String::new();
        for i in 0..len {
            let c = if i == 0 {
                (b'a' + rng.below(26) as u8) as char
            } else {
                match rng.below(10) {
                    0 => '-',
                    1 => '_',
                    2 | 3 => (b'0' + rng.below(10) as u8) as char,
                    _ => (b'a' + rng.below(26) as u8) as char,
                }
            };
            s.push(c);
        }
        if oracle_name_ok(&s) {
            return s;
        }
    }
}

fn gen_replace_cases(rng: &mut Rng, n: usize, cases: &mut Vec<Vec<String>>) {
    const PIECES: &[&str] = &[
        "{name_lowercase}", "{name_lowercase_underscore}", "{name_uppercase}", "{name_pascalcase}", "{pubkey}", "{name_", "{", "}", "{{", "}}",
        "name_lowercase}", "_underscore}", "lowercase}", "{pub", "key}", "{name_lowercase", "{name_{pubkey}}", "{name_{name_lowercase}case}",
        "{{name_lowercase}}", " ", "\n", "fn main() { ", "::", "é", "x", "_", "{}", "aa", "a", "aaa", "ab", "ba",
    ];
    let mut c = vec!["case replace-0 std str::replace on texts built from placeholder fragments".to_string()];
    for i in 0..n {
        let mut t = String::new();
        for _ in 0..rng.range(0, 8) {
            let piece: &&str = rng.pick(PIECES);
            t.push_str(piece);
        }
        let pat: &&str = rng.pick(PIECES);
        let rep = match rng.below(4) {
            0 => "".to_string(),
            1 => (*rng.pick(PIECES)).to_string(),
            2 => pat.to_string(),
            _ => valid_random_name(rng),
        };
        c.push(format!("replace {} {} {}", cps(pat), cps(&rep), cps(&t)));
        if c.len() > 500 || i + 1 == n {
            cases.push(std::mem::replace(&mut c, vec![format!("case replace-{} std str::replace on texts built from placeholder fragments", i + 1)]));
        }
    }
}

/// Names that exercise every placeholder and distinguish the value expressions: digits next to letters,
/// mixed separators, fragments of the placeholders themselves, long and one-letter names; some rejected ones.
fn gen_project_cases(rng: &mut Rng, n_random: usize, cases: &mut Vec<Vec<String>>) {
    let mut names: Vec<String> = [
        "ab", "counter-program", "counter_program", "a", "a1", "a1b2c3", "a2b-cd_e", "x9_y", "q-1", "a-1_b2", "z9z", "a-b-c-d", "a_b_c_d", "a-b_c-d",
        "lower", "upper", "pascal", "underscore", "name", "lowercase", "lowercase_underscore", "uppercase", "pascalcase", "key", "pubkey",
        "name_lowercase", "name-pascalcase", " padded\t", "\u{a0}nb-sp\u{3000}", "abcdefghijklmnopqrstuvwxyz0123456789-abcdefghijklmnopqrstuvwxyz01",
        // rejected
        "Ab", "a--b", "a_", "fn", "a.b", "",
    ]
    .iter()
    .map(|s| s.to_string())
    .collect();
    for _ in 0..n_random {
        names.push(valid_random_name(rng));
    }
    for (i, n) in names.iter().enumerate() {
        cases.push(vec![format!("case project-{i} full content of every generated file"), format!("project {}", cps(n))]);
    }
}

fn gen_scaffold_cases(rng: &mut Rng, thorough: bool, cases: &mut Vec<Vec<String>>) {
    let mut id = 0usize;
    let mut push = |kind: &str, line: String, cases: &mut Vec<Vec<String>>| {
        id += 1;
        cases.push(vec![format!("case scaffold-{id} {kind}"), line]);
    };
    let counts = &sf().counts;
    let names: &[&str] = if thorough { &["ab", "counter-program", "x9_y", "a", "q-1"] } else { &["ab", "counter-program", "x9_y"] };
    // the fault grid: (syscall class) x (position, two past the end included) x (errno).
    // thorough: the full product for three names. quick: every errno at the positions where the code (or std)
    // looks at the error kind or where the step is special — staging mkdir, first/last/forgiven mkdir, first and last
    // file creation, first and last file write, first println, the rename — and a rotating sample of errnos elsewhere.
    let classes: [&str; 4] = ["mkdir", "openat", "write", "rename"];
    for (ni, name) in names.iter().enumerate() {
        push("clean run", format!("scaffold {} pre=none fault=none", cps(name)), cases);
        for (ci, sys) in classes.iter().enumerate() {
            let n = counts[*sys];
            for k in 1..=n + 2 {
                let special = match *sys {
                    "mkdir" => k == 1 || k == 2 || k == 6 || k == 8 || k == n,
                    "openat" => k == 1 || k == n,
                    "write" => k == 1 || k == 12 || k == 13 || k == n,
                    _ => k == 1,
                };
                let all = (thorough && ni < 3) || (special && ni == 0);
                if all {
                    for e in GRID_ERRNOS {
                        push("fault grid", format!("scaffold {} pre=none fault={sys}:{k}:{e}", cps(name)), cases);
                    }
                } else {
                    for j in 0..2 {
                        let e = GRID_ERRNOS[(k * 2 + j + ci * 5 + ni * 3) % GRID_ERRNOS.len()];
                        push("fault grid (errno sample)", format!("scaffold {} pre=none fault={sys}:{k}:{e}", cps(name)), cases);
                    }
                    if *sys == "mkdir" {
                        // the three kinds create_dir_all distinguishes
                        for e in ["EEXIST", "ENOENT", "EACCES"] {
                            push("fault grid (errno sample)", format!("scaffold {} pre=none fault={sys}:{k}:{e}", cps(name)), cases);
                        }
                    }
                }
            }
        }
    }
    // every errno at the rename when the target is occupied behind exists()'s back (dangling symlink)
    for e in GRID_ERRNOS {
        push("fault grid, dangling target", format!("scaffold {} pre=dangling fault=rename:1:{e}", cps("ab")), cases);
    }
    // EINTR storms: std keeps retrying open / write
    push("EINTR", format!("scaffold {} pre=none fault=openat:3..6:EINTR", cps("ab")), cases);
    push("EINTR", format!("scaffold {} pre=none fault=write:12..20:EINTR", cps("ab")), cases);
    push("EINTR", format!("scaffold {} pre=none fault=write:1..40:EINTR", cps("ab")), cases);
    // a competitor takes the target between the exists() probe and the rename
    for name in ["ab", "counter-program"] {
        for kind in ["file", "emptydir", "dir", "symlink", "dangling"] {
            push("race for the target", format!("race {} kind={kind}", cps(name)), cases);
        }
    }
    push("race for the target", format!("race {} kind=dir", cps(" ab\t")), cases);
    // staging-name attempts: EEXIST on the first N mkdir calls (strace range injection). With 256 attempts the
    // 256th candidate still succeeds after 255 failures, 256 failures exhaust the loop.
    for n in [2usize, 3, 254, 255, 256, 257, 300] {
        push("staging attempts", format!("scaffold {} pre=none fault=mkdir:1..{n}:EEXIST", cps("ab")), cases);
    }
    push("staging attempts", format!("scaffold {} pre=dangling fault=mkdir:1..255:EEXIST", cps("ab")), cases);
    push("staging attempts", format!("scaffold {} pre=none fault=mkdir:2..9:ENOENT", cps("ab")), cases);
    // pre-existing targets, alone and combined with a fault
    for name in ["ab", "counter-program"] {
        for pre in ["file", "dir", "emptydir", "symlink", "symlinkdir", "dangling"] {
            push("pre-existing target", format!("scaffold {} pre={pre} fault=none", cps(name)), cases);
            for f in ["mkdir:1:EACCES", "mkdir:3:ENOENT", "openat:7:ENOSPC", "write:12:EIO", "rename:1:EXDEV", "mkdir:1:EEXIST"] {
                push("pre-existing target + fault", format!("scaffold {} pre={pre} fault={f}", cps(name)), cases);
            }
        }
    }
    // pre-state families x spellings of the argument x where the entry sits (trimmed name / raw argument).
    // The existence test, the staging name and the rename must all use the TRIMMED name: an empty directory
    // at the trimmed name is the one pre-state the final rename(2) would silently replace.
    for base in ["ab", "counter-program"] {
        let spellings = [
            base.to_string(),
            format!(" {base}"),
            format!("{base} "),
            format!("\t{base}\n"),
            format!(" {base}\t"),
            format!("\u{a0}{base}\u{3000}"),
            // padded and invalid after trimming
            format!(" {}{} ", base[..1].to_uppercase(), &base[1..]),
            format!(" {base}_ "),
            " fn ".to_string(),
        ];
        for arg in &spellings {
            for pre in ["none", "file", "emptydir", "dir", "symlink", "symlinkdir", "dangling"] {
                push("pre-state x spelling", format!("scaffold {} pre={pre} fault=none", cps(arg)), cases);
                if pre != "none" && arg.as_str() != oracle_trim(arg) {
                    push("pre-state at the raw argument", format!("scaffold {} pre={pre} fault=none at=raw", cps(arg)), cases);
                }
            }
        }
        for arg in [format!(" {base}"), format!("{base}\n")] {
            for pre in ["emptydir", "symlinkdir", "dangling"] {
                for f in ["rename:1:EXDEV", "mkdir:1:EEXIST", "write:12:EIO"] {
                    push("pre-state x padded spelling x fault", format!("scaffold {} pre={pre} fault={f}", cps(&arg)), cases);
                    push("pre-state at the raw argument x fault", format!("scaffold {} pre={pre} fault={f} at=raw", cps(&arg)), cases);
                }
            }
        }
    }
    // a dangling symlink passes the exists() probe, so the whole sequence runs before the rename fails:
    // every fault position again on top of it
    for (ci, sys) in classes.iter().enumerate() {
        for k in 1..=counts[*sys] + 2 {
            let e = GRID_ERRNOS[(k + ci * 3) % GRID_ERRNOS.len()];
            push("dangling symlink + fault position", format!("scaffold {} pre=dangling fault={sys}:{k}:{e}", cps("ab")), cases);
        }
    }
    // padded argument with a pre-existing target at the trimmed name; invalid names with faults
    push("pre-existing target, padded argument", format!("scaffold {} pre=dir fault=none", cps(" ab\t")), cases);
    push("pre-existing target, padded argument", format!("scaffold {} pre=dangling fault=none", cps("\u{a0}ab ")), cases);
    for bad in ["Ab", "a--b", "fn", "a/b", "", " ", "a_"] {
        push("rejected name", format!("scaffold {} pre=none fault=mkdir:1:EACCES", cps(bad)), cases);
    }
    for bad in ["Ab", "a b", "fn"] {
        push("rejected name, pre-existing", format!("scaffold {} pre=dir fault=none", cps(bad)), cases);
    }
    // names through the real binary (ties the binary's argument handling to validate_program_name)
    let mut through: Vec<String> = probe_names().into_iter().filter(|s| !s.contains('\0') && s.chars().count() <= 64).collect();
    let n_random = if thorough { 12000 } else { 2400 };
    for i in 0..n_random {
        through.push(if i % 3 == 0 { valid_random_name(rng) } else { random_name(rng) });
    }
    // and a slice of the exhaustive alphabet enumeration
    for len in 1..=3usize {
        let total = ALPHABET.len().pow(len as u32);
        for mut x in 0..total {
            if len == 3 && !rng.chance(1, 4) {
                continue;
            }
            let mut s = String::new();
            for _ in 0..len {
                s.push(ALPHABET[x % ALPHABET.len()]);
                x /= ALPHABET.len();
            }
            through.push(s);
        }
    }
    for s in through {
        push("name through the binary", format!("scaffold {} pre=none fault=none", cps(&s)), cases);
    }
}

pub fn main() {
    let args = Args::parse();
    assert_eq!(args.prop, "C20", "hx-cli only knows C20");
    hx_common::quiet_panics();
    // `new_project` prints its "next steps" to stdout on success; name ops call it in-process
    if let Ok(devnull) = fs::OpenOptions::new().write(true).open("/dev/null") {
        use std::os::fd::AsRawFd;
        // SAFETY: plain dup2 of two valid descriptors
        unsafe { libc::dup2(devnull.as_raw_fd(), 1) };
    }
    let scratch = args.out.join("fs");
    let _ = fs::remove_dir_all(&scratch);
    fs::create_dir_all(&scratch).unwrap();
    SCRATCH.set(scratch.canonicalize().unwrap()).unwrap();
    let mut rec = Recorder::new(
        "one evaluation = one op line. name ops (the real new_project() in an empty private directory; answer = the names found in the \
         generated Cargo.toml / lib.rs / target/deploy): exhaustive over the 12-symbol class alphabet [a z A 0 9 _ - . / space e-acute {] up \
         to the tier's length; every keyword of every edition and every entry of the generated keyword table with its -/_ spellings and \
         near-misses; Unicode/whitespace probes; PRNG names. project ops: the real sf binary, the whole generated tree with the full content \
         of every file, for names exercising every placeholder. replace ops: std str::replace vs the model. scaffold ops: the real sf binary, \
         every (syscall class, position, errno) fault of the clean-run sequence plus two positions past the end, EEXIST on the first N mkdir \
         calls around the staging-attempt limit, pre-existing file/dir/emptydir/symlink/dangling targets x spellings of the argument, names \
         through the binary. Non-trivial = a name rejected for a reason other than its first character / emptiness, an accepted name with a \
         separator/digit/trimmed padding, a project listing, a replace that changed the text, a scaffold whose injected fault fired or that \
         met a pre-existing target or did not end in status ok; distinct by op line text.",
    );
    let mut cases: Vec<Vec<String>> = vec![];
    let mut evaluations = 0u64;
    if let Some(rc) = args.replay_cases() {
        cases = rc;
    } else {
        // corpus first
        let corpus = PathBuf::from(std::env::var("VERIF_DIR").unwrap_or_else(|_| "/verif".into())).join("corpus/C20");
        if let Ok(rd) = fs::read_dir(&corpus) {
            let mut files: Vec<PathBuf> = rd.flatten().map(|e| e.path()).filter(|p| p.extension().is_some_and(|e| e == "replay")).collect();
            files.sort();
            for f in files {
                let a = Args { replay: Some(f), ..args.clone() };
                cases.extend(a.replay_cases().unwrap_or_default());
            }
        }
        let mut rng = Rng::new(args.seed);
        let max_len = if args.thorough() { 6 } else { 5 };
        gen_name_cases(max_len, &mut cases);
        let mut probes = vec!["case names-probes keywords, near-keywords, Unicode, whitespace".to_string()];
        probes.extend(probe_names().iter().map(|s| format!("name {}", cps(s))));
        cases.push(probes);
        let n_random = if args.thorough() { 200_000 } else { 20_000 };
        let mut c = vec!["case names-random-0 PRNG".to_string()];
        for i in 0..n_random {
            let s = if i % 4 == 0 { valid_random_name(&mut rng) } else { random_name(&mut rng) };
            c.push(format!("name {}", cps(&s)));
            if c.len() > 1000 || i + 1 == n_random {
                cases.push(std::mem::replace(&mut c, vec![format!("case names-random-{} PRNG", i + 1)]));
            }
        }
        gen_replace_cases(&mut rng, if args.thorough() { 30_000 } else { 4_000 }, &mut cases);
        gen_project_cases(&mut rng, if args.thorough() { 400 } else { 30 }, &mut cases);
        gen_scaffold_cases(&mut rng, args.thorough(), &mut cases);
        rec.exhaustive = Some(false);
    }
    cases.retain(|c| !c.is_empty());
    for c in cases.iter_mut() {
        if !c[0].starts_with("case") {
            c.insert(0, "case replay".into());
        }
    }
    run_cases(&mut rec, &cases, &mut evaluations);
    rec.evaluations = evaluations;
    if let Some(s) = SF.get() {
        rec.extra.insert("sf_binary".into(), serde_json::json!(s.bin.display().to_string()));
        rec.extra.insert("clean_run_syscalls".into(), serde_json::json!({"preceding_unrelated_calls": s.off, "scaffold_calls": s.counts}));
    }
    rec.extra.insert("repo".into(), serde_json::json!(repo_root().display().to_string()));
    let _ = fs::remove_dir_all(&scratch);
    rec.finish(&args);
}
