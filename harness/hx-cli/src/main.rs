//! hx-cli: correspondence harness for C20 (project scaffolding of `sf new`).
//!
//! * name ops push strings through the REAL `validate_program_name` / `TemplateValues::new` /
//!   `render_template` (the file `$VERIF_REPO/star_frame_cli/src/new_project.rs` is compiled into this
//!   binary verbatim, see build.rs) and compare with an independent oracle written from the documented
//!   grammar;
//! * scaffold ops run the REAL `sf` binary (built from `$VERIF_REPO` into a target dir outside the repo)
//!   in a fresh directory, optionally under `strace -e inject=<syscall>:error=<E>:when=<k>`, and look at
//!   the exit status and the resulting directory tree.
//!
//! Op lines and answers: see `lean/Cli/Cli/Driver/C20.lean` (the model driver answers the same lines).

/// The real `star_frame_cli/src/new_project.rs`, verbatim (path from build.rs / `$VERIF_REPO`).
#[allow(dead_code, unused_imports, clippy::all)]
mod real {
    include!(env!("HX_CLI_NEW_PROJECT_RS"));

    pub mod harness;
}

fn main() {
    real::harness::main()
}
