//! Points the harness at the real `new_project.rs` of the tree under check (`$VERIF_REPO`, default /repo).
use std::{env, path::PathBuf};

fn main() {
    let repo = env::var("VERIF_REPO").unwrap_or_else(|_| "/repo".to_string());
    let repo = PathBuf::from(&repo).canonicalize().unwrap_or_else(|_| PathBuf::from(&repo));
    let src = repo.join("star_frame_cli").join("src");
    let np = src.join("new_project.rs");
    assert!(np.exists(), "{} not found (VERIF_REPO={})", np.display(), repo.display());
    println!("cargo:rustc-env=HX_CLI_NEW_PROJECT_RS={}", np.display());
    println!("cargo:rustc-env=HX_CLI_REPO={}", repo.display());
    println!("cargo:rerun-if-env-changed=VERIF_REPO");
    println!("cargo:rerun-if-changed={}", np.display());
    println!("cargo:rerun-if-changed={}", src.join("template").display());
    println!("cargo:rerun-if-changed=build.rs");
}
