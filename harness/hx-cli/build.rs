//! Points the harness at the real `new_project.rs` of the tree under check (`$VERIF_REPO`, default /repo).
use std::{env, path::PathBuf};

fn main() {
    let repo = env::var("VERIF_REPO").unwrap_or_else(|_| "/repo".to_string());
    let repo = PathBuf::from(&repo).canonicalize().unwrap_or_else(|_| PathBuf::from(&repo));
    let src = repo.join("star_frame_cli").join("src");
    let np = src.join("new_project.rs");
    assert!(np.exists(), "{} not found (VERIF_REPO={})", np.display(), repo.display());
    // a real file module (not `include!`): inner doc comments / attributes at the top of the file stay legal
    let out = PathBuf::from(env::var("OUT_DIR").unwrap());
    std::fs::write(
        out.join("real_mod.rs"),
        format!("#[allow(dead_code, unused_imports, clippy::all)]\n#[path = {:?}]\nmod real;\n", np.display().to_string()),
    )
    .unwrap();
    println!("cargo:rustc-env=HX_CLI_REPO={}", repo.display());
    println!("cargo:rerun-if-env-changed=VERIF_REPO");
    println!("cargo:rerun-if-changed={}", np.display());
    println!("cargo:rerun-if-changed={}", src.join("template").display());
    println!("cargo:rerun-if-changed=build.rs");
}
