#![allow(clippy::all, unused)]
include!(concat!(env!("OUT_DIR"), "/bench_lib.rs"));
