use std::{env, fs, path::PathBuf};
fn main() {
    let repo = env::var("VERIF_REPO").unwrap_or_else(|_| "/repo".into());
    let src = PathBuf::from(&repo).join("example_programs/bench/src/lib.rs");
    println!("cargo:rerun-if-env-changed=VERIF_REPO");
    println!("cargo:rerun-if-changed={}", src.display());
    let text = fs::read_to_string(&src).expect("read bench lib.rs");
    let out = PathBuf::from(env::var("OUT_DIR").unwrap()).join("bench_lib.rs");
    fs::write(out, text).unwrap();
}
