#!/usr/bin/env python3
"""One-off generator for src/shipped_gen.rs: `Dummy` impls for the `…ClientAccounts` structs of the
shipped programs and the per-program instruction lists. Run from /verif: python3 harness/hx-idl/tools/gen_shipped.py
The OUTPUT is committed source; a change of the shipped programs shows up as a build error or as the
`count` op failing (IDL instruction count != harness table)."""
import re, sys, os
REPO = os.environ.get("VERIF_REPO", "/repo")
FILES = [
    # (file, rust module path, program type, instruction-set enum path or None)
    ("star_frame/src/program/system.rs", "star_frame::program::system", "star_frame::program::system::System"),
    ("star_frame_spl/src/token/instructions.rs", "star_frame_spl::token::instructions", "star_frame_spl::token::Token"),
    ("star_frame_spl/src/associated_token.rs", "star_frame_spl::associated_token::instructions", "star_frame_spl::associated_token::AssociatedToken"),
    ("example_programs/counter/src/lib.rs", "counter", "counter::CounterProgram"),
    ("example_programs/simple_counter/src/lib.rs", "simple_counter", "simple_counter::CounterProgram"),
    ("example_programs/account_test/src/lib.rs", "account_test", "account_test::AccountTest"),
    ("example_programs/marketplace/src/instructions/mod.rs", "marketplace::instructions", "marketplace::Marketplace"),
    ("example_programs/marketplace/src/instructions/initialize.rs", "marketplace::instructions", "marketplace::Marketplace"),
    ("example_programs/marketplace/src/instructions/place_order.rs", "marketplace::instructions", "marketplace::Marketplace"),
    ("example_programs/marketplace/src/instructions/cancel_orders.rs", "marketplace::instructions", "marketplace::Marketplace"),
    ("example_programs/marketplace/src/lib.rs", "marketplace", "marketplace::Marketplace"),
    ("example_programs/bench/src/lib.rs", "bench", "bench::Bench"),
]
def strip_comments(s):
    s = re.sub(r"//[^\n]*", "", s)
    return s
def find_structs(text):
    """yield (name, generics, [fields] or None for tuple, is_single)"""
    out = []
    for m in re.finditer(r"#\[derive\(([^\]]*?)\)\]", text, re.S):
        if "AccountSet" not in m.group(1):
            continue
        rest = text[m.end():]
        m2 = re.search(r"pub struct (\w+)\s*(<[^>{(]*>)?\s*(\{|\(|;)", rest)
        if not m2:
            continue
        # the struct must follow directly (only attributes between)
        between = rest[:m2.start()]
        if re.search(r"\b(pub struct|pub enum|fn |impl )", between):
            continue
        name, gen, opener = m2.group(1), m2.group(2), m2.group(3)
        body_start = m2.end()
        depth, i = 1, body_start
        close = {"{": "}", "(": ")"}.get(opener)
        if opener == ";":
            out.append((name, gen, [], False)); continue
        while depth and i < len(rest):
            if rest[i] == opener: depth += 1
            elif rest[i] == close: depth -= 1
            i += 1
        body = rest[body_start:i-1]
        single = "single_account_set" in body
        if opener == "(":
            out.append((name, gen, None, single)); continue
        # strip attributes (balanced brackets)
        b, j, clean = body, 0, ""
        while j < len(b):
            if b[j] == "#" and b[j+1:j+2] == "[":
                d, j = 1, j + 2
                while d:
                    if b[j] == "[": d += 1
                    elif b[j] == "]": d -= 1
                    j += 1
            else:
                clean += b[j]; j += 1
        fields = []
        depth = 0
        cur = ""
        for ch in clean:
            if ch in "<([{": depth += 1
            if ch in ">)]}": depth -= 1
            if ch == "," and depth == 0:
                fields.append(cur); cur = ""
            else:
                cur += ch
        if cur.strip(): fields.append(cur)
        names = []
        skip_struct = False
        for f in fields:
            mm = re.match(r"\s*(pub(\([^)]*\))?\s+)?(\w+)\s*:", f)
            if mm: names.append(mm.group(3))
        out.append((name, gen, names, single))
    return out
def find_ixsets(text):
    out = []
    for m in re.finditer(r"#\[derive\(([^\]]*?)\)\]", text, re.S):
        if "InstructionSet" not in m.group(1):
            continue
        rest = text[m.end():]
        m2 = re.search(r"pub enum (\w+)\s*\{", rest)
        if not m2 or re.search(r"\b(pub struct|fn |impl )", rest[:m2.start()]):
            continue
        i = m2.end(); depth = 1
        while depth:
            if rest[i] == "{": depth += 1
            elif rest[i] == "}": depth -= 1
            i += 1
        body = rest[m2.end():i-1]
        vs = re.findall(r"(\w+)\s*\(\s*([\w:<>]+)\s*\)", body)
        out.append((m2.group(1), vs))
    return out

dummies, progs = [], []
seen = set()
for f, mod, prog in FILES:
    text = strip_comments(open(os.path.join(REPO, f)).read())
    for name, gen, fields, single in find_structs(text):
        if single or fields is None:
            continue
        if gen and gen.strip() not in ("", "<const MUT: bool>"):
            continue
        base = name[:-len("Accounts")] if name.endswith("Accounts") else name
        cname = base + "ClientAccounts"
        key = (mod, cname)
        if key in seen: continue
        if cname == "RunAccountsInnerClientAccounts": continue  # private field: hand-written in shipped.rs
        seen.add(key)
        tgen = "<true>" if gen else ""
        dummies.append((f"{mod}::{cname}{tgen}", fields))
    for ename, vs in find_ixsets(text):
        progs.append((prog, f"{mod}::{ename}", [(v, f"{mod}::{t}") for v, t in vs]))

out = ["// @generated by tools/gen_shipped.py from the shipped programs' sources — do not edit by hand.",
       "use crate::shipped::{dummy_struct, Dummy, IxRow, ix_row};", ""]
for path, fields in dummies:
    out.append(f"dummy_struct!({path} {{ {', '.join(fields)} }});")
out.append("")
for prog, eset, vs in progs:
    fn = prog.split("::")[0] + "_" + prog.split("::")[-1].lower()
    out.append(f"pub fn ixs_{fn}() -> Vec<IxRow> {{")
    out.append("    vec![")
    for v, t in vs:
        out.append(f"        ix_row::<{prog}, {t}>(),")
    out.append("    ]")
    out.append("}")
print("\n".join(out))
