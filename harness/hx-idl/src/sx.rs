//! Text forms shared with the Lean driver (`lean/Idl/Idl/Driver/C17.lean`), canonical printers of the
//! REAL IDL fragments, the value generator, and the plain-Rust reference implementations used as
//! the property oracle (an IDL-driven decoder over the real `IdlTypeDef`, a flattener over the real
//! `IdlAccountSetDef`) — written independently of the Lean model.
use hx_common::{hex, unhex, Rng};
use star_frame::star_frame_idl::{
    account_set::{IdlAccountSetDef, IdlSingleAccountSet},
    ty::IdlTypeDef,
    IdlDefinition,
};

// ------------------------------------------------------------------------------------------------ s-expressions
#[derive(Debug, Clone, PartialEq)]
pub enum Sx {
    A(String),
    L(Vec<Sx>),
}

pub fn lex(s: &str) -> Vec<String> {
    let mut out = vec![];
    let mut cur = String::new();
    for c in s.chars() {
        match c {
            '(' | ')' | ' ' => {
                if !cur.is_empty() {
                    out.push(std::mem::take(&mut cur));
                }
                if c != ' ' {
                    out.push(c.to_string());
                }
            }
            c => cur.push(c),
        }
    }
    if !cur.is_empty() {
        out.push(cur);
    }
    out
}

fn parse_one(t: &[String], i: &mut usize) -> Option<Sx> {
    let tok = t.get(*i)?;
    *i += 1;
    match tok.as_str() {
        "(" => {
            let mut xs = vec![];
            loop {
                if t.get(*i)? == ")" {
                    *i += 1;
                    return Some(Sx::L(xs));
                }
                xs.push(parse_one(t, i)?);
            }
        }
        ")" => None,
        a => Some(Sx::A(a.to_string())),
    }
}

/// All s-expressions of a line.
pub fn parse_line(s: &str) -> Option<Vec<Sx>> {
    let t = lex(s);
    let mut i = 0;
    let mut out = vec![];
    while i < t.len() {
        out.push(parse_one(&t, &mut i)?);
    }
    Some(out)
}

impl Sx {
    pub fn atom(&self) -> Option<&str> {
        match self {
            Sx::A(a) => Some(a),
            _ => None,
        }
    }
    pub fn show(&self) -> String {
        match self {
            Sx::A(a) => a.clone(),
            Sx::L(xs) => format!("({})", xs.iter().map(|x| x.show()).collect::<Vec<_>>().join(" ")),
        }
    }
}

// ------------------------------------------------------------------------------------------------ shapes
#[derive(Debug, Clone, PartialEq)]
pub enum Shape {
    Bool,
    Int(usize, bool),
    Float(usize),
    Pubkey,
    Fixed(usize, bool, usize),
    Array(Box<Shape>, usize),
    Option(Box<Shape>),
    Str,
    List(Box<Shape>, usize),
    Set(Box<Shape>, usize),
    Map(Box<Shape>, Box<Shape>, usize),
    UList(Box<Shape>),
    UMap(Box<Shape>, Box<Shape>),
    Rem,
    Struct(Vec<Shape>),
    Enum(Vec<(u8, Shape)>),
    Unit,
}

pub fn parse_shape(x: &Sx) -> Option<Shape> {
    let n = |x: &Sx| x.atom()?.parse::<usize>().ok();
    let b = |x: &Sx| parse_shape(x).map(Box::new);
    Some(match x {
        Sx::A(a) => match a.as_str() {
            "bool" => Shape::Bool,
            "pubkey" => Shape::Pubkey,
            "str" => Shape::Str,
            "rem" => Shape::Rem,
            "unit" => Shape::Unit,
            _ => return None,
        },
        Sx::L(xs) => {
            let head = xs.first()?.atom()?;
            match (head, &xs[1..]) {
                ("u", [w]) => Shape::Int(n(w)?, false),
                ("i", [w]) => Shape::Int(n(w)?, true),
                ("f", [w]) => Shape::Float(n(w)?),
                ("fxu", [w, f]) => Shape::Fixed(n(w)?, false, n(f)?),
                ("fxi", [w, f]) => Shape::Fixed(n(w)?, true, n(f)?),
                ("arr", [e, k]) => Shape::Array(b(e)?, n(k)?),
                ("opt", [e]) => Shape::Option(b(e)?),
                ("list", [e, lw]) => Shape::List(b(e)?, n(lw)?),
                ("set", [e, lw]) => Shape::Set(b(e)?, n(lw)?),
                ("map", [k, v, lw]) => Shape::Map(b(k)?, b(v)?, n(lw)?),
                ("ulist", [e]) => Shape::UList(b(e)?),
                ("umap", [k, e]) => Shape::UMap(b(k)?, b(e)?),
                ("struct", fs) => Shape::Struct(fs.iter().map(parse_shape).collect::<Option<_>>()?),
                ("enum", vs) => Shape::Enum(
                    vs.iter()
                        .map(|v| match v {
                            Sx::L(p) if p.len() == 2 => Some((p[0].atom()?.parse::<u8>().ok()?, parse_shape(&p[1])?)),
                            _ => None,
                        })
                        .collect::<Option<_>>()?,
                ),
                _ => return None,
            }
        }
    })
}

// ------------------------------------------------------------------------------------------------ values
#[derive(Debug, Clone, PartialEq)]
pub enum Val {
    Num(u128),
    Bool(bool),
    Bytes(Vec<u8>),
    None,
    Some(Box<Val>),
    Seq(Vec<Val>),
    Pair(Box<Val>, Box<Val>),
    Variant(usize, Box<Val>),
    Unit,
}

pub fn parse_val(x: &Sx) -> Option<Val> {
    Some(match x {
        Sx::A(a) => match a.as_str() {
            "t" => Val::Bool(true),
            "f" => Val::Bool(false),
            "N" => Val::None,
            "U" => Val::Unit,
            a if a.starts_with('x') => Val::Bytes(unhex(&a[1..])?),
            a => Val::Num(a.parse().ok()?),
        },
        Sx::L(xs) => {
            let head = xs.first()?.atom()?;
            match (head, &xs[1..]) {
                ("S", [v]) => Val::Some(Box::new(parse_val(v)?)),
                ("L", vs) => Val::Seq(vs.iter().map(parse_val).collect::<Option<_>>()?),
                ("P", [k, v]) => Val::Pair(Box::new(parse_val(k)?), Box::new(parse_val(v)?)),
                ("V", [i, p]) => Val::Variant(i.atom()?.parse().ok()?, Box::new(parse_val(p)?)),
                _ => return None,
            }
        }
    })
}

pub fn show_val(v: &Val) -> String {
    match v {
        Val::Num(n) => n.to_string(),
        Val::Bool(b) => if *b { "t" } else { "f" }.into(),
        Val::Bytes(b) => format!("x{}", hex(b)),
        Val::None => "N".into(),
        Val::Some(v) => format!("(S {})", show_val(v)),
        Val::Seq(vs) => {
            let mut s = "(L".to_string();
            for v in vs {
                s.push(' ');
                s.push_str(&show_val(v));
            }
            s.push(')');
            s
        }
        Val::Pair(k, v) => format!("(P {} {})", show_val(k), show_val(v)),
        Val::Variant(i, p) => format!("(V {i} {})", show_val(p)),
        Val::Unit => "U".into(),
    }
}

fn key_num(v: &Val) -> u128 {
    match v {
        Val::Num(n) => *n,
        _ => 0,
    }
}

/// Random well-typed value. Set elements / map keys (unsigned integers in every harness type) are
/// generated distinct and ascending, as the owned Rust types (`BTreeSet`/`BTreeMap`) hold them.
pub fn gen_val(s: &Shape, rng: &mut Rng, depth: usize) -> Val {
    let small = |rng: &mut Rng| -> usize {
        match rng.below(10) {
            0 | 1 => 0,
            2..=5 => 1 + rng.below(2) as usize,
            6..=8 => 3 + rng.below(4) as usize,
            _ => 8 + rng.below(if depth == 0 { 40 } else { 6 }) as usize,
        }
    };
    let num = |w: usize, rng: &mut Rng| -> u128 {
        let full = ((rng.next() as u128) << 64) | rng.next() as u128;
        let v = match rng.below(6) {
            0 => 0,
            1 => u128::MAX,
            2 => rng.below(3) as u128,
            _ => full,
        };
        if w >= 16 {
            v
        } else {
            v & ((1u128 << (8 * w)) - 1)
        }
    };
    match s {
        Shape::Bool => Val::Bool(rng.chance(1, 2)),
        Shape::Int(w, _) | Shape::Fixed(w, _, _) => Val::Num(num(*w, rng)),
        Shape::Float(w) => {
            // borsh refuses NaN: keep the exponent field from being all ones with a non-zero mantissa
            let v = num(*w, rng);
            let (exp_mask, man_mask) = if *w == 4 { (0x7F80_0000u128, 0x007F_FFFFu128) } else { (0x7FF0_0000_0000_0000u128, 0x000F_FFFF_FFFF_FFFFu128) };
            Val::Num(if v & exp_mask == exp_mask && v & man_mask != 0 { v & !man_mask } else { v })
        }
        Shape::Pubkey => Val::Bytes(rng.bytes(32)),
        Shape::Array(e, n) => Val::Seq((0..*n).map(|_| gen_val(e, rng, depth + 1)).collect()),
        Shape::Option(e) => {
            if rng.chance(1, 3) {
                Val::None
            } else {
                Val::Some(Box::new(gen_val(e, rng, depth + 1)))
            }
        }
        Shape::Str => {
            let n = small(rng);
            let pool: [&str; 8] = ["a", "Z", "0", " ", "é", "→", "𝄞", "_"];
            let mut st = String::new();
            for _ in 0..n {
                st.push_str(pool[rng.below(pool.len() as u64) as usize]);
            }
            Val::Bytes(st.into_bytes())
        }
        Shape::List(e, lw) => {
            let mut n = small(rng);
            if *lw == 1 {
                n = n.min(255);
            }
            Val::Seq((0..n).map(|_| gen_val(e, rng, depth + 1)).collect())
        }
        Shape::Set(e, _) => {
            let n = small(rng);
            let mut ks: Vec<u128> = (0..n).map(|_| key_num(&gen_val(e, rng, depth + 1))).collect();
            ks.sort();
            ks.dedup();
            Val::Seq(ks.into_iter().map(Val::Num).collect())
        }
        Shape::Map(k, v, _) | Shape::UMap(k, v) => {
            let n = small(rng);
            let mut ks: Vec<u128> = (0..n).map(|_| key_num(&gen_val(k, rng, depth + 1))).collect();
            ks.sort();
            ks.dedup();
            Val::Seq(ks.into_iter().map(|k| Val::Pair(Box::new(Val::Num(k)), Box::new(gen_val(v, rng, depth + 1)))).collect())
        }
        Shape::UList(e) => {
            let n = small(rng).min(12);
            Val::Seq((0..n).map(|_| gen_val(e, rng, depth + 1)).collect())
        }
        Shape::Rem => {
            let n = small(rng);
            Val::Bytes(rng.bytes(n))
        }
        Shape::Struct(fs) => Val::Seq(fs.iter().map(|f| gen_val(f, rng, depth + 1)).collect()),
        Shape::Enum(vs) => {
            let i = rng.below(vs.len() as u64) as usize;
            Val::Variant(i, Box::new(gen_val(&vs[i].1, rng, depth + 1)))
        }
        Shape::Unit => Val::Unit,
    }
}

// ------------------------------------------------------------------------------------------------ real IDL -> canonical text
/// Canonical one-line form of a real IDL type fragment: `Defined` references are resolved through
/// the definition's own type tables and inlined; names and docs are dropped (layout only).
pub fn show_idl_ty(def: &IdlDefinition, t: &IdlTypeDef, depth: usize) -> String {
    if depth > 40 {
        return "generic".into();
    }
    let r = |t: &IdlTypeDef| show_idl_ty(def, t, depth + 1);
    match t {
        IdlTypeDef::Defined(id) => match def.get_type(&id.source) {
            Some(ty) => r(&ty.type_def),
            None => "generic".into(),
        },
        IdlTypeDef::Generic(_) => "generic".into(),
        IdlTypeDef::Bool => "bool".into(),
        IdlTypeDef::U8 => "u8".into(),
        IdlTypeDef::I8 => "i8".into(),
        IdlTypeDef::U16 => "u16".into(),
        IdlTypeDef::I16 => "i16".into(),
        IdlTypeDef::U32 => "u32".into(),
        IdlTypeDef::I32 => "i32".into(),
        IdlTypeDef::F32 => "f32".into(),
        IdlTypeDef::U64 => "u64".into(),
        IdlTypeDef::I64 => "i64".into(),
        IdlTypeDef::F64 => "f64".into(),
        IdlTypeDef::U128 => "u128".into(),
        IdlTypeDef::I128 => "i128".into(),
        IdlTypeDef::String => "string".into(),
        IdlTypeDef::Pubkey => "pubkey".into(),
        IdlTypeDef::FixedPoint { ty, frac } => format!("(fixed {} {frac})", r(ty)),
        IdlTypeDef::Option { ty, fixed } => format!("(option {} {})", r(ty), *fixed as u8),
        IdlTypeDef::RemainingBytes => "rem".into(),
        IdlTypeDef::List { len_ty, item_ty } => format!("(list {} {})", r(len_ty), r(item_ty)),
        IdlTypeDef::UnsizedList { len_ty, offset_ty, item_ty } => format!("(ulist {} {} {})", r(len_ty), r(offset_ty), r(item_ty)),
        IdlTypeDef::Set { len_ty, item_ty } => format!("(set {} {})", r(len_ty), r(item_ty)),
        IdlTypeDef::Map { len_ty, key_ty, value_ty } => format!("(map {} {} {})", r(len_ty), r(key_ty), r(value_ty)),
        IdlTypeDef::Array(ty, n) => format!("(array {} {n})", r(ty)),
        IdlTypeDef::Struct(fs) => {
            let mut s = "(struct".to_string();
            for f in fs {
                s.push(' ');
                s.push_str(&r(&f.type_def));
            }
            s.push(')');
            s
        }
        IdlTypeDef::Enum { size, variants } => {
            let mut s = format!("(enum {}", r(size));
            for v in variants {
                let p = v.type_def.as_ref().map(|t| r(t)).unwrap_or_else(|| "none".into());
                s.push_str(&format!(" ({} {p})", hex(&v.discriminant)));
            }
            s.push(')');
            s
        }
    }
}

// ------------------------------------------------------------------------------------------------ reference decoder (oracle)
fn num_width(t: &IdlTypeDef) -> Option<usize> {
    Some(match t {
        IdlTypeDef::U8 | IdlTypeDef::I8 => 1,
        IdlTypeDef::U16 | IdlTypeDef::I16 => 2,
        IdlTypeDef::U32 | IdlTypeDef::I32 | IdlTypeDef::F32 => 4,
        IdlTypeDef::U64 | IdlTypeDef::I64 | IdlTypeDef::F64 => 8,
        IdlTypeDef::U128 | IdlTypeDef::I128 => 16,
        _ => return None,
    })
}

fn le(b: &[u8]) -> u128 {
    b.iter().rev().fold(0u128, |a, x| (a << 8) | *x as u128)
}

fn resolve<'a>(def: &'a IdlDefinition, t: &'a IdlTypeDef) -> Option<&'a IdlTypeDef> {
    let mut t = t;
    for _ in 0..40 {
        match t {
            IdlTypeDef::Defined(id) => t = &def.get_type(&id.source)?.type_def,
            _ => return Some(t),
        }
    }
    None
}

/// Decode one value of the REAL IDL type `t` from the front of `b` (reference implementation in
/// plain Rust of the documented meaning of each `IdlTypeDef` variant). Returns value + bytes used.
pub fn ref_decode(def: &IdlDefinition, t: &IdlTypeDef, b: &[u8]) -> Option<(Val, usize)> {
    let t = resolve(def, t)?;
    if let Some(w) = num_width(t) {
        return Some((Val::Num(le(b.get(..w)?)), w));
    }
    let read_len = |t: &IdlTypeDef, b: &[u8]| -> Option<(usize, usize)> {
        let w = num_width(resolve(def, t)?)?;
        Some((usize::try_from(le(b.get(..w)?)).ok()?, w))
    };
    let seq = |item: &dyn Fn(&[u8]) -> Option<(Val, usize)>, n: usize, b: &[u8]| -> Option<(Vec<Val>, usize)> {
        let (mut vs, mut at) = (vec![], 0usize);
        for _ in 0..n {
            let (v, k) = item(b.get(at..)?)?;
            vs.push(v);
            at += k;
        }
        Some((vs, at))
    };
    match t {
        IdlTypeDef::Bool => match b.first()? {
            0 => Some((Val::Bool(false), 1)),
            1 => Some((Val::Bool(true), 1)),
            _ => None,
        },
        IdlTypeDef::String => {
            let n = le(b.get(..4)?) as usize;
            Some((Val::Bytes(b.get(4..4 + n)?.to_vec()), 4 + n))
        }
        IdlTypeDef::Pubkey => Some((Val::Bytes(b.get(..32)?.to_vec()), 32)),
        IdlTypeDef::FixedPoint { ty, .. } => ref_decode(def, ty, b),
        IdlTypeDef::Option { ty, fixed } => match b.first()? {
            0 if !*fixed => Some((Val::None, 1)),
            1 => {
                let (v, k) = ref_decode(def, ty, &b[1..])?;
                Some((Val::Some(Box::new(v)), 1 + k))
            }
            _ => None,
        },
        IdlTypeDef::RemainingBytes => Some((Val::Bytes(b.to_vec()), b.len())),
        IdlTypeDef::List { len_ty, item_ty } | IdlTypeDef::Set { len_ty, item_ty } => {
            let (n, k) = read_len(len_ty, b)?;
            let (vs, m) = seq(&|b| ref_decode(def, item_ty, b), n, &b[k..])?;
            Some((Val::Seq(vs), k + m))
        }
        IdlTypeDef::Map { len_ty, key_ty, value_ty } => {
            let (n, k) = read_len(len_ty, b)?;
            let (vs, m) = seq(
                &|b| {
                    let (kv, a) = ref_decode(def, key_ty, b)?;
                    let (vv, c) = ref_decode(def, value_ty, b.get(a..)?)?;
                    Some((Val::Pair(Box::new(kv), Box::new(vv)), a + c))
                },
                n,
                &b[k..],
            )?;
            Some((Val::Seq(vs), k + m))
        }
        IdlTypeDef::Array(ty, n) => {
            let (vs, m) = seq(&|b| ref_decode(def, ty, b), *n, b)?;
            Some((Val::Seq(vs), m))
        }
        IdlTypeDef::Struct(fs) => {
            let (mut vs, mut at) = (vec![], 0usize);
            for f in fs {
                let (v, k) = ref_decode(def, &f.type_def, b.get(at..)?)?;
                vs.push(v);
                at += k;
            }
            Some((Val::Seq(vs), at))
        }
        IdlTypeDef::Enum { size, variants } => {
            let w = num_width(resolve(def, size)?)?;
            let tag = b.get(..w)?;
            let (i, v) = variants.iter().enumerate().find(|(_, v)| v.discriminant == tag)?;
            match &v.type_def {
                None => Some((Val::Variant(i, Box::new(Val::Unit)), w)),
                Some(p) => {
                    let (pv, k) = ref_decode(def, p, &b[w..])?;
                    Some((Val::Variant(i, Box::new(pv)), w + k))
                }
            }
        }
        IdlTypeDef::UnsizedList { len_ty, offset_ty, item_ty } => {
            // unsized_len; offset_list: List<offset_ty, len_ty>; unsized_list: List<item_ty, len_ty>, where
            // the entries of offset_list hold the start of each element within the element bytes
            let (total, k0) = read_len(len_ty, b)?;
            let (n, k1) = read_len(len_ty, &b[k0..])?;
            let (entries, m) = seq(&|b| ref_decode(def, offset_ty, b), n, b.get(k0 + k1..)?)?;
            let (n2, k2) = read_len(len_ty, b.get(k0 + k1 + m..)?)?;
            if n2 != n {
                return None;
            }
            let start = k0 + k1 + m + k2;
            let data = b.get(start..start + total)?;
            let off_of = |e: &Val| -> Option<usize> {
                match e {
                    Val::Num(o) => Some(*o as usize),
                    Val::Seq(fs) => match fs.first()? {
                        Val::Num(o) => Some(*o as usize),
                        _ => None,
                    },
                    _ => None,
                }
            };
            let mut out = vec![];
            for (i, e) in entries.iter().enumerate() {
                let lo = off_of(e)?;
                let hi = if i + 1 < entries.len() { off_of(&entries[i + 1])? } else { total };
                let (v, k) = ref_decode(def, item_ty, data.get(lo..hi)?)?;
                if k != hi - lo {
                    return None;
                }
                out.push(match e {
                    Val::Seq(fs) if fs.len() == 2 => Val::Pair(Box::new(fs[1].clone()), Box::new(v)),
                    Val::Seq(fs) if fs.len() > 2 => Val::Pair(Box::new(Val::Seq(fs[1..].to_vec())), Box::new(v)),
                    _ => v,
                });
            }
            Some((Val::Seq(out), start + total))
        }
        _ => None,
    }
}

// ------------------------------------------------------------------------------------------------ account sets
pub fn show_flags(s: &IdlSingleAccountSet) -> String {
    let mut f = String::new();
    if s.writable {
        f.push('w');
    }
    if s.signer {
        f.push('s');
    }
    if s.optional {
        f.push('o');
    }
    if s.is_init {
        f.push('i');
    }
    if s.seeds.is_some() {
        f.push('S');
    }
    if f.is_empty() {
        f.push('-');
    }
    f
}

/// Canonical one-line form of a real account-set definition (`Defined` resolved and inlined).
pub fn show_idl_set(def: &IdlDefinition, s: &IdlAccountSetDef, depth: usize) -> String {
    show_idl_set_with(def, s, depth, false)
}

/// `with_seeds`: a single set that has find-seeds gets a fourth element listing them: `(c)` constant,
/// `(r <words>)` account path relative to the holding set, `(a <words>)` `:`-rooted account path.
pub fn show_idl_set_with(def: &IdlDefinition, s: &IdlAccountSetDef, depth: usize, with_seeds: bool) -> String {
    if depth > 40 {
        return "(or)".into();
    }
    match s {
        IdlAccountSetDef::Defined(id) => match def.account_sets.get(&id.source) {
            Some(set) => show_idl_set_with(def, &set.account_set_def, depth + 1, with_seeds),
            None => "(or)".into(),
        },
        IdlAccountSetDef::Single(x) => {
            let base = format!("(single {} {}", show_flags(x), x.address.map(|a| hex(a.as_ref())).unwrap_or_else(|| "-".into()));
            match (&x.seeds, with_seeds) {
                (Some(fs), true) => {
                    let items: Vec<String> = fs
                        .seeds
                        .iter()
                        .map(|sd| match sd {
                            star_frame::star_frame_idl::seeds::IdlFindSeed::Const(_) => "(c)".to_string(),
                            star_frame::star_frame_idl::seeds::IdlFindSeed::AccountPath(p) => match p.strip_prefix(':') {
                                Some(rooted) => format!("(a {rooted})"),
                                None => format!("(r {p})"),
                            },
                        })
                        .collect();
                    format!("{base} ({}))", items.join(" "))
                }
                _ => format!("{base})"),
            }
        }
        IdlAccountSetDef::Struct(fs) => {
            let mut out = "(struct".to_string();
            for f in fs {
                out.push_str(&format!(" ({} {})", f.path.clone().unwrap_or_else(|| "#".into()), show_idl_set_with(def, &f.account_set_def, depth + 1, with_seeds)));
            }
            out.push(')');
            out
        }
        IdlAccountSetDef::Many { account_set, min, max } => format!(
            "(many {} {min} {})",
            show_idl_set_with(def, account_set, depth + 1, with_seeds),
            max.map(|m| m.to_string()).unwrap_or_else(|| "*".into())
        ),
        IdlAccountSetDef::Or(alts) => {
            let mut out = "(or".to_string();
            for a in alts {
                out.push(' ');
                out.push_str(&show_idl_set_with(def, a, depth + 1, with_seeds));
            }
            out.push(')');
            out
        }
    }
}

/// One flattened account: signer, writable, key kind (`f` fresh / `p` program id / hex address).
#[derive(Debug, Clone, PartialEq)]
pub struct Slot {
    pub signer: bool,
    pub writable: bool,
    pub key: String,
}

/// `present`: flags only (see the note at `showSlots` in the Lean driver).
pub fn show_slots(present: bool, l: &[Slot]) -> String {
    if l.is_empty() {
        return "-".into();
    }
    l.iter()
        .map(|s| if present { format!("{}{}", s.signer as u8, s.writable as u8) } else { format!("{}{}:{}", s.signer as u8, s.writable as u8, s.key) })
        .collect::<Vec<_>>()
        .join(" ")
}

/// Reference flattener over the real `IdlAccountSetDef` (oracle; independent of the Lean `flatten`).
pub fn ref_flatten(def: &IdlDefinition, prog: &[u8], present: bool, s: &IdlAccountSetDef, out: &mut Vec<Slot>) {
    let placeholder = Slot { signer: false, writable: false, key: "p".into() };
    match s {
        IdlAccountSetDef::Defined(id) => {
            if let Some(set) = def.account_sets.get(&id.source) {
                ref_flatten(def, prog, present, &set.account_set_def, out);
            }
        }
        IdlAccountSetDef::Single(x) => {
            if x.optional && !present {
                out.push(placeholder);
            } else {
                let key = match x.address {
                    None => "f".to_string(),
                    Some(a) if a.as_ref() == prog => "p".to_string(),
                    Some(a) => hex(a.as_ref()),
                };
                out.push(Slot { signer: x.signer, writable: x.writable, key });
            }
        }
        IdlAccountSetDef::Struct(fs) => {
            for f in fs {
                ref_flatten(def, prog, present, &f.account_set_def, out);
            }
        }
        IdlAccountSetDef::Many { account_set, min, max } => {
            let n = if *max == Some(*min) { *min } else { 2 };
            for _ in 0..n {
                ref_flatten(def, prog, present, account_set, out);
            }
        }
        IdlAccountSetDef::Or(alts) => {
            if present {
                if let Some(a) = alts.first() {
                    ref_flatten(def, prog, present, a, out);
                }
            } else {
                out.push(placeholder);
            }
        }
    }
}
