//! Harness types spanning the type building blocks, each with: the model's view of it (`shape`,
//! hand-written), its REAL IDL fragment (`TypeToIdl`), and its REAL serializer (borsh for
//! instruction arguments / borsh accounts, `bytemuck::bytes_of` for zero-copy, `FromOwned` for
//! unsized account data).
use crate::sx::Val;
use star_frame::{
    borsh::{self, BorshDeserialize, BorshSerialize},
    data_types::RemainingData,
    idl::TypeToIdl,
    prelude::*,
    star_frame_idl::{ty::IdlTypeDef, IdlDefinition},
    unsize::FromOwned,
};
use std::collections::{BTreeMap, BTreeSet};

// ------------------------------------------------------------------------------------------------ Val -> Rust
pub trait FromVal: Sized {
    fn from_val(v: &Val) -> Option<Self>;
}

macro_rules! fv_uint {
    ($($t:ty),*) => {$(
        impl FromVal for $t {
            fn from_val(v: &Val) -> Option<Self> {
                match v { Val::Num(n) => <$t>::try_from(*n).ok(), _ => None }
            }
        }
    )*};
}
fv_uint!(u8, u16, u32, u64, u128);
macro_rules! fv_sint {
    ($($t:ty : $u:ty),*) => {$(
        impl FromVal for $t {
            fn from_val(v: &Val) -> Option<Self> {
                match v { Val::Num(n) => <$u>::try_from(*n).ok().map(|x| x as $t), _ => None }
            }
        }
    )*};
}
fv_sint!(i8: u8, i16: u16, i32: u32, i64: u64, i128: u128);
impl FromVal for f32 {
    fn from_val(v: &Val) -> Option<Self> {
        u32::from_val(v).map(f32::from_bits)
    }
}
impl FromVal for f64 {
    fn from_val(v: &Val) -> Option<Self> {
        u64::from_val(v).map(f64::from_bits)
    }
}
impl FromVal for bool {
    fn from_val(v: &Val) -> Option<Self> {
        match v {
            Val::Bool(b) => Some(*b),
            _ => None,
        }
    }
}
impl FromVal for Pubkey {
    fn from_val(v: &Val) -> Option<Self> {
        match v {
            Val::Bytes(b) => Some(Pubkey::new_from_array(b.as_slice().try_into().ok()?)),
            _ => None,
        }
    }
}
impl<T: FromVal> FromVal for PackedValue<T> {
    fn from_val(v: &Val) -> Option<Self> {
        T::from_val(v).map(PackedValue)
    }
}
impl<T: FromVal> FromVal for Option<T> {
    fn from_val(v: &Val) -> Option<Self> {
        match v {
            Val::None => Some(None),
            Val::Some(x) => Some(Some(T::from_val(x)?)),
            _ => None,
        }
    }
}
impl<T: FromVal, const N: usize> FromVal for [T; N] {
    fn from_val(v: &Val) -> Option<Self> {
        match v {
            Val::Seq(vs) if vs.len() == N => vs.iter().map(T::from_val).collect::<Option<Vec<_>>>()?.try_into().ok(),
            _ => None,
        }
    }
}
impl<T: FromVal> FromVal for Vec<T> {
    fn from_val(v: &Val) -> Option<Self> {
        match v {
            Val::Seq(vs) => vs.iter().map(T::from_val).collect(),
            _ => None,
        }
    }
}
/// `RemainingBytes` (owned `Vec<u8>`) is written `x..`; a `Vec<u8>` behind a `List<u8, L>` is `(L ..)`.
pub struct Raw(pub Vec<u8>);
impl FromVal for Raw {
    fn from_val(v: &Val) -> Option<Self> {
        match v {
            Val::Bytes(b) => Some(Raw(b.clone())),
            _ => None,
        }
    }
}
impl FromVal for RemainingData {
    fn from_val(v: &Val) -> Option<Self> {
        Raw::from_val(v).map(|r| RemainingData::from(r.0))
    }
}
impl FromVal for String {
    fn from_val(v: &Val) -> Option<Self> {
        match v {
            Val::Bytes(b) => String::from_utf8(b.clone()).ok(),
            _ => None,
        }
    }
}
impl<T: FromVal + Ord> FromVal for BTreeSet<T> {
    fn from_val(v: &Val) -> Option<Self> {
        match v {
            Val::Seq(vs) => {
                let items: Vec<T> = vs.iter().map(T::from_val).collect::<Option<_>>()?;
                // strictly ascending, as the value text is canonical
                if !items.windows(2).all(|w| w[0] < w[1]) {
                    return None;
                }
                Some(items.into_iter().collect())
            }
            _ => None,
        }
    }
}
impl<K: FromVal + Ord, V: FromVal> FromVal for BTreeMap<K, V> {
    fn from_val(v: &Val) -> Option<Self> {
        match v {
            Val::Seq(vs) => {
                let mut items = vec![];
                for p in vs {
                    match p {
                        Val::Pair(k, x) => items.push((K::from_val(k)?, V::from_val(x)?)),
                        _ => return None,
                    }
                }
                if !items.windows(2).all(|w| w[0].0 < w[1].0) {
                    return None;
                }
                Some(items.into_iter().collect())
            }
            _ => None,
        }
    }
}

macro_rules! fv_struct {
    ($t:ty { $($f:ident),* }) => {
        impl FromVal for $t {
            fn from_val(v: &Val) -> Option<Self> {
                let Val::Seq(vs) = v else { return None };
                let mut it = vs.iter();
                let out = Self { $($f: FromVal::from_val(it.next()?)?),* };
                if it.next().is_some() { return None; }
                Some(out)
            }
        }
    };
}

// ------------------------------------------------------------------------------------------------ borsh types
#[derive(BorshSerialize, BorshDeserialize, TypeToIdl, Debug, Clone, PartialEq)]
#[borsh(crate = "star_frame::borsh")]
pub struct BInner {
    pub a: u8,
    pub b: i16,
    pub flag: bool,
}
fv_struct!(BInner { a, b, flag });

#[derive(BorshSerialize, BorshDeserialize, TypeToIdl, Debug, Clone, PartialEq)]
#[borsh(crate = "star_frame::borsh", use_discriminant = true)]
#[repr(u8)]
pub enum BEnum {
    A = 3,
    B { x: u8, y: Option<u16> } = 7,
    C(u32, bool) = 200,
}
impl FromVal for BEnum {
    fn from_val(v: &Val) -> Option<Self> {
        let Val::Variant(i, p) = v else { return None };
        match (i, &**p) {
            (0, Val::Unit) => Some(BEnum::A),
            (1, Val::Seq(f)) if f.len() == 2 => Some(BEnum::B { x: FromVal::from_val(&f[0])?, y: FromVal::from_val(&f[1])? }),
            (2, Val::Seq(f)) if f.len() == 2 => Some(BEnum::C(FromVal::from_val(&f[0])?, FromVal::from_val(&f[1])?)),
            _ => None,
        }
    }
}

/// A tuple struct (IDL fields without `path`).
#[derive(BorshSerialize, BorshDeserialize, TypeToIdl, Debug, Clone, PartialEq)]
#[borsh(crate = "star_frame::borsh")]
pub struct BTuple(pub u16, pub Option<BInner>, pub (u8, u32));
impl FromVal for BTuple {
    fn from_val(v: &Val) -> Option<Self> {
        let Val::Seq(vs) = v else { return None };
        let [a, b, c] = vs.as_slice() else { return None };
        let Val::Seq(cs) = c else { return None };
        let [c0, c1] = cs.as_slice() else { return None };
        Some(BTuple(FromVal::from_val(a)?, FromVal::from_val(b)?, (FromVal::from_val(c0)?, FromVal::from_val(c1)?)))
    }
}

/// Borsh value spanning the owned-collection emitters of `idl/ty.rs`.
#[derive(BorshSerialize, BorshDeserialize, TypeToIdl, Debug, Clone, PartialEq)]
#[borsh(crate = "star_frame::borsh")]
pub struct BBig {
    pub amount: u64,
    pub key: Pubkey,
    pub opt: Option<u32>,
    pub items: Vec<BInner>,
    pub name: String,
    pub arr: [u16; 3],
    pub m: BTreeMap<u8, u32>,
    pub st: BTreeSet<u16>,
    pub e: BEnum,
    pub big: i128,
    pub fl: f64,
    pub f4: f32,
    pub nested: Vec<Vec<u8>>,
    pub tup: BTuple,
    pub boxed: Box<u16>,
    pub tail: RemainingData,
}
impl FromVal for Box<u16> {
    fn from_val(v: &Val) -> Option<Self> {
        u16::from_val(v).map(Box::new)
    }
}
fv_struct!(BBig { amount, key, opt, items, name, arr, m, st, e, big, fl, f4, nested, tup, boxed, tail });

/// Enum with implicit, explicit, gapped and mixed discriminants (implicit variants after the FIRST and
/// after LATER explicit ones): 0, 3, 4, 10, 11, 240, 241.
#[derive(BorshSerialize, BorshDeserialize, TypeToIdl, Debug, Clone, PartialEq)]
#[borsh(crate = "star_frame::borsh", use_discriminant = true)]
#[repr(u8)]
pub enum BMixed {
    First,
    Open = 3,
    PartiallyFilled,
    Cancelled = 10,
    Expired,
    Late(u16) = 0xF0,
    End { x: u8 },
}
impl FromVal for BMixed {
    fn from_val(v: &Val) -> Option<Self> {
        let Val::Variant(i, p) = v else { return None };
        match (i, &**p) {
            (0, Val::Unit) => Some(BMixed::First),
            (1, Val::Unit) => Some(BMixed::Open),
            (2, Val::Unit) => Some(BMixed::PartiallyFilled),
            (3, Val::Unit) => Some(BMixed::Cancelled),
            (4, Val::Unit) => Some(BMixed::Expired),
            (5, Val::Seq(f)) if f.len() == 1 => Some(BMixed::Late(FromVal::from_val(&f[0])?)),
            (6, Val::Seq(f)) if f.len() == 1 => Some(BMixed::End { x: FromVal::from_val(&f[0])? }),
            _ => None,
        }
    }
}
pub const S_BMIXED: &str = "(enum (0 unit) (3 unit) (4 unit) (10 unit) (11 unit) (240 (struct (u 2))) (241 (struct (u 1))))";

/// `#[type_to_idl(skip)]` hides the marked field and every field after it: first / middle / last position.
#[derive(BorshSerialize, BorshDeserialize, TypeToIdl, Debug, Clone, PartialEq)]
#[borsh(crate = "star_frame::borsh")]
pub struct SkipMid {
    pub version: u8,
    #[type_to_idl(skip)]
    pub reserved: u16,
    pub limit: u32,
}
fv_struct!(SkipMid { version, reserved, limit });
#[derive(BorshSerialize, BorshDeserialize, TypeToIdl, Debug, Clone, PartialEq)]
#[borsh(crate = "star_frame::borsh")]
pub struct SkipFirst {
    #[type_to_idl(skip)]
    pub hidden: u16,
    pub b: u8,
}
fv_struct!(SkipFirst { hidden, b });
#[derive(BorshSerialize, BorshDeserialize, TypeToIdl, Debug, Clone, PartialEq)]
#[borsh(crate = "star_frame::borsh")]
pub struct SkipLast {
    pub a: Vec<u8>,
    pub b: u32,
    #[type_to_idl(skip)]
    pub pad: [u8; 3],
}
fv_struct!(SkipLast { a, b, pad });

pub const S_BINNER: &str = "(struct (u 1) (i 2) bool)";
pub const S_BENUM: &str = "(enum (3 unit) (7 (struct (u 1) (opt (u 2)))) (200 (struct (u 4) bool)))";
pub const S_BTUPLE: &str = "(struct (u 2) (opt (struct (u 1) (i 2) bool)) (struct (u 1) (u 4)))";
pub fn s_bbig() -> String {
    format!(
        "(struct (u 8) pubkey (opt (u 4)) (list {S_BINNER} 4) str (arr (u 2) 3) (map (u 1) (u 4) 4) (set (u 2) 4) {S_BENUM} (i 16) (f 8) (f 4) (list (list (u 1) 4) 4) {S_BTUPLE} (u 2) rem)"
    )
}

// ------------------------------------------------------------------------------------------------ zero-copy types
#[zero_copy(pod)]
#[derive(Debug, PartialEq, Eq, TypeToIdl, Default)]
pub struct ZcInner {
    pub x: u16,
    pub y: [u8; 3],
    pub k: Pubkey,
}
fv_struct!(ZcInner { x, y, k });

#[zero_copy]
#[derive(Debug, PartialEq, Eq, TypeToIdl)]
#[repr(u8)]
pub enum ZcSide {
    Bid,
    Ask = 5,
    Other,
}
impl FromVal for ZcSide {
    fn from_val(v: &Val) -> Option<Self> {
        match v {
            Val::Variant(0, _) => Some(ZcSide::Bid),
            Val::Variant(1, _) => Some(ZcSide::Ask),
            Val::Variant(2, _) => Some(ZcSide::Other),
            _ => None,
        }
    }
}

#[zero_copy(pod)]
#[derive(Debug, PartialEq, Eq, TypeToIdl, Default)]
pub struct ZcBig {
    pub a: u64,
    pub b: i32,
    pub c: PackedValue<u128>,
    pub inner: ZcInner,
    pub arr: [ZcInner; 2],
    pub last: u8,
}
fv_struct!(ZcBig { a, b, c, inner, arr, last });

#[zero_copy]
#[derive(Debug, PartialEq, Eq, TypeToIdl)]
#[repr(u8)]
pub enum ZcMixed {
    Zero,
    Open = 3,
    PartiallyFilled,
    Cancelled = 10,
    Expired,
    Done = 200,
    Archived,
}
impl FromVal for ZcMixed {
    fn from_val(v: &Val) -> Option<Self> {
        let Val::Variant(i, _) = v else { return None };
        Some(match i {
            0 => ZcMixed::Zero,
            1 => ZcMixed::Open,
            2 => ZcMixed::PartiallyFilled,
            3 => ZcMixed::Cancelled,
            4 => ZcMixed::Expired,
            5 => ZcMixed::Done,
            6 => ZcMixed::Archived,
            _ => return None,
        })
    }
}
pub const S_ZCMIXED: &str = "(enum (0 unit) (3 unit) (4 unit) (10 unit) (11 unit) (200 unit) (201 unit))";

pub const S_ZCINNER: &str = "(struct (u 2) (arr (u 1) 3) pubkey)";
pub const S_ZCSIDE: &str = "(enum (0 unit) (5 unit) (6 unit))";
pub fn s_zcbig() -> String {
    format!("(struct (u 8) (i 4) (u 16) {S_ZCINNER} (arr {S_ZCINNER} 2) (u 1))")
}

// ------------------------------------------------------------------------------------------------ unsized types
#[unsized_type]
pub struct UNested {
    pub tag: u8,
    #[unsized_start]
    pub bytes: List<u8, u8>,
    pub tail: RemainingBytes,
}
impl FromVal for UNestedOwned {
    fn from_val(v: &Val) -> Option<Self> {
        let Val::Seq(vs) = v else { return None };
        let [tag, bytes, tail] = vs.as_slice() else { return None };
        Some(UNestedOwned { tag: FromVal::from_val(tag)?, bytes: FromVal::from_val(bytes)?, tail: Raw::from_val(tail)?.0 })
    }
}
pub const S_UNESTED: &str = "(struct (u 1) (list (u 1) 1) rem)";

/// Element type for unsized lists/maps/enums (must not be possibly-zero-sized: no `RemainingBytes` tail).
#[unsized_type]
pub struct UInner {
    pub tag: u8,
    #[unsized_start]
    pub bytes: List<u8, u8>,
    pub words: List<PackedValue<u16>, u8>,
}
fv_struct!(UInnerOwned { tag, bytes, words });
pub const S_UINNER: &str = "(struct (u 1) (list (u 1) 1) (list (u 2) 1))";

#[unsized_type]
#[repr(u8)]
pub enum UEnum {
    #[default_init]
    Empty,
    Bytes(List<u8, u8>) = 4,
    Nested(UInner),
    Words(List<PackedValue<u16>, u16>) = 200,
    More(List<u8, u8>),
}
impl FromVal for UEnumOwned {
    fn from_val(v: &Val) -> Option<Self> {
        let Val::Variant(i, p) = v else { return None };
        let field = |p: &Val| -> Option<Val> {
            match p {
                Val::Seq(f) if f.len() == 1 => Some(f[0].clone()),
                _ => None,
            }
        };
        match i {
            0 => matches!(**p, Val::Unit).then_some(UEnumOwned::Empty),
            1 => Some(UEnumOwned::Bytes(FromVal::from_val(&field(p)?)?)),
            2 => Some(UEnumOwned::Nested(FromVal::from_val(&field(p)?)?)),
            3 => Some(UEnumOwned::Words(FromVal::from_val(&field(p)?)?)),
            4 => Some(UEnumOwned::More(FromVal::from_val(&field(p)?)?)),
            _ => None,
        }
    }
}
pub fn s_uenum() -> String {
    format!("(enum (0 unit) (4 (struct (list (u 1) 1))) (5 (struct {S_UINNER})) (200 (struct (list (u 2) 2))) (201 (struct (list (u 1) 1))))")
}

/// An unsized struct spanning every container (sized part first, unsized fields in order).
#[unsized_type]
pub struct UBig {
    pub s1: u8,
    pub s2: PackedValue<u16>,
    pub s3: ZcInner,
    #[unsized_start]
    pub l8: List<u8, u8>,
    pub l16: List<PackedValue<u16>, u16>,
    pub l32: List<ZcInner>,
    pub l64: List<u8, u64>,
    pub set: Set<u8, u8>,
    pub map: Map<u8, PackedValue<u32>, u16>,
    pub name: UnsizedString,
    pub ul: UnsizedList<List<u8, u8>>,
    pub um: UnsizedMap<PackedValue<u16>, UInner>,
    pub uu: UnsizedList<UnsizedList<List<u8, u8>>>,
    pub e: UEnum,
    pub tail: RemainingBytes,
}
impl FromVal for UBigOwned {
    fn from_val(v: &Val) -> Option<Self> {
        let Val::Seq(vs) = v else { return None };
        let [s1, s2, s3, l8, l16, l32, l64, set, map, name, ul, um, uu, e, tail] = vs.as_slice() else { return None };
        Some(UBigOwned {
            s1: FromVal::from_val(s1)?,
            s2: FromVal::from_val(s2)?,
            s3: FromVal::from_val(s3)?,
            l8: FromVal::from_val(l8)?,
            l16: FromVal::from_val(l16)?,
            l32: FromVal::from_val(l32)?,
            l64: FromVal::from_val(l64)?,
            set: FromVal::from_val(set)?,
            map: FromVal::from_val(map)?,
            name: FromVal::from_val(name)?,
            ul: FromVal::from_val(ul)?,
            um: FromVal::from_val(um)?,
            uu: FromVal::from_val(uu)?,
            e: FromVal::from_val(e)?,
            tail: Raw::from_val(tail)?.0,
        })
    }
}
pub fn s_ubig() -> String {
    format!(
        "(struct (u 1) (u 2) {S_ZCINNER} (list (u 1) 1) (list (u 2) 2) (list {S_ZCINNER} 4) (list (u 1) 8) (set (u 1) 1) (map (u 1) (u 4) 2) str (ulist (list (u 1) 1)) (umap (u 2) {S_UINNER}) (ulist (ulist (list (u 1) 1))) {} rem)",
        s_uenum()
    )
}

// ------------------------------------------------------------------------------------------------ table
/// Expected top-level field names (declaration order) of the struct types; `None` = not a named struct.
pub fn expected_fields(name: &str) -> Option<&'static [&'static str]> {
    Some(match name {
        "BInner" => &["a", "b", "flag"],
        "BBig" => &["amount", "key", "opt", "items", "name", "arr", "m", "st", "e", "big", "fl", "f4", "nested", "tup", "boxed", "tail"],
        "ZcInner" => &["x", "y", "k"],
        "SkipMid" => &["version", "reserved", "limit"],
        "SkipFirst" => &["hidden", "b"],
        "SkipLast" => &["a", "b", "pad"],
        "ZcBig" => &["a", "b", "c", "inner", "arr", "last"],
        "UNested" => &["tag", "bytes", "tail"],
        "UInner" => &["tag", "bytes", "words"],
        "UBig" => &["s1", "s2", "s3", "l8", "l16", "l32", "l64", "set", "map", "name", "ul", "um", "uu", "e", "tail"],
        _ => return None,
    })
}

pub struct TyEntry {
    pub name: &'static str,
    pub shape: String,
    pub idl: fn(&mut IdlDefinition) -> IdlTypeDef,
    /// the real serializer on the value described by a `Val` (None: ill-typed value text)
    pub ser: fn(&Val) -> Option<Vec<u8>>,
    /// `#[type_to_idl(skip)]` on field `k` (the IDL describes the first `k` fields): (k, byte size of the
    /// hidden fields — fixed-size in every harness type)
    pub skip: Option<(usize, usize)>,
}

fn idl_of<T: TypeToIdl + ?Sized>(def: &mut IdlDefinition) -> IdlTypeDef {
    T::type_to_idl(def).expect("type_to_idl")
}
fn ser_borsh<T: FromVal + BorshSerialize>(v: &Val) -> Option<Vec<u8>> {
    borsh::to_vec(&T::from_val(v)?).ok()
}
fn ser_pod<T: FromVal + bytemuck::NoUninit>(v: &Val) -> Option<Vec<u8>> {
    Some(bytemuck::bytes_of(&T::from_val(v)?).to_vec())
}
fn ser_unsized<U: FromOwned + ?Sized>(v: &Val) -> Option<Vec<u8>>
where
    U::Owned: FromVal,
{
    let owned = <U::Owned as FromVal>::from_val(v)?;
    let n = U::byte_size(&owned);
    let mut buf = vec![0u8; n];
    let mut slice: &mut [u8] = &mut buf;
    let written = U::from_owned(owned, &mut slice).ok()?;
    if written != n || !slice.is_empty() {
        return None;
    }
    Some(buf)
}

macro_rules! e {
    ($name:literal, $shape:expr, $idl:ty, $ser:expr) => {
        TyEntry { name: $name, shape: $shape.to_string(), idl: idl_of::<$idl>, ser: $ser, skip: None }
    };
}

pub fn table() -> Vec<TyEntry> {
    vec![
        // primitives through borsh
        e!("u8", "(u 1)", u8, ser_borsh::<u8>),
        e!("i16", "(i 2)", i16, ser_borsh::<i16>),
        e!("u32", "(u 4)", u32, ser_borsh::<u32>),
        e!("i64", "(i 8)", i64, ser_borsh::<i64>),
        e!("u128", "(u 16)", u128, ser_borsh::<u128>),
        e!("bool", "bool", bool, ser_borsh::<bool>),
        e!("f32", "(f 4)", f32, ser_borsh::<f32>),
        e!("pubkey", "pubkey", Pubkey, ser_borsh::<Pubkey>),
        e!("string", "str", String, ser_borsh::<String>),
        e!("opt_u16", "(opt (u 2))", Option<u16>, ser_borsh::<Option<u16>>),
        e!("vec_u16", "(list (u 2) 4)", Vec<u16>, ser_borsh::<Vec<u16>>),
        e!("arr_u32_4", "(arr (u 4) 4)", [u32; 4], ser_borsh::<[u32; 4]>),
        e!("bmap", "(map (u 2) (list (u 1) 4) 4)", BTreeMap<u16, Vec<u8>>, ser_borsh::<BTreeMap<u16, Vec<u8>>>),
        e!("bset", "(set (u 4) 4)", BTreeSet<u32>, ser_borsh::<BTreeSet<u32>>),
        e!("remaining_data", "rem", RemainingData, ser_borsh::<RemainingData>),
        e!("BInner", S_BINNER, BInner, ser_borsh::<BInner>),
        e!("BEnum", S_BENUM, BEnum, ser_borsh::<BEnum>),
        e!("BTuple", S_BTUPLE, BTuple, ser_borsh::<BTuple>),
        e!("BBig", s_bbig(), BBig, ser_borsh::<BBig>),
        e!("BMixed", S_BMIXED, BMixed, ser_borsh::<BMixed>),
        TyEntry { skip: Some((1, 6)), ..e!("SkipMid", "(struct (u 1) (u 2) (u 4))", SkipMid, ser_borsh::<SkipMid>) },
        TyEntry { skip: Some((0, 3)), ..e!("SkipFirst", "(struct (u 2) (u 1))", SkipFirst, ser_borsh::<SkipFirst>) },
        TyEntry { skip: Some((2, 3)), ..e!("SkipLast", "(struct (list (u 1) 4) (u 4) (arr (u 1) 3))", SkipLast, ser_borsh::<SkipLast>) },
        // zero-copy (bytemuck)
        e!("packed_u64", "(u 8)", PackedValue<u64>, ser_pod::<PackedValue<u64>>),
        e!("ZcInner", S_ZCINNER, ZcInner, ser_pod::<ZcInner>),
        e!("ZcSide", S_ZCSIDE, ZcSide, ser_pod::<ZcSide>),
        e!("ZcMixed", S_ZCMIXED, ZcMixed, ser_pod::<ZcMixed>),
        e!("ZcBig", s_zcbig(), ZcBig, ser_pod::<ZcBig>),
        // unsized containers (FromOwned)
        e!("list_u8_u8", "(list (u 1) 1)", List<u8, u8>, ser_unsized::<List<u8, u8>>),
        e!("list_p16_u16", "(list (u 2) 2)", List<PackedValue<u16>, u16>, ser_unsized::<List<PackedValue<u16>, u16>>),
        e!("list_zc_u32", format!("(list {S_ZCINNER} 4)"), List<ZcInner>, ser_unsized::<List<ZcInner>>),
        e!("list_u8_u64", "(list (u 1) 8)", List<u8, u64>, ser_unsized::<List<u8, u64>>),
        e!("set_u8_u16", "(set (u 1) 2)", Set<u8, u16>, ser_unsized::<Set<u8, u16>>),
        e!("map_u8_p32_u8", "(map (u 1) (u 4) 1)", Map<u8, PackedValue<u32>, u8>, ser_unsized::<Map<u8, PackedValue<u32>, u8>>),
        e!("ustring", "str", UnsizedString, ser_unsized::<UnsizedString>),
        e!("ulist_list", "(ulist (list (u 1) 1))", UnsizedList<List<u8, u8>>, ser_unsized::<UnsizedList<List<u8, u8>>>),
        e!("ulist_ulist", "(ulist (ulist (list (u 2) 2)))", UnsizedList<UnsizedList<List<PackedValue<u16>, u16>>>, ser_unsized::<UnsizedList<UnsizedList<List<PackedValue<u16>, u16>>>>),
        e!("umap_u8_list", "(umap (u 1) (list (u 1) 4))", UnsizedMap<u8, List<u8>>, ser_unsized::<UnsizedMap<u8, List<u8>>>),
        e!("umap_p16_inner", format!("(umap (u 2) {S_UINNER})"), UnsizedMap<PackedValue<u16>, UInner>, ser_unsized::<UnsizedMap<PackedValue<u16>, UInner>>),
        e!("ulist_inner", format!("(ulist {S_UINNER})"), UnsizedList<UInner>, ser_unsized::<UnsizedList<UInner>>),
        e!("UInner", S_UINNER, UInner, ser_unsized::<UInner>),
        e!("UNested", S_UNESTED, UNested, ser_unsized::<UNested>),
        e!("UEnum", s_uenum(), UEnum, ser_unsized::<UEnum>),
        e!("UBig", s_ubig(), UBig, ser_unsized::<UBig>),
    ]
}
