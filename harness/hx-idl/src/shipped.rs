//! The shipped programs: per-instruction rows (IDL key, runtime discriminant constant, client metas
//! for the canonical client inputs). The lists themselves are in `shipped_gen.rs`.
use crate::sx::Slot;
use hx_common::hex;
use star_frame::{
    account_set::ClientAccountSet,
    instruction::{InstructionDiscriminant, StarFrameInstruction},
    prelude::*,
    star_frame_idl::item_source,
};

/// Counter behind the "fresh" keys: byte 0 = 0xF5, byte 1 = 0xE5, then a running number.
pub struct Ctr {
    pub next: u32,
    /// `true`: every `Option<_>` client input is `Some` (optional accounts present, address overrides
    /// left... see `Dummy for Option<Pubkey>`); `false`: every `Option<_>` is `None`.
    pub present: bool,
}

pub fn fresh_key(n: u32) -> Pubkey {
    let mut k = [0u8; 32];
    k[0] = 0xF5;
    k[1] = 0xE5;
    k[2..6].copy_from_slice(&n.to_le_bytes());
    k[31] = 0x5F;
    Pubkey::new_from_array(k)
}
pub fn is_fresh(k: &Pubkey) -> bool {
    let b = k.as_ref();
    b[0] == 0xF5 && b[1] == 0xE5 && b[31] == 0x5F && b[6..31].iter().all(|x| *x == 0)
}

/// Canonical client inputs, built from the TYPE of the client-accounts value alone.
pub trait Dummy {
    fn dummy(c: &mut Ctr) -> Self;
}
impl Dummy for Pubkey {
    fn dummy(c: &mut Ctr) -> Self {
        c.next += 1;
        fresh_key(c.next)
    }
}
impl Dummy for () {
    fn dummy(_: &mut Ctr) -> Self {}
}
/// `Option<Pubkey>` is both "optional account" (`Option<AccountInfo>`) and "address override"
/// (`Program<T>`, `Sysvar<T>`): `None` in both modes would hide the flags of optional accounts,
/// `Some` would override fixed addresses. So: present-mode passes `None` too — and optional single
/// accounts are distinguished by the type `Option<Option<Pubkey>>`/… only when nested. To see the
/// flags of present optional accounts the harness uses `Present<T>` rows (see `metas_of`).
impl<T: Dummy> Dummy for Option<T> {
    fn dummy(c: &mut Ctr) -> Self {
        if c.present {
            Some(T::dummy(c))
        } else {
            None
        }
    }
}
impl<T: Dummy> Dummy for Vec<T> {
    fn dummy(c: &mut Ctr) -> Self {
        vec![T::dummy(c), T::dummy(c)]
    }
}
impl<T: Dummy, const N: usize> Dummy for [T; N] {
    fn dummy(c: &mut Ctr) -> Self {
        std::array::from_fn(|_| T::dummy(c))
    }
}

macro_rules! dummy_struct {
    ($t:ty { $($f:ident),* }) => {
        impl Dummy for $t {
            #[allow(unused_variables)]
            fn dummy(c: &mut $crate::shipped::Ctr) -> Self {
                Self { $($f: Dummy::dummy(c)),* }
            }
        }
    };
}
pub(crate) use dummy_struct;

/// Client metas -> slots: a key is `f` (one of the fresh keys), `p` (the program id) or its hex.
pub fn slots_of(prog: &Pubkey, metas: &[AccountMeta]) -> Vec<Slot> {
    metas
        .iter()
        .map(|m| Slot {
            signer: m.is_signer,
            writable: m.is_writable,
            key: if is_fresh(&m.pubkey) {
                "f".into()
            } else if &m.pubkey == prog {
                "p".into()
            } else {
                hex(m.pubkey.as_ref())
            },
        })
        .collect()
}

pub fn metas_of<A: ClientAccountSet>(prog: &Pubkey, present: bool) -> Vec<Slot>
where
    A::ClientAccounts: Dummy,
{
    let mut c = Ctr { next: 0, present };
    let accounts = <A::ClientAccounts as Dummy>::dummy(&mut c);
    let mut metas = vec![];
    A::extend_account_metas(prog, &accounts, &mut metas);
    slots_of(prog, &metas)
}

pub struct IxRow {
    /// key in `IdlDefinition::instructions`
    pub source: String,
    /// `bytes_of(&<I as InstructionDiscriminant<Set>>::DISCRIMINANT)` — the constant dispatch matches on
    pub disc: Vec<u8>,
    /// first bytes of the data `MakeInstruction` would send = the same constant through the client path
    pub metas: fn(bool) -> Vec<Slot>,
}

pub fn ix_row<P, I>() -> IxRow
where
    P: StarFrameProgram,
    I: StarFrameInstruction + InstructionDiscriminant<P::InstructionSet> + 'static,
    I::Accounts<'static, 'static>: ClientAccountSet,
    <I::Accounts<'static, 'static> as ClientAccountSet>::ClientAccounts: Dummy,
{
    IxRow {
        source: item_source::<I>(),
        disc: bytemuck::bytes_of(&<I as InstructionDiscriminant<P::InstructionSet>>::DISCRIMINANT).to_vec(),
        metas: |present| metas_of::<I::Accounts<'static, 'static>>(&P::ID, present),
    }
}

/// `account_test::RunAccountsInner { inner2: <single account> }` has a PRIVATE field, so its generated
/// client struct `{ inner2: Pubkey }` cannot be built with a struct expression from here. It is a
/// one-field struct around a `Pubkey` (same size — checked by `transmute` at compile time).
impl Dummy for account_test::RunAccountsInnerClientAccounts {
    fn dummy(c: &mut Ctr) -> Self {
        let k: Pubkey = Dummy::dummy(c);
        unsafe { std::mem::transmute::<Pubkey, account_test::RunAccountsInnerClientAccounts>(k) }
    }
}
