//! C17 — The generated IDL is structurally valid and faithful to runtime behaviour.
//!
//! Op lines (one per (program, check) or (type, value)); s-expression grammars in `sx.rs` /
//! `/verif/notes/C17.md`:
//!   `det <prog>`                         IDL generated twice is byte-identical JSON            → `ok`
//!   `verify <prog>`                      `verify_idl_definitions` alone (compatibility mode)     → `ok`
//!   `verify-strict <prog>`               `verify_idl_definitions_strict` + referenced programs   → `ok`
//!   `count <prog> <n_ix> <n_acct>`       the harness table covers every IDL instruction/account → `ok n n`
//!   `accrefs <prog>`                     every program_accounts reference resolves (accounts table / referenced IDL) → `ok`
//!   `sameidl <p> <q>`                    shared items of two programs generated in different orders are identical → `ok`
//!   `disc <prog> ix|acct <source> <hex>` IDL discriminant (in the op) vs runtime constant (answer) → `ok <hex>`
//!   `flat <prog> <ix> <progid> <present> <idlset>`   flattened IDL list (model) vs client metas (answer)
//!   `lower <prog> <ix> <dischex> <idlset>`           Codama lowering of that instruction
//!   `cnames <prog> ix|ty (<names>)` / `cnames-inorder <prog> acct (<names>)`   names/order in the ProgramNode
//!   `usize <hex>`                        `discriminant_to_usize` through an enum variant
//!   `fields <name> <k> (<names>)`      field names+order of a harness struct type in the IDL (op: Rust declaration order; k = number visible)
//!   `ty <name> <shape>` / `enc <name> <shape> <val>` / `dec <idlty> <hex>`       type layouts
//!   `vset <name> <id|-> (<vfields>)` / `vflat <name> <id> <progid> <present> <idlset> (<client>)`  multi-variant sets
//!   `set <name> <setshape>` / `metas <name> <setshape> <progid> <present>`      harness account sets
use crate::{
    reuse, sets, shipped,
    shipped::IxRow,
    shipped_gen as g,
    sx::{self, Sx, Val},
    types,
};
use hx_common::{hex, unhex, Args, Recorder, Rng};
use star_frame::{
    idl::{AccountSetToIdl, ProgramToIdl},
    prelude::*,
    star_frame_idl::{
        account_set::IdlAccountSetDef,
        item_source,
        ty::{IdlEnumVariant, IdlType, IdlTypeDef},
        verifier::{verify_idl_definitions, verify_idl_definitions_strict},
        IdlDefinition, ItemInfo, ProgramNode,
    },
};
use std::collections::{BTreeMap, BTreeSet};

// ------------------------------------------------------------------------------------------------ program table
pub struct Prog {
    pub name: &'static str,
    pub id: Pubkey,
    pub gen: fn() -> IdlDefinition,
    pub ixs: Vec<IxRow>,
    /// (IDL key, runtime `ProgramAccount::DISCRIMINANT` bytes)
    pub accts: Vec<(String, Vec<u8>)>,
    /// one of the shipped example programs (must convert to Codama)
    pub example: bool,
}

fn acct<T: ProgramAccount + ?Sized>() -> (String, Vec<u8>) {
    (item_source::<T>(), bytemuck::bytes_of(&T::DISCRIMINANT).to_vec())
}

fn gen_of<P: ProgramToIdl>() -> IdlDefinition
where
    <P as StarFrameProgram>::InstructionSet: star_frame::idl::InstructionSetToIdl,
{
    P::program_to_idl().expect("program_to_idl")
}

pub fn programs() -> Vec<Prog> {
    use star_frame::program::system::System;
    use star_frame_spl::{associated_token::AssociatedToken, token::Token};
    vec![
        Prog { name: "system", id: System::ID, gen: gen_of::<System>, ixs: g::ixs_star_frame_system(), accts: vec![], example: false },
        Prog { name: "token", id: Token::ID, gen: gen_of::<Token>, ixs: g::ixs_star_frame_spl_token(), accts: vec![], example: false },
        Prog {
            name: "ata",
            id: AssociatedToken::ID,
            gen: gen_of::<AssociatedToken>,
            ixs: g::ixs_star_frame_spl_associatedtoken(),
            accts: vec![],
            example: false,
        },
        Prog {
            name: "counter",
            id: counter::CounterProgram::ID,
            gen: gen_of::<counter::CounterProgram>,
            ixs: g::ixs_counter_counterprogram(),
            accts: vec![acct::<counter::CounterAccount>()],
            example: true,
        },
        Prog {
            name: "simple_counter",
            id: simple_counter::CounterProgram::ID,
            gen: gen_of::<simple_counter::CounterProgram>,
            ixs: g::ixs_simple_counter_counterprogram(),
            accts: vec![acct::<simple_counter::CounterAccount>()],
            example: true,
        },
        Prog {
            name: "account_test",
            id: account_test::AccountTest::ID,
            gen: gen_of::<account_test::AccountTest>,
            ixs: g::ixs_account_test_accounttest(),
            accts: vec![acct::<account_test::AccountData>(), acct::<account_test::MyBorshAccount>()],
            example: true,
        },
        Prog {
            name: "marketplace",
            id: marketplace::Marketplace::ID,
            gen: gen_of::<marketplace::Marketplace>,
            ixs: g::ixs_marketplace_marketplace(),
            accts: vec![acct::<marketplace::state::Market>()],
            example: true,
        },
        Prog {
            name: "bench",
            id: bench::Bench::ID,
            gen: gen_of::<bench::Bench>,
            ixs: g::ixs_bench_bench(),
            accts: vec![acct::<bench::Empty>(), acct::<bench::Sized>(), acct::<bench::Unsized>()],
            example: true,
        },
        Prog {
            name: "hx",
            id: crate::HxIdl::ID,
            gen: gen_of::<crate::HxIdl>,
            ixs: vec![
                shipped::ix_row::<crate::HxIdl, sets::SetBasic>(),
                shipped::ix_row::<crate::HxIdl, sets::SetOpt>(),
                shipped::ix_row::<crate::HxIdl, sets::SetMany>(),
                shipped::ix_row::<crate::HxIdl, sets::SetNested>(),
                shipped::ix_row::<crate::HxIdl, sets::SetInit>(),
                shipped::ix_row::<crate::HxIdl, sets::SetOne>(),
                shipped::ix_row::<crate::HxIdl, sets::PdaD1>(),
                shipped::ix_row::<crate::HxIdl, sets::PdaD2>(),
                shipped::ix_row::<crate::HxIdl, sets::PdaD3>(),
                shipped::ix_row::<crate::HxIdl, sets::SetPass>(),
                shipped::ix_row::<crate::HxIdl, sets::SetManyMid>(),
                shipped::ix_row::<crate::HxIdl, sets::SetRestMid>(),
                shipped::ix_row::<crate::HxIdl, sets::SetTwoMany>(),
                shipped::ix_row::<crate::HxIdl, sets::SetNestedManyMid>(),
                shipped::ix_row::<crate::HxIdl, sets::SetOptFlat>(),
                shipped::ix_row::<crate::HxIdl, sets::SetEmpty>(),
                shipped::ix_row::<crate::HxIdl, sets::WithArgs>(),
            ],
            accts: vec![acct::<sets::HxZc>(), acct::<sets::HxUnsized>(), acct::<sets::HxBorsh>()],
            example: false,
        },
        Prog {
            name: "reuse_a",
            id: reuse::ReuseA::ID,
            gen: gen_of::<reuse::ReuseA>,
            ixs: vec![
                shipped::ix_row::<reuse::ReuseA, reuse::TouchVault>(),
                shipped::ix_row::<reuse::ReuseA, reuse::SetLimits>(),
                shipped::ix_row::<reuse::ReuseA, reuse::TouchBook>(),
                shipped::ix_row::<reuse::ReuseA, reuse::TouchLimits>(),
            ],
            accts: vec![acct::<reuse::Vault>(), acct::<reuse::Limits>(), acct::<reuse::Book>()],
            example: false,
        },
        Prog {
            name: "reuse_b",
            id: reuse::ReuseB::ID,
            gen: gen_of::<reuse::ReuseB>,
            ixs: vec![
                shipped::ix_row::<reuse::ReuseB, reuse::TouchLimits>(),
                shipped::ix_row::<reuse::ReuseB, reuse::TouchBook>(),
                shipped::ix_row::<reuse::ReuseB, reuse::SetLimits>(),
                shipped::ix_row::<reuse::ReuseB, reuse::TouchVault>(),
            ],
            accts: vec![acct::<reuse::Vault>(), acct::<reuse::Limits>(), acct::<reuse::Book>()],
            example: false,
        },
        Prog {
            name: "reuse_c",
            id: reuse::ReuseC::ID,
            gen: gen_of::<reuse::ReuseC>,
            ixs: vec![shipped::ix_row::<reuse::ReuseC, reuse::SetLimits>(), shipped::ix_row::<reuse::ReuseC, reuse::TouchBook>()],
            accts: vec![acct::<reuse::Vault>(), acct::<reuse::Limits>(), acct::<reuse::Book>()],
            example: false,
        },
        Prog {
            name: "hxwide",
            id: sets::wide::HxWide::ID,
            gen: gen_of::<sets::wide::HxWide>,
            ixs: vec![shipped::ix_row::<sets::wide::HxWide, sets::wide::WideA>(), shipped::ix_row::<sets::wide::HxWide, sets::wide::WideB>()],
            accts: vec![acct::<sets::wide::WideAcct>()],
            example: false,
        },
    ]
}

shipped::dummy_struct!(sets::SetBasicClientAccounts { payer, sys, plain, ro_signer, w, sw, rent, me, nm, ns, ts });
shipped::dummy_struct!(sets::PairClientAccounts { left, right });
shipped::dummy_struct!(sets::SetOptClientAccounts { a, b, c, mid, grp, last });
shipped::dummy_struct!(sets::SetManyClientAccounts { first, arr, many });
shipped::dummy_struct!(sets::OneClientAccounts { only });
impl shipped::Dummy for sets::TupleClientAccounts {
    fn dummy(c: &mut shipped::Ctr) -> Self {
        Self(shipped::Dummy::dummy(c), shipped::Dummy::dummy(c))
    }
}
shipped::dummy_struct!(sets::EmptyClientAccounts {});
shipped::dummy_struct!(sets::SetNestedClientAccounts { head, pair, boxed, one, tup, none, bx });
shipped::dummy_struct!(sets::SetInitClientAccounts { funder, owner, sys, zc, un, existing, seeded, borsh, val });
shipped::dummy_struct!(sets::SetOneClientAccounts { only });
shipped::dummy_struct!(sets::PdaD1ClientAccounts { payer, market, mint, owner, v1, v2, v3, vmix, vnone });
shipped::dummy_struct!(sets::PdaD2ClientAccounts { payer, mint, market, owner, g, top });
shipped::dummy_struct!(sets::PdaD3ClientAccounts { payer, mint, vault, h, again });
shipped::dummy_struct!(reuse::TouchVaultClientAccounts { owner, vault });
shipped::dummy_struct!(reuse::TouchLimitsClientAccounts { owner, limits, other_limits });
shipped::dummy_struct!(reuse::TouchBookClientAccounts { book, limits });
shipped::dummy_struct!(sets::SetManyMidClientAccounts { vaults, authority });
shipped::dummy_struct!(sets::SetRestMidClientAccounts { head, others, tail });
shipped::dummy_struct!(sets::SetTwoManyClientAccounts { head, pair, others });
shipped::dummy_struct!(sets::InnerManyClientAccounts { who, list });
shipped::dummy_struct!(sets::SetNestedManyMidClientAccounts { inner, after });
shipped::dummy_struct!(sets::SetOptFlatClientAccounts { a, b, mid, last });
shipped::dummy_struct!(sets::SetPassClientAccounts { a, b, c, d, e, f, g, h });
shipped::dummy_struct!(sets::SetVariantsClientAccounts { a, b, c, d, e, f, g, h });
shipped::dummy_struct!(sets::SetVariants2ClientAccounts { x, y, z });
shipped::dummy_struct!(sets::wide::WideAClientAccounts { who, acct });
use shipped::Dummy;

/// `program_accounts` entries (namespace, source) anywhere in the definition's JSON.
fn collect_account_refs(v: &serde_json::Value, out: &mut Vec<(Option<String>, String)>) {
    match v {
        serde_json::Value::Object(m) => {
            for (k, x) in m {
                if k == "program_accounts" {
                    for r in x.as_array().cloned().unwrap_or_default() {
                        out.push((r["namespace"].as_str().map(|s| s.to_string()), r["source"].as_str().unwrap_or("").to_string()));
                    }
                }
                collect_account_refs(x, out);
            }
        }
        serde_json::Value::Array(a) => a.iter().for_each(|x| collect_account_refs(x, out)),
        _ => {}
    }
}

/// Namespaces an IDL refers to (`"namespace": "<name>"` anywhere in the JSON).
fn referenced_namespaces(v: &serde_json::Value, out: &mut BTreeSet<String>) {
    match v {
        serde_json::Value::Object(m) => {
            for (k, x) in m {
                if k == "namespace" {
                    if let Some(s) = x.as_str() {
                        out.insert(s.to_string());
                    }
                }
                referenced_namespaces(x, out);
            }
        }
        serde_json::Value::Array(a) => a.iter().for_each(|x| referenced_namespaces(x, out)),
        _ => {}
    }
}

fn err_class(e: &star_frame::star_frame_idl::Error) -> String {
    use star_frame::star_frame_idl::Error as E;
    let inner = |s: &str| -> String {
        for k in [
            "ManyAccountSetsMustComeLast",
            "RemainingAccountsCannotHaveDefaults",
            "ManySetsMustBeSingle",
            "UnsupportedAccountSetType",
            "UnsupportedAccountType",
            "DiscriminantTooLarge",
        ] {
            if s.contains(k) {
                return k.to_string();
            }
        }
        "other".into()
    };
    format!(
        "err:{}",
        match e {
            E::ManyAccountSetsMustComeLast => "ManyAccountSetsMustComeLast".into(),
            E::RemainingAccountsCannotHaveDefaults(_) => "RemainingAccountsCannotHaveDefaults".into(),
            E::ManySetsMustBeSingle => "ManySetsMustBeSingle".into(),
            E::UnsupportedAccountSetType(_) => "UnsupportedAccountSetType".into(),
            E::UnsupportedAccountType(_) => "UnsupportedAccountType".into(),
            E::DiscriminantTooLarge(_) => "DiscriminantTooLarge".into(),
            E::CodamaConversion(s) => {
                if std::env::var("HX_DEBUG").is_ok() {
                    eprintln!("codama error: {s}");
                }
                inner(s)
            }
            other => {
                let s = format!("{other:?}");
                if std::env::var("HX_DEBUG").is_ok() {
                    eprintln!("codama error: {s}");
                }
                inner(&s)
            }
        }
    )
}

// ------------------------------------------------------------------------------------------------ Codama helpers
fn jget<'a>(v: &'a serde_json::Value, path: &[&str]) -> &'a serde_json::Value {
    let mut v = v;
    for p in path {
        v = &v[*p];
    }
    v
}

/// `name:<signer><writable><optional>:<addr|->` for each account node / remaining-accounts node.
fn show_codama_accounts(ix: &serde_json::Value) -> (String, String) {
    let one = |a: &serde_json::Value, name: String| -> String {
        let signer = match &a["isSigner"] {
            serde_json::Value::Bool(b) => *b,
            serde_json::Value::Null => false, // omitted = default (false)
            _ => true,                        // "either"
        };
        let addr = match jget(a, &["defaultValue", "kind"]).as_str() {
            Some("publicKeyValueNode") => {
                let s = jget(a, &["defaultValue", "publicKey"]).as_str().unwrap_or("");
                s.parse::<Pubkey>().map(|k| hex(k.as_ref())).unwrap_or_else(|_| "?".into())
            }
            _ => "-".to_string(),
        };
        // accounts a PDA default value looks its account seeds up in, in seed order
        let mut seed_accounts = vec![];
        if jget(a, &["defaultValue", "kind"]).as_str() == Some("pdaValueNode") {
            for sd in jget(a, &["defaultValue", "seeds"]).as_array().cloned().unwrap_or_default() {
                if jget(&sd, &["value", "kind"]).as_str() == Some("accountValueNode") {
                    seed_accounts.push(jget(&sd, &["value", "name"]).as_str().unwrap_or("?").to_string());
                }
            }
        }
        format!(
            "{name}:{}{}{}:{addr}{}",
            signer as u8,
            a["isWritable"].as_bool().unwrap_or(false) as u8,
            a["isOptional"].as_bool().unwrap_or(false) as u8,
            if seed_accounts.is_empty() { String::new() } else { format!(":{}", seed_accounts.join(",")) }
        )
    };
    let join = |v: Vec<String>| if v.is_empty() { "-".to_string() } else { v.join(" ") };
    let accts = ix["accounts"].as_array().cloned().unwrap_or_default();
    let rems = ix["remainingAccounts"].as_array().cloned().unwrap_or_default();
    (
        join(accts.iter().map(|a| one(a, a["name"].as_str().unwrap_or("?").to_string())).collect()),
        join(rems.iter().map(|a| one(a, jget(a, &["value", "name"]).as_str().unwrap_or("?").to_string())).collect()),
    )
}

/// The instruction lowered alone: a copy of the IDL holding only this instruction (types and account
/// sets kept, accounts dropped), so that another instruction's failure does not mask this one.
fn lower_one(idl: &IdlDefinition, source: &str) -> Result<serde_json::Value, String> {
    let mut sub = idl.clone();
    sub.instructions.retain(|k, _| k == source);
    sub.accounts.clear();
    let node: ProgramNode = ProgramNode::try_from(sub).map_err(|e| err_class(&e))?;
    let v = serde_json::to_value(&node).map_err(|_| "err:other".to_string())?;
    v["instructions"].as_array().and_then(|a| a.first().cloned()).ok_or_else(|| "err:other".to_string())
}

fn codama_disc(ix: &serde_json::Value) -> (String, usize) {
    for a in ix["arguments"].as_array().cloned().unwrap_or_default() {
        if a["name"] == "discriminator" {
            let data = jget(&a, &["defaultValue", "data"]).as_str().unwrap_or("").to_string();
            let size = jget(&a, &["type", "size"]).as_u64().unwrap_or(0) as usize;
            return (if data.is_empty() { "-".into() } else { data }, size);
        }
    }
    ("?".into(), 0)
}

/// `discriminant_to_usize` is private: reach it through an enum type with one variant.
fn usize_via_enum(d: &[u8]) -> String {
    let mut def = IdlDefinition::default();
    def.metadata.crate_metadata.name = "probe".into();
    def.types.insert(
        "probe::E".into(),
        IdlType {
            info: ItemInfo { name: "E".into(), source: "probe::E".into(), description: vec![] },
            generics: vec![],
            type_def: IdlTypeDef::Enum {
                size: Box::new(IdlTypeDef::U8),
                variants: vec![IdlEnumVariant { name: "V".into(), discriminant: d.to_vec(), description: vec![], type_def: None }],
            },
        },
    );
    match ProgramNode::try_from(def) {
        Err(e) => err_class(&e),
        Ok(node) => {
            let v = serde_json::to_value(&node).unwrap();
            match jget(&v, &["definedTypes"]).as_array().and_then(|a| a.first()).map(|t| jget(t, &["type", "variants"])[0]["discriminator"].clone()) {
                Some(serde_json::Value::Number(n)) => format!("ok {n}"),
                _ => "err:other".into(),
            }
        }
    }
}

// ------------------------------------------------------------------------------------------------ executor
struct Env {
    progs: Vec<Prog>,
    idls: BTreeMap<&'static str, IdlDefinition>,
    types: Vec<types::TyEntry>,
    type_idl: IdlDefinition,
    type_frag: BTreeMap<&'static str, IdlTypeDef>,
    sets: Vec<sets::SetEntry>,
    vsets: Vec<sets::VSet>,
    /// value of the last `enc` line (what `dec` must give back)
    last_enc: Option<(String, Val, usize)>,
}

impl Env {
    fn new() -> Env {
        let progs = programs();
        let idls = progs.iter().map(|p| (p.name, (p.gen)())).collect();
        let types = types::table();
        let mut type_idl = IdlDefinition::default();
        type_idl.metadata.crate_metadata.name = env!("CARGO_PKG_NAME").to_string();
        let mut type_frag = BTreeMap::new();
        for t in &types {
            type_frag.insert(t.name, (t.idl)(&mut type_idl));
        }
        Env { progs, idls, types, type_idl, type_frag, sets: sets::set_table(), vsets: sets::vset_table(), last_enc: None }
    }
    fn prog(&self, name: &str) -> Option<&Prog> {
        self.progs.iter().find(|p| p.name == name)
    }
}

fn parse_present(s: &str) -> Option<bool> {
    match s {
        "0" => Some(false),
        "1" => Some(true),
        _ => None,
    }
}

/// Execute one op line against the real code; returns the canonical answer.
fn exec(env: &mut Env, rec: &mut Recorder, line: &str) -> String {
    let Some(xs) = sx::parse_line(line) else { return "bad-op".into() };
    let a = |i: usize| xs.get(i).and_then(|x| x.atom());
    let Some(op) = a(0) else { return "bad-op".into() };
    match (op, xs.len()) {
        ("det", 2) => {
            let Some(p) = a(1).and_then(|n| env.prog(n)) else { return "bad-op".into() };
            let j1 = serde_json::to_string(&(p.gen)()).unwrap();
            let j2 = serde_json::to_string(&(p.gen)()).unwrap();
            let j3 = serde_json::to_string(&env.idls[p.name]).unwrap();
            if j1 == j2 && j2 == j3 {
                "ok".into()
            } else {
                rec.fail("idl_generation_nondeterministic", line);
                "err:nondeterministic".into()
            }
        }
        ("verify", 2) => {
            let Some(p) = a(1).and_then(|n| env.prog(n)) else { return "bad-op".into() };
            match verify_idl_definitions([&env.idls[p.name]]) {
                Ok(()) => "ok".into(),
                Err(e) => {
                    rec.fail("generated_idl_fails_verifier", &format!("{line}: {e}"));
                    "err:verifier".into()
                }
            }
        }
        ("verify-strict", 2) => {
            let Some(p) = a(1).and_then(|n| env.prog(n)) else { return "bad-op".into() };
            let idl = &env.idls[p.name];
            let mut ns = BTreeSet::new();
            referenced_namespaces(&serde_json::to_value(idl).unwrap(), &mut ns);
            let mut set: Vec<&IdlDefinition> = vec![idl];
            for other in env.idls.values() {
                let n = other.metadata.crate_metadata.name.clone();
                if n != idl.metadata.crate_metadata.name && ns.contains(&n) && !set.iter().any(|d| d.metadata.crate_metadata.name == n) {
                    set.push(other);
                }
            }
            match verify_idl_definitions_strict(set.iter().copied()) {
                Ok(()) => "ok".into(),
                Err(e) => {
                    rec.fail("generated_idl_fails_strict_verifier", &format!("{line}: {e}"));
                    "err:verifier".into()
                }
            }
        }
        ("count", 4) => {
            let Some(p) = a(1).and_then(|n| env.prog(n)) else { return "bad-op".into() };
            let idl = &env.idls[p.name];
            let all_ix = idl.instructions.keys().all(|k| p.ixs.iter().any(|r| &r.source == k));
            let all_ac = idl.accounts.keys().all(|k| p.accts.iter().any(|r| &r.0 == k));
            if !all_ix || !all_ac || p.ixs.len() != idl.instructions.len() {
                rec.fail("harness_table_incomplete", &format!("{line}: idl ix {:?} accts {:?}", idl.instructions.keys().collect::<Vec<_>>(), idl.accounts.keys().collect::<Vec<_>>()));
            }
            // the converse: every account type the program's account sets use is described in `accounts`
            for (src, _) in &p.accts {
                if !idl.accounts.contains_key(src) {
                    rec.fail("account_type_missing_from_idl_accounts", &format!("{line}: {src} (idl accounts {:?})", idl.accounts.keys().collect::<Vec<_>>()));
                }
            }
            format!("ok {} {}", p.ixs.len(), p.accts.len())
        }
        ("accrefs", 2) => {
            // every `program_accounts` reference of every single-account slot resolves: in this definition's
            // `accounts` (own namespace) or in the referenced program's IDL, and names a type with a
            // runtime discriminant the table knows
            let Some(p) = a(1).and_then(|n| env.prog(n)) else { return "bad-op".into() };
            let idl = &env.idls[p.name];
            let mut refs = vec![];
            collect_account_refs(&serde_json::to_value(idl).unwrap(), &mut refs);
            let mut bad = 0;
            for (ns, src) in &refs {
                let ok = match ns {
                    None => idl.accounts.get(src).is_some_and(|ac| p.accts.iter().any(|(s, d)| s == src && *d == ac.discriminant)),
                    Some(ns) => env.idls.values().any(|o| &o.metadata.crate_metadata.name == ns && o.accounts.contains_key(src)) || idl.accounts.contains_key(src),
                };
                if !ok {
                    bad += 1;
                    rec.fail("dangling_program_account_reference", &format!("{line}: {ns:?} {src}"));
                }
            }
            if bad == 0 { "ok".into() } else { "err:dangling".into() }
        }
        ("sameidl", 3) => {
            // generation is order-independent: programs built from the same items in a different
            // instruction-set order describe every shared item identically
            let (Some(p), Some(q)) = (a(1).and_then(|n| env.prog(n)), a(2).and_then(|n| env.prog(n))) else { return "bad-op".into() };
            let (x, y) = (serde_json::to_value(&env.idls[p.name]).unwrap(), serde_json::to_value(&env.idls[q.name]).unwrap());
            let mut diffs = vec![];
            for table in ["instructions", "account_sets", "accounts", "types", "external_types"] {
                let (tx, ty) = (x[table].as_object().cloned().unwrap_or_default(), y[table].as_object().cloned().unwrap_or_default());
                for (k, v) in &tx {
                    match ty.get(k) {
                        Some(w) if w != v => diffs.push(format!("{table}/{k}")),
                        _ => {}
                    }
                }
                // an item both programs use must be in the same table of both
                let used = |idl: &serde_json::Value, k: &str| serde_json::to_string(idl).unwrap().contains(&format!("\"{k}\""));
                for k in tx.keys() {
                    if !ty.contains_key(k) && used(&y, k) {
                        diffs.push(format!("{table}/{k} missing in {}", q.name));
                    }
                }
                for k in ty.keys() {
                    if !tx.contains_key(k) && used(&x, k) {
                        diffs.push(format!("{table}/{k} missing in {}", p.name));
                    }
                }
            }
            if diffs.is_empty() {
                "ok".into()
            } else {
                rec.fail("idl_generation_depends_on_registration_order", &format!("{line}: {diffs:?}"));
                "err:order-dependent".into()
            }
        }
        ("disc", 5) => {
            let (Some(p), Some(kind), Some(source), Some(h)) = (a(1).and_then(|n| env.prog(n)), a(2), a(3), a(4)) else { return "bad-op".into() };
            let Some(idl_disc) = unhex(h) else { return "bad-op".into() };
            let runtime = match kind {
                "ix" => p.ixs.iter().find(|r| r.source == source).map(|r| r.disc.clone()),
                "acct" => p.accts.iter().find(|r| r.0 == source).map(|r| r.1.clone()),
                _ => None,
            };
            let Some(runtime) = runtime else { return "bad-op".into() };
            if runtime != idl_disc {
                rec.fail(if kind == "ix" { "idl_instruction_discriminant_differs" } else { "idl_account_discriminant_differs" }, &format!("{line}: runtime {}", hex(&runtime)));
            }
            format!("ok {}", hex(&runtime))
        }
        ("flat", 7) => {
            let (Some(p), Some(source), Some(present)) = (a(1).and_then(|n| env.prog(n)), a(2), a(4).and_then(parse_present)) else { return "bad-op".into() };
            let Some(row) = p.ixs.iter().find(|r| r.source == source) else { return "bad-op".into() };
            let idl = &env.idls[p.name];
            let Some(ix) = idl.instructions.get(source) else { return "bad-op".into() };
            let client = (row.metas)(present);
            // reference flattening of the REAL definition of this instruction vs the REAL client metas
            let mut want = vec![];
            sx::ref_flatten(idl, p.id.as_ref(), present, &ix.definition.account_set, &mut want);
            let same = want.len() == client.len()
                && want.iter().zip(&client).all(|(i, c)| {
                    i.signer == c.signer
                        && i.writable == c.writable
                        && (present || i.key == c.key || (c.key == "f" && i.key != "p" && i.key != "f"))
                });
            if !same {
                rec.fail("idl_accounts_differ_from_client_metas", &format!("{line}: idl [{}] client [{}]", sx::show_slots(false, &want), sx::show_slots(false, &client)));
            }
            format!("{} {}", if same { "ok" } else { "mismatch" }, sx::show_slots(present, &want))
        }
        ("lower", 6) => {
            let (Some(p), Some(source), Some(h)) = (a(1).and_then(|n| env.prog(n)), a(2), a(3)) else { return "bad-op".into() };
            let idl = &env.idls[p.name];
            let (Some(ix), Some(idl_disc)) = (idl.instructions.get(source), unhex(h)) else { return "bad-op".into() };
            match lower_one(idl, source) {
                Err(class) => {
                    if p.example {
                        let one_field = matches!(resolve_set(idl, &ix.definition.account_set), Some(IdlAccountSetDef::Single(_)));
                        rec.fail(
                            if one_field && class == "err:UnsupportedAccountSetType" { "codama_rejects_one_field_account_set" } else { "example_program_instruction_does_not_convert_to_codama" },
                            &format!("{line}: {class}"),
                        );
                    }
                    class
                }
                Ok(node) => {
                    let (accts, rems) = show_codama_accounts(&node);
                    let (dhex, dsize) = codama_disc(&node);
                    // oracle: leaves of the real IDL set in order, names = camelCase(path)
                    let mut want = vec![];
                    leaves(idl, &ix.definition.account_set, &mut vec![], &mut want);
                    let got_all: Vec<String> = [accts.as_str(), rems.as_str()].iter().filter(|s| **s != "-").flat_map(|s| s.split(' ')).map(|s| s.to_string()).collect();
                    if want != got_all {
                        let strip = |v: &Vec<String>| v.iter().map(|s| s.splitn(4, ':').take(3).collect::<Vec<_>>().join(":")).collect::<Vec<_>>();
                        rec.fail(
                            if strip(&want) == strip(&got_all) { "codama_pda_seed_resolves_to_wrong_account" } else { "codama_accounts_differ_from_idl" },
                            &format!("{line}: idl {want:?} codama {got_all:?}"),
                        );
                    }
                    // every account a PDA derives from must be an account of this very instruction
                    let names: Vec<&str> = got_all.iter().filter_map(|s| s.split(':').next()).collect();
                    for s in &got_all {
                        if let Some(seeds) = s.splitn(4, ':').nth(3) {
                            for sa in seeds.split(',') {
                                if !names.contains(&sa) {
                                    rec.fail("codama_pda_seed_names_unknown_account", &format!("{line}: {s}"));
                                }
                            }
                        }
                    }
                    if dhex != hex(&idl_disc) || dsize != idl_disc.len() {
                        rec.fail("codama_discriminant_differs", &format!("{line}: codama {dhex}/{dsize}"));
                    }
                    let want_name = codama_nodes::CamelCaseString::new(idl.types.get(&ix.definition.type_id.source).map(|t| t.info.name.clone()).unwrap_or_default()).to_string();
                    if node["name"].as_str() != Some(want_name.as_str()) {
                        rec.fail("codama_instruction_name_differs", &format!("{line}: codama {:?}", node["name"]));
                    }
                    format!("ok {dhex} {dsize} | {accts} | {rems}")
                }
            }
        }
        ("codama", 4) => {
            let Some(p) = a(1).and_then(|n| env.prog(n)) else { return "bad-op".into() };
            match ProgramNode::try_from(env.idls[p.name].clone()) {
                Ok(_) => "ok".into(),
                Err(e) => {
                    let class = err_class(&e);
                    if p.example {
                        let idl = &env.idls[p.name];
                        let one_field = idl.instructions.values().any(|ix| matches!(resolve_set(idl, &ix.definition.account_set), Some(IdlAccountSetDef::Single(_))));
                        rec.fail(
                            if one_field && class == "err:UnsupportedAccountSetType" { "codama_rejects_one_field_account_set" } else { "example_program_does_not_convert_to_codama" },
                            &format!("codama {}: {class}", p.name),
                        );
                    }
                    class
                }
            }
        }
        ("cnames" | "cnames-inorder", 4) => {
            let (Some(p), Some(kind)) = (a(1).and_then(|n| env.prog(n)), a(2)) else { return "bad-op".into() };
            match ProgramNode::try_from(env.idls[p.name].clone()) {
                Err(e) => err_class(&e),
                Ok(node) => {
                    let names: Vec<String> = match kind {
                        "ix" => node.instructions.iter().map(|i| i.name.to_string()).collect(),
                        "acct" => node.accounts.iter().map(|i| i.name.to_string()).collect(),
                        "ty" => node.defined_types.iter().map(|i| i.name.to_string()).collect(),
                        _ => return "bad-op".into(),
                    };
                    format!("ok {}", if names.is_empty() { "-".to_string() } else { names.join(" ") })
                }
            }
        }
        ("usize", 2) => match a(1).and_then(unhex) {
            Some(d) => {
                let ans = usize_via_enum(&d);
                // property: whenever the conversion succeeds the value is preserved
                if let Some(n) = ans.strip_prefix("ok ") {
                    let want = d.iter().rev().fold(0u128, |acc, x| (acc << 8) | *x as u128);
                    if n.parse::<u128>().ok() != Some(want) {
                        rec.fail("codama_variant_discriminant_changed", line);
                    }
                }
                ans
            }
            None => "bad-op".into(),
        },
        ("ty", 3) => {
            let Some(frag) = a(1).and_then(|n| env.type_frag.get(n)) else { return "bad-op".into() };
            format!("ok {}", sx::show_idl_ty(&env.type_idl, frag, 0))
        }
        ("fields", 4) => {
            // names of the struct's fields as the IDL has them (the op carries the Rust declaration order)
            let Some(frag) = a(1).and_then(|n| env.type_frag.get(n)) else { return "bad-op".into() };
            let Sx::L(want) = &xs[3] else { return "bad-op".into() };
            let Some(k) = a(2).and_then(|k| k.parse::<usize>().ok()) else { return "bad-op".into() };
            let got: Vec<String> = match frag {
                IdlTypeDef::Defined(id) => match env.type_idl.get_type(&id.source).map(|t| &t.type_def) {
                    Some(IdlTypeDef::Struct(fs)) => fs.iter().map(|f| f.path.clone().unwrap_or_else(|| "#".into())).collect(),
                    _ => return "bad-op".into(),
                },
                _ => return "bad-op".into(),
            };
            let want: Vec<String> = want.iter().filter_map(|x| x.atom().map(|s| s.to_string())).collect();
            // the IDL must list the Rust fields in declaration order: all of them, or — with
            // `#[type_to_idl(skip)]` — a PREFIX of them (never a selection with a hole)
            if got.len() > want.len() || got[..] != want[..got.len()] {
                rec.fail("idl_struct_fields_not_a_prefix_of_the_layout", &format!("{line}: idl {got:?}"));
            } else if got.len() != k {
                rec.fail("idl_struct_field_names_differ", &format!("{line}: idl {got:?}, expected the first {k}"));
            }
            format!("ok {}", if got.is_empty() { "-".to_string() } else { got.join(" ") })
        }
        ("enc", 4) => {
            let Some(t) = a(1).and_then(|n| env.types.iter().find(|t| t.name == n)) else { return "bad-op".into() };
            env.last_enc = None;
            let Some(v) = sx::parse_val(&xs[3]) else { return "bad-op".into() };
            let Some(bytes) = (t.ser)(&v) else { return "bad-op".into() };
            // oracle: decode the real bytes with the real IDL fragment (plain-Rust reference decoder): the
            // whole value — or, for a struct with a hidden tail, exactly its visible prefix
            let frag = &env.type_frag[t.name];
            let (want_v, want_n) = match (t.skip, &v) {
                (Some((k, hidden)), Val::Seq(vs)) => (Val::Seq(vs[..k.min(vs.len())].to_vec()), bytes.len().saturating_sub(hidden)),
                _ => (v.clone(), bytes.len()),
            };
            match sx::ref_decode(&env.type_idl, frag, &bytes) {
                Some((got, n)) if got == want_v && n == want_n => {}
                other => rec.fail(&format!("idl_layout_does_not_decode_serializer_output:{}", t.name), &format!("{line}: bytes {} decoded {:?}", hex(&bytes), other.map(|(g, n)| (sx::show_val(&g), n)))),
            }
            env.last_enc = Some((hex(&bytes), want_v, want_n));
            format!("ok {}", hex(&bytes))
        }
        ("dec", 3) => {
            let Some(h) = a(2) else { return "bad-op".into() };
            if unhex(h).is_none() {
                return "bad-op".into();
            }
            match &env.last_enc {
                Some((eh, v, n)) if eh == h => format!("ok {} {n}", sx::show_val(v)),
                _ => "bad-op".into(),
            }
        }
        ("set", 3) => {
            let Some(e) = a(1).and_then(|n| env.sets.iter().find(|s| s.name == n)) else { return "bad-op".into() };
            let idl = &env.idls["hx"];
            match idl.instructions.get(&e.ix_source) {
                Some(ix) => format!("ok {}", sx::show_idl_set(idl, &ix.definition.account_set, 0)),
                None => "bad-op".into(),
            }
        }
        ("vset", 4) => {
            let (Some(v), Some(idt)) = (a(1).and_then(|n| env.vsets.iter().find(|v| v.name == n)), a(2)) else { return "bad-op".into() };
            let id = if idt == "-" { None } else { Some(idt) };
            let Some((def, set)) = (v.idl)(id) else { return "bad-op".into() };
            // oracle (strict per-id lookup, straight from the attributes as written in sets.rs): a field
            // of variant `id` has an address / seeds iff an attribute with EXACTLY that id gives them
            if let Some(IdlAccountSetDef::Struct(fs)) = resolve_set(&def, &set) {
                for (f, (fname, attrs, _)) in fs.iter().zip(&v.fields) {
                    let at = attrs.iter().find(|(aid, _, _)| *aid == id);
                    let want_addr = at.and_then(|x| x.2);
                    let want_seeds = at.map(|x| x.1).unwrap_or(false);
                    if let Some(IdlAccountSetDef::Single(x)) = resolve_set(&def, &f.account_set_def) {
                        if x.address != want_addr || x.seeds.is_some() != want_seeds {
                            rec.fail(
                                "idl_variant_uses_attribute_of_another_variant",
                                &format!("{line}: field {fname} of variant {idt}: idl address {:?} seeds {}, attributes say {:?} / {want_seeds}", x.address.map(|a| hex(a.as_ref())), x.seeds.is_some(), want_addr.map(|a| hex(a.as_ref()))),
                            );
                        }
                    }
                }
            }
            format!("ok {}", sx::show_idl_set(&def, &set, 0))
        }
        ("vflat", 7) => {
            let (Some(v), Some(idt), Some(present)) = (a(1).and_then(|n| env.vsets.iter().find(|v| v.name == n)), a(2), a(4).and_then(parse_present)) else { return "bad-op".into() };
            let Some((def, set)) = (v.idl)(if idt == "-" { None } else { Some(idt) }) else { return "bad-op".into() };
            let client = (v.metas)(present);
            let mut want = vec![];
            sx::ref_flatten(&def, crate::HxIdl::ID.as_ref(), present, &set, &mut want);
            let same = want.len() == client.len()
                && want.iter().zip(&client).all(|(i, c)| i.signer == c.signer && i.writable == c.writable && (present || i.key == c.key || (c.key == "f" && i.key != "p" && i.key != "f")));
            if !same {
                rec.fail("idl_accounts_differ_from_client_metas", &format!("{line}: idl [{}] client [{}]", sx::show_slots(false, &want), sx::show_slots(false, &client)));
            }
            format!("{} {}", if same { "ok" } else { "mismatch" }, sx::show_slots(present, &want))
        }
        ("metas", 5) => {
            let (Some(e), Some(present)) = (a(1).and_then(|n| env.sets.iter().find(|s| s.name == n)), a(4).and_then(parse_present)) else { return "bad-op".into() };
            let p = env.prog("hx").unwrap();
            match p.ixs.iter().find(|r| r.source == e.ix_source) {
                Some(row) => format!("ok {}", sx::show_slots(present, &(row.metas)(present))),
                None => "bad-op".into(),
            }
        }
        _ => "bad-op".into(),
    }
}

fn resolve_set<'a>(def: &'a IdlDefinition, s: &'a IdlAccountSetDef) -> Option<&'a IdlAccountSetDef> {
    let mut s = s;
    for _ in 0..40 {
        match s {
            IdlAccountSetDef::Defined(id) => s = &def.account_sets.get(&id.source)?.account_set_def,
            other => return Some(other),
        }
    }
    None
}

/// How the Codama lowering sees an instruction's / account's own type (`ensure_struct_node`).
fn arg_kind(def: &IdlDefinition, source: &str) -> &'static str {
    match def.get_type(&source.to_string()).map(|t| &t.type_def) {
        Some(IdlTypeDef::Struct(fs)) if fs.is_empty() => "empty",
        Some(IdlTypeDef::Struct(fs)) if fs[0].path.is_some() => "named",
        Some(IdlTypeDef::Struct(_)) => "tuple",
        _ => "other",
    }
}

/// Single-account leaves of a real account-set definition in order, rendered like
/// `show_codama_accounts` (names through Codama's own camel-casing of the joined path).
fn leaves(def: &IdlDefinition, s: &IdlAccountSetDef, path: &mut Vec<String>, out: &mut Vec<String>) {
    use codama_nodes::CamelCaseString;
    let show = |x: &star_frame::star_frame_idl::account_set::IdlSingleAccountSet, path: &Vec<String>| {
        // independent resolver: an account-path seed names a SIBLING of the seeded account, i.e. it is
        // resolved against the seeded account's own parent path; `:path` is taken from the root
        let mut seed_accounts = vec![];
        if let (None, Some(fs)) = (&x.address, &x.seeds) {
            let parent = &path[..path.len().saturating_sub(1)];
            for sd in &fs.seeds {
                if let star_frame::star_frame_idl::seeds::IdlFindSeed::AccountPath(p) = sd {
                    seed_accounts.push(match p.strip_prefix(':') {
                        Some(rooted) => CamelCaseString::new(rooted).to_string(),
                        None => {
                            let mut full: Vec<String> = parent.to_vec();
                            full.push(p.clone());
                            CamelCaseString::new(full.join(" ")).to_string()
                        }
                    });
                }
            }
        }
        format!(
            "{}:{}{}{}:{}{}",
            CamelCaseString::new(path.join(" ")).to_string(),
            x.signer as u8,
            x.writable as u8,
            x.optional as u8,
            x.address.map(|a| hex(a.as_ref())).unwrap_or_else(|| "-".into()),
            if seed_accounts.is_empty() { String::new() } else { format!(":{}", seed_accounts.join(",")) }
        )
    };
    match s {
        IdlAccountSetDef::Defined(id) => {
            if let Some(set) = def.account_sets.get(&id.source) {
                leaves(def, &set.account_set_def, path, out);
            }
        }
        IdlAccountSetDef::Single(x) => out.push(show(x, path)),
        IdlAccountSetDef::Many { account_set, .. } => {
            if let IdlAccountSetDef::Single(x) = &**account_set {
                out.push(show(x, path));
            }
        }
        IdlAccountSetDef::Struct(fs) => {
            for (i, f) in fs.iter().enumerate() {
                path.push(f.path.clone().unwrap_or_else(|| i.to_string()));
                leaves(def, &f.account_set_def, path, out);
                path.pop();
            }
        }
        IdlAccountSetDef::Or(_) => {}
    }
}

// ------------------------------------------------------------------------------------------------ generator
fn names_list(names: impl Iterator<Item = String>) -> String {
    format!("({})", names.collect::<Vec<_>>().join(" "))
}

pub fn run(args: &Args) {
    let mut env = Env::new();
    let mut rec = Recorder::new(
        "one case per shipped/harness program (determinism, verifier alone + strict with referenced programs, every instruction/account \
         discriminant vs runtime constant, every instruction's flattened IDL accounts vs client metas with optional accounts absent and present, \
         Codama lowering of every instruction, names/order in the ProgramNode), one case per harness type (IDL fragment + random values through the \
         real serializer, decoded by the model's IDL-driven decoder), one case per harness account set, one case of discriminant widths 0..9. \
         A case is non-trivial when it compared at least one value-bearing answer (discriminant, account list, bytes); distinct by case text hash.",
    );
    let mut go = |env: &mut Env, rec: &mut Recorder, line: String| {
        let ans = match hx_common::catch(std::panic::AssertUnwindSafe(|| exec(env, rec, &line))) {
            Ok(a) => a,
            Err(m) => {
                rec.fail("panic_in_idl_path", &format!("{line}: {m}"));
                "panic".to_string()
            }
        };
        rec.bump(&format!("op:{}", line.split(' ').next().unwrap_or("")));
        if ans.starts_with("err") || ans == "panic" {
            rec.bump(&format!("ans:{}", ans.split(' ').next().unwrap_or("")));
        }
        rec.op(&line, &ans);
    };
    if let Some(cases) = args.replay_cases() {
        for c in cases {
            rec.case(&c[0]);
            for l in &c[1..] {
                go(&mut env, &mut rec, l.clone());
            }
            rec.mark_nontrivial();
        }
        rec.finish(args);
        return;
    }
    let thorough = args.thorough();
    let mut rng = Rng::new(args.seed);

    // ---- corpus first
    let corpus = std::path::PathBuf::from(std::env::var("VERIF_DIR").unwrap_or_else(|_| "/verif".into())).join("corpus/C17");
    let mut files: Vec<_> = std::fs::read_dir(&corpus).map(|d| d.filter_map(|e| e.ok().map(|e| e.path())).filter(|p| p.extension().is_some_and(|x| x == "replay")).collect()).unwrap_or_default();
    files.sort();
    for f in files {
        let a = Args { replay: Some(f), ..args.clone() };
        for c in a.replay_cases().unwrap_or_default() {
            rec.case(&c[0]);
            for l in &c[1..] {
                go(&mut env, &mut rec, l.clone());
            }
            rec.mark_nontrivial();
        }
    }

    // ---- programs
    let prog_names: Vec<&'static str> = env.progs.iter().map(|p| p.name).collect();
    for pn in prog_names {
        rec.case(&format!("case prog {pn}"));
        let idl = env.idls[pn].clone();
        let pid = hex(env.prog(pn).unwrap().id.as_ref());
        go(&mut env, &mut rec, format!("det {pn}"));
        go(&mut env, &mut rec, format!("verify {pn}"));
        go(&mut env, &mut rec, format!("verify-strict {pn}"));
        go(&mut env, &mut rec, format!("count {pn} {} {}", idl.instructions.len(), idl.accounts.len()));
        go(&mut env, &mut rec, format!("accrefs {pn}"));
        match pn {
            "reuse_a" => go(&mut env, &mut rec, "sameidl reuse_a reuse_b".to_string()),
            "reuse_b" => go(&mut env, &mut rec, "sameidl reuse_b reuse_c".to_string()),
            "reuse_c" => go(&mut env, &mut rec, "sameidl reuse_c reuse_a".to_string()),
            _ => {}
        }
        for (source, ix) in &idl.instructions {
            go(&mut env, &mut rec, format!("disc {pn} ix {source} {}", hex(&ix.discriminant)));
            let set = sx::show_idl_set(&idl, &ix.definition.account_set, 0);
            let set_seeds = sx::show_idl_set_with(&idl, &ix.definition.account_set, 0, true);
            for present in [false, true] {
                let client = env.prog(pn).unwrap().ixs.iter().find(|r| &r.source == source).map(|r| (r.metas)(present)).unwrap_or_default();
                let cl = if client.is_empty() { "()".to_string() } else { format!("({})", sx::show_slots(false, &client)) };
                go(&mut env, &mut rec, format!("flat {pn} {source} {pid} {} {set} {cl}", present as u8));
            }
            go(&mut env, &mut rec, format!("lower {pn} {source} {} {} {set_seeds}", hex(&ix.discriminant), arg_kind(&idl, &ix.definition.type_id.source)));
        }
        for (source, ac) in &idl.accounts {
            go(&mut env, &mut rec, format!("disc {pn} acct {source} {}", hex(&ac.discriminant)));
        }
        // whole-program conversion, then names and order in the ProgramNode: instructions sorted by camel
        // name, accounts in IDL order, defined types = types that are neither accounts nor instructions, sorted
        let acct_kinds: Vec<&str> = idl.accounts.values().map(|a| arg_kind(&idl, &a.type_id.source)).collect();
        let ix_sets: Vec<String> = idl
            .instructions
            .values()
            .map(|ix| format!("({} {})", arg_kind(&idl, &ix.definition.type_id.source), sx::show_idl_set(&idl, &ix.definition.account_set, 0)))
            .collect();
        go(&mut env, &mut rec, format!("codama {pn} ({}) ({})", acct_kinds.join(" "), ix_sets.join(" ")));
        if ProgramNode::try_from(idl.clone()).is_ok() {
            let tname = |src: &String| idl.types.get(src).map(|t| t.info.name.clone()).unwrap_or_else(|| "?".into());
            go(&mut env, &mut rec, format!("cnames {pn} ix {}", names_list(idl.instructions.values().map(|i| tname(&i.definition.type_id.source)))));
            go(&mut env, &mut rec, format!("cnames-inorder {pn} acct {}", names_list(idl.accounts.values().map(|a| tname(&a.type_id.source)))));
            go(
                &mut env,
                &mut rec,
                format!(
                    "cnames {pn} ty {}",
                    names_list(idl.types.iter().filter(|(s, _)| !idl.accounts.contains_key(*s) && !idl.instructions.contains_key(*s)).map(|(_, t)| t.info.name.clone()))
                ),
            );
        }
        rec.mark_nontrivial();
        rec.sample_current(2);
    }

    // ---- types
    let n_vals = if thorough { 400 } else { 60 };
    let tys: Vec<(&'static str, String)> = env.types.iter().map(|t| (t.name, t.shape.clone())).collect();
    for (name, shape_txt) in tys {
        rec.case(&format!("case type {name}"));
        let ty_shape = match env.types.iter().find(|t| t.name == name).and_then(|t| t.skip) {
            Some((k, _)) => shape_txt.replacen("(struct", &format!("(skipstruct {k}"), 1),
            None => shape_txt.clone(),
        };
        go(&mut env, &mut rec, format!("ty {name} {ty_shape}"));
        let skip = env.types.iter().find(|t| t.name == name).and_then(|t| t.skip);
        if let Some(fs) = types::expected_fields(name) {
            go(&mut env, &mut rec, format!("fields {name} {} ({})", skip.map(|s| s.0).unwrap_or(fs.len()), fs.join(" ")));
        }
        let shape = sx::parse_shape(&sx::parse_line(&shape_txt).unwrap()[0]).expect("harness shape parses");
        let frag = sx::show_idl_ty(&env.type_idl, &env.type_frag[name], 0);
        for _ in 0..n_vals {
            let v = sx::gen_val(&shape, &mut rng, 0);
            let before = rec.failures.len();
            let line = format!("enc {name} {shape_txt} {}", sx::show_val(&v));
            go(&mut env, &mut rec, line);
            let _ = before;
            if let Some((h, _, _)) = env.last_enc.clone() {
                go(&mut env, &mut rec, format!("dec {frag} {h}"));
            }
        }
        rec.mark_nontrivial();
        rec.sample_current(4);
    }

    // ---- harness account sets
    let pid = hex(crate::HxIdl::ID.as_ref());
    let sets_: Vec<(&'static str, String)> = env.sets.iter().map(|s| (s.name, s.shape.clone())).collect();
    for (name, shape) in sets_ {
        rec.case(&format!("case set {name}"));
        go(&mut env, &mut rec, format!("set {name} {shape}"));
        go(&mut env, &mut rec, format!("metas {name} {shape} {pid} 0"));
        go(&mut env, &mut rec, format!("metas {name} {shape} {pid} 1"));
        rec.mark_nontrivial();
        rec.sample_current(5);
    }

    // ---- multi-variant account sets: every variant's IDL vs the model's strict lookup and vs the client metas
    let vsets: Vec<(&'static str, Vec<Option<&'static str>>, String)> = env
        .vsets
        .iter()
        .map(|v| {
            let fields: Vec<String> = v
                .fields
                .iter()
                .map(|(n, attrs, inner)| {
                    let at: Vec<String> = attrs
                        .iter()
                        .map(|(id, seeds, ad)| format!("({} {} {})", id.unwrap_or("-"), *seeds as u8, ad.map(|a| hex(a.as_ref())).unwrap_or_else(|| "-".into())))
                        .collect();
                    format!("({n} ({}) {inner})", at.join(" "))
                })
                .collect();
            (v.name, v.variants.clone(), format!("({})", fields.join(" ")))
        })
        .collect();
    for (name, variants, fields) in vsets {
        rec.case(&format!("case vset {name}"));
        for id in variants {
            let idt = id.unwrap_or("-");
            go(&mut env, &mut rec, format!("vset {name} {idt} {fields}"));
            let (idl_fn, metas_fn) = {
                let v = env.vsets.iter().find(|v| v.name == name).unwrap();
                (v.idl, v.metas)
            };
            if let Some((def, set)) = idl_fn(id) {
                let set_txt = sx::show_idl_set(&def, &set, 0);
                for present in [false, true] {
                    let client = metas_fn(present);
                    go(&mut env, &mut rec, format!("vflat {name} {idt} {pid} {} {set_txt} ({})", present as u8, sx::show_slots(false, &client)));
                }
            }
        }
        rec.mark_nontrivial();
        rec.sample_current(6);
    }

    // ---- discriminant_to_usize over widths 0..9
    rec.case("case usize widths");
    for w in 0..=9usize {
        for k in 0..(if w == 0 { 1 } else { 4 }) {
            let mut d = rng.bytes(w);
            if k == 0 {
                d.iter_mut().for_each(|b| *b = 0xFF);
            }
            if k == 1 {
                d.iter_mut().for_each(|b| *b = 0);
            }
            go(&mut env, &mut rec, format!("usize {}", hex(&d)));
        }
    }
    for b in 0..=255u8 {
        go(&mut env, &mut rec, format!("usize {}", hex(&[b])));
    }
    rec.mark_nontrivial();
    rec.finish(args);
}
