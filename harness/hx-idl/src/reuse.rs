//! Harness programs in which an ACCOUNT type is reused as a field of other registered types (another
//! account, instruction arguments, an unsized account), generated in BOTH orders: embedding type first
//! (`ReuseA`, `ReuseC`) and account first (`ReuseB`); the same instructions sit in several instruction
//! sets. (Generic account types cannot be instantiated here: `derive(TypeToIdl)` rejects generics.)
use star_frame::{
    borsh::{BorshDeserialize, BorshSerialize},
    borsh_with_bytemuck, empty_star_frame_instruction,
    prelude::*,
};

/// A stand-alone account that is ALSO embedded in `Vault`, `Book` and in instruction arguments.
#[zero_copy(pod)]
#[derive(Default, Debug, Eq, PartialEq, ProgramAccount)]
pub struct Limits {
    pub max_deposit: u64,
    pub max_withdraw: u64,
}
borsh_with_bytemuck!(Limits);

#[zero_copy(pod)]
#[derive(Default, Debug, Eq, PartialEq, ProgramAccount)]
pub struct Vault {
    pub owner: Pubkey,
    pub balance: u64,
    pub limits: Limits,
}

/// An unsized account with the account type in its sized part and as list items.
#[unsized_type(program_account)]
pub struct Book {
    pub head: Limits,
    #[unsized_start]
    pub history: List<Limits, u8>,
}

macro_rules! ix {
    ($ix:ident, $accts:ident) => {
        #[derive(BorshSerialize, BorshDeserialize, Debug, InstructionArgs)]
        #[borsh(crate = "star_frame::borsh")]
        pub struct $ix;
        empty_star_frame_instruction!($ix, $accts);
    };
}

#[derive(AccountSet, Debug)]
pub struct TouchVaultAccounts {
    pub owner: Signer<SystemAccount>,
    pub vault: Mut<Account<Vault>>,
}
ix!(TouchVault, TouchVaultAccounts);

#[derive(AccountSet, Debug)]
pub struct TouchLimitsAccounts {
    pub owner: Signer<SystemAccount>,
    pub limits: Mut<Account<Limits>>,
    /// second slot with the same account type
    pub other_limits: Account<Limits>,
}
ix!(TouchLimits, TouchLimitsAccounts);

#[derive(AccountSet, Debug)]
pub struct TouchBookAccounts {
    pub book: Mut<Account<Book>>,
    pub limits: Option<Account<Limits>>,
}
ix!(TouchBook, TouchBookAccounts);

/// Instruction arguments embedding the account type (no `Account<Limits>` slot of its own).
#[derive(BorshSerialize, BorshDeserialize, Debug, InstructionArgs)]
#[borsh(crate = "star_frame::borsh")]
pub struct SetLimits {
    pub new_limits: Limits,
    pub history: Vec<Limits>,
}
empty_star_frame_instruction!(SetLimits, TouchVaultAccounts);

/// embedding types FIRST: Vault (account), then the arguments, then the stand-alone account
#[derive(StarFrameProgram, Debug)]
#[program(instruction_set = ReuseASet, id = Pubkey::new_from_array([0xA7; 32]), no_entrypoint, no_setup)]
pub struct ReuseA;
#[derive(InstructionSet)]
pub enum ReuseASet {
    TouchVault(TouchVault),
    SetLimits(SetLimits),
    TouchBook(TouchBook),
    TouchLimits(TouchLimits),
}

/// the stand-alone account FIRST
#[derive(StarFrameProgram, Debug)]
#[program(instruction_set = ReuseBSet, id = Pubkey::new_from_array([0xB7; 32]), no_entrypoint, no_setup)]
pub struct ReuseB;
#[derive(InstructionSet)]
pub enum ReuseBSet {
    TouchLimits(TouchLimits),
    TouchBook(TouchBook),
    SetLimits(SetLimits),
    TouchVault(TouchVault),
}

/// instruction ARGUMENTS embed the type first, then the account (`Option<Account<_>>` slot first)
#[derive(StarFrameProgram, Debug)]
#[program(instruction_set = ReuseCSet, id = Pubkey::new_from_array([0xC7; 32]), no_entrypoint, no_setup)]
pub struct ReuseC;
#[derive(InstructionSet)]
pub enum ReuseCSet {
    SetLimits(SetLimits),
    TouchBook(TouchBook),
}
