//! The harness program `HxIdl` (declared in `main.rs`): account types, account sets spanning the
//! account-set building blocks, one instruction per set. `set_table()` pairs each set with the
//! model's view of it (`SetShape` text, hand-written).
use crate::types::{BBig, BEnum, ZcInner};
use hx_common::hex;
use star_frame::{
    account_set::modifiers::{MaybeMut, MaybeSigner},
    borsh::{BorshDeserialize, BorshSerialize},
    empty_star_frame_instruction,
    pinocchio::sysvars::rent::Rent,
    prelude::*,
};

// ------------------------------------------------------------------------------------------------ accounts
#[zero_copy(pod)]
#[derive(Debug, PartialEq, Eq, ProgramAccount, Default)]
pub struct HxZc {
    pub v: u64,
    pub inner: ZcInner,
}

impl star_frame::account_set::validated_account::AccountValidate<()> for HxZc {
    fn validate_account(_self_ref: &<Self as UnsizedType>::Ptr, _arg: ()) -> Result<()> {
        Ok(())
    }
}

#[derive(Debug, GetSeeds, Clone)]
#[get_seeds(seed_const = b"HXU")]
pub struct HxSeeds {
    pub owner: Pubkey,
}

#[unsized_type(program_account, seeds = HxSeeds)]
pub struct HxUnsized {
    pub s: u8,
    #[unsized_start]
    pub l: List<u8>,
    pub m: Map<u8, PackedValue<u16>>,
}

#[derive(Debug, Default, BorshSerialize, BorshDeserialize, ProgramAccount)]
#[borsh(crate = "star_frame::borsh")]
pub struct HxBorsh {
    pub items: Vec<u8>,
    pub e: Option<u16>,
}

// ------------------------------------------------------------------------------------------------ account sets
#[derive(AccountSet, Debug)]
pub struct SetBasicAccounts {
    pub payer: Mut<Signer<SystemAccount>>,
    pub sys: Program<System>,
    pub plain: AccountInfo,
    pub ro_signer: Signer,
    pub w: Mut<AccountInfo>,
    pub sw: Signer<Mut<AccountInfo>>,
    pub rent: Sysvar<Rent>,
    pub me: Program<crate::HxIdl>,
    pub nm: MaybeMut<false, AccountInfo>,
    pub ns: MaybeSigner<false, Mut<SystemAccount>>,
    pub ts: MaybeSigner<true, MaybeMut<true, AccountInfo>>,
}

#[derive(AccountSet, Debug)]
pub struct PairAccounts {
    pub left: Mut<AccountInfo>,
    pub right: Signer,
}

#[derive(AccountSet, Debug)]
pub struct SetOptAccounts {
    pub a: Option<Signer<AccountInfo>>,
    pub b: Option<Program<System>>,
    pub c: Option<Mut<SystemAccount>>,
    pub mid: AccountInfo,
    pub grp: Option<PairAccounts>,
    pub last: Option<AccountInfo>,
}

#[derive(AccountSet, Debug)]
pub struct SetManyAccounts {
    pub first: Mut<AccountInfo>,
    pub arr: [Signer<AccountInfo>; 3],
    pub many: Rest<Mut<AccountInfo>>,
}

#[derive(AccountSet, Debug)]
pub struct OneAccounts {
    pub only: Signer<Mut<AccountInfo>>,
}

#[derive(AccountSet, Debug)]
pub struct TupleAccounts(pub Mut<AccountInfo>, pub AccountInfo);

#[derive(AccountSet, Debug)]
pub struct EmptyAccounts {}

#[derive(AccountSet, Debug)]
pub struct SetNestedAccounts {
    pub head: Signer,
    pub pair: PairAccounts,
    pub boxed: Box<PairAccounts>,
    pub one: OneAccounts,
    pub tup: TupleAccounts,
    pub none: EmptyAccounts,
    pub bx: Box<Mut<AccountInfo>>,
}

#[derive(AccountSet, Debug)]
pub struct SetInitAccounts {
    #[validate(funder)]
    pub funder: Mut<Signer<SystemAccount>>,
    pub owner: SystemAccount,
    pub sys: Program<System>,
    #[validate(arg = Create(()))]
    pub zc: Init<Signer<Account<HxZc>>>,
    #[validate(arg = (Create(()), Seeds(HxSeeds { owner: *self.owner.pubkey() })))]
    #[idl(arg = Seeds(FindHxSeeds { owner: seed_path("owner") }))]
    pub un: Init<Seeded<Account<HxUnsized>>>,
    pub existing: Mut<Account<HxZc>>,
    #[validate(arg = Seeds(HxSeeds { owner: *self.owner.pubkey() }))]
    #[idl(arg = Seeds(FindHxSeeds { owner: seed_path("owner") }))]
    pub seeded: Seeded<Account<HxUnsized>>,
    pub borsh: Mut<BorshAccount<HxBorsh>>,
    pub val: Mut<ValidatedAccount<HxZc>>,
}

/// The pathological nesting of `accounts_faithful`'s excluded class (see `downgrade_witness`).
#[derive(AccountSet, Debug)]
pub struct SetDowngradeAccounts {
    pub a: MaybeSigner<false, Signer<AccountInfo>>,
    pub b: MaybeMut<false, Mut<AccountInfo>>,
}

/// The one-field account set (keeps its struct definition in the IDL since /repo 411da64).
#[derive(AccountSet, Debug)]
pub struct SetOneAccounts {
    pub only: Mut<Signer<AccountInfo>>,
}

/// Optional single accounts only (lowers to Codama, unlike `SetOpt` whose optional group is an `Or`).
#[derive(AccountSet, Debug)]
pub struct SetOptFlatAccounts {
    pub a: Option<Signer<Mut<AccountInfo>>>,
    pub b: Option<Program<System>>,
    pub mid: Mut<AccountInfo>,
    pub last: Option<AccountInfo>,
}

/// `Many` (array) FOLLOWED by an ordinary account: Codama must refuse (`ManyAccountSetsMustComeLast`),
/// never reorder.
#[derive(AccountSet, Debug)]
pub struct SetManyMidAccounts {
    pub vaults: [Mut<SystemAccount>; 2],
    pub authority: Signer<SystemAccount>,
}
/// `Rest` in the middle (type-checks; at runtime it would swallow the tail).
#[derive(AccountSet, Debug)]
pub struct SetRestMidAccounts {
    pub head: Signer,
    pub others: Rest<AccountInfo>,
    pub tail: Mut<AccountInfo>,
}
/// Two `Many`s at the end: lowers, both become remaining accounts, in order.
#[derive(AccountSet, Debug)]
pub struct SetTwoManyAccounts {
    pub head: Signer<Mut<AccountInfo>>,
    pub pair: [AccountInfo; 2],
    pub others: Rest<Mut<AccountInfo>>,
}
/// A `Many` inside a nested struct followed by an account of the OUTER struct.
#[derive(AccountSet, Debug)]
pub struct InnerManyAccounts {
    pub who: Signer,
    pub list: [Mut<AccountInfo>; 2],
}
#[derive(AccountSet, Debug)]
pub struct SetNestedManyMidAccounts {
    pub inner: InnerManyAccounts,
    pub after: AccountInfo,
}

// ------------------------------------------------------------------------------------------------ instructions
macro_rules! ix {
    ($ix:ident, $accts:ident) => {
        #[derive(BorshSerialize, BorshDeserialize, Debug, InstructionArgs)]
        #[borsh(crate = "star_frame::borsh")]
        pub struct $ix;
        empty_star_frame_instruction!($ix, $accts);
    };
}
ix!(SetBasic, SetBasicAccounts);
ix!(SetOpt, SetOptAccounts);
ix!(SetMany, SetManyAccounts);
ix!(SetNested, SetNestedAccounts);
ix!(SetInit, SetInitAccounts);
ix!(SetOne, SetOneAccounts);
ix!(SetManyMid, SetManyMidAccounts);
ix!(SetRestMid, SetRestMidAccounts);
ix!(SetTwoMany, SetTwoManyAccounts);
ix!(SetNestedManyMid, SetNestedManyMidAccounts);
ix!(SetOptFlat, SetOptFlatAccounts);
ix!(SetEmpty, EmptyAccounts);

/// An instruction with real arguments (layout of instruction data = discriminant ++ borsh(args)).
#[derive(BorshSerialize, BorshDeserialize, Debug, InstructionArgs)]
#[borsh(crate = "star_frame::borsh")]
pub struct WithArgs {
    pub big: BBig,
    pub e: BEnum,
}
empty_star_frame_instruction!(WithArgs, PairAccounts);

#[derive(InstructionSet)]
pub enum HxIdlInstructionSet {
    SetBasic(SetBasic),
    SetOpt(SetOpt),
    SetMany(SetMany),
    SetNested(SetNested),
    SetInit(SetInit),
    SetOne(SetOne),
    SetManyMid(SetManyMid),
    SetRestMid(SetRestMid),
    SetTwoMany(SetTwoMany),
    SetNestedManyMid(SetNestedManyMid),
    SetOptFlat(SetOptFlat),
    SetEmpty(SetEmpty),
    WithArgs(WithArgs),
}

/// A second program whose instruction set uses `#[repr(u16)]` discriminants and whose accounts
/// use a 2-byte discriminant (widths other than 1 and 8).
pub mod wide {
    use super::*;
    #[derive(StarFrameProgram)]
    #[program(instruction_set = WideInstructionSet, id = Pubkey::new_from_array([0x77; 32]), account_discriminant = [u8; 2], no_entrypoint, no_setup)]
    pub struct HxWide;

    #[zero_copy(pod)]
    #[derive(Debug, PartialEq, Eq, ProgramAccount, Default)]
    #[program_account(program = HxWide, discriminant = [0xAB, 0xCD])]
    pub struct WideAcct {
        pub v: u32,
    }

    #[derive(AccountSet, Debug)]
    pub struct WideAAccounts {
        pub who: Signer,
        pub acct: Mut<Account<WideAcct>>,
    }
    #[derive(BorshSerialize, BorshDeserialize, Debug, InstructionArgs)]
    #[borsh(crate = "star_frame::borsh")]
    #[type_to_idl(program = HxWide)]
    pub struct WideA {
        pub x: u16,
    }
    empty_star_frame_instruction!(WideA, WideAAccounts);
    #[derive(BorshSerialize, BorshDeserialize, Debug, InstructionArgs)]
    #[borsh(crate = "star_frame::borsh")]
    #[type_to_idl(program = HxWide)]
    pub struct WideB;
    empty_star_frame_instruction!(WideB, PairAccounts);

    #[derive(InstructionSet)]
    #[ix_set(use_repr)]
    #[repr(u16)]
    pub enum WideInstructionSet {
        WideA(WideA) = 0x0102,
        WideB(WideB) = 0xFFEE,
    }
}

// ------------------------------------------------------------------------------------------------ table
pub struct SetEntry {
    pub name: &'static str,
    /// the model's view
    pub shape: String,
    /// source key of the instruction carrying this set in the HxIdl IDL
    pub ix_source: String,
}

pub fn set_table() -> Vec<SetEntry> {
    let sys = hex(System::ID.as_ref());
    let me = hex(crate::HxIdl::ID.as_ref());
    let rent = hex(<Rent as star_frame::account_set::sysvar::SysvarId>::id().as_ref());
    let pair = "(struct (left (mut 1 info)) (right (signer 1 info)))";
    let e = |name, shape: String, ix_source: String| SetEntry { name, shape, ix_source };
    vec![
        e(
            "basic",
            format!(
                "(struct (payer (mut 1 (signer 1 info))) (sys (fixed {sys})) (plain info) (ro_signer (signer 1 info)) (w (mut 1 info)) (sw (signer 1 (mut 1 info))) (rent (fixed {rent})) (me (fixed {me})) (nm (mut 0 info)) (ns (signer 0 (mut 1 info))) (ts (signer 1 (mut 1 info))))"
            ),
            star_frame::star_frame_idl::item_source::<SetBasic>(),
        ),
        e(
            "opt",
            format!("(struct (a (opt (signer 1 info))) (b (opt (fixed {sys}))) (c (opt (mut 1 info))) (mid info) (grp (opt {pair})) (last (opt info)))"),
            star_frame::star_frame_idl::item_source::<SetOpt>(),
        ),
        e(
            "many",
            "(struct (first (mut 1 info)) (arr (array (signer 1 info) 3)) (many (rest (mut 1 info))))".to_string(),
            star_frame::star_frame_idl::item_source::<SetMany>(),
        ),
        e(
            "nested",
            format!("(struct (head (signer 1 info)) (pair {pair}) (boxed (box {pair})) (one (struct (only (signer 1 (mut 1 info))))) (tup (struct (# (mut 1 info)) (# info))) (none (struct)) (bx (box (mut 1 info))))"),
            star_frame::star_frame_idl::item_source::<SetNested>(),
        ),
        e(
            "init",
            format!(
                "(struct (funder (mut 1 (signer 1 info))) (owner info) (sys (fixed {sys})) (zc (init (signer 1 info))) (un (init (seeded info))) (existing (mut 1 info)) (seeded (seeded info)) (borsh (mut 1 info)) (val (mut 1 info)))"
            ),
            star_frame::star_frame_idl::item_source::<SetInit>(),
        ),
        e("one", "(struct (only (mut 1 (signer 1 info))))".to_string(), star_frame::star_frame_idl::item_source::<SetOne>()),
        e(
            "optflat",
            format!("(struct (a (opt (signer 1 (mut 1 info)))) (b (opt (fixed {sys}))) (mid (mut 1 info)) (last (opt info)))"),
            star_frame::star_frame_idl::item_source::<SetOptFlat>(),
        ),
        e(
            "manymid",
            "(struct (vaults (array (mut 1 info) 2)) (authority (signer 1 info)))".to_string(),
            star_frame::star_frame_idl::item_source::<SetManyMid>(),
        ),
        e(
            "restmid",
            "(struct (head (signer 1 info)) (others (rest info)) (tail (mut 1 info)))".to_string(),
            star_frame::star_frame_idl::item_source::<SetRestMid>(),
        ),
        e(
            "twomany",
            "(struct (head (signer 1 (mut 1 info))) (pair (array info 2)) (others (rest (mut 1 info))))".to_string(),
            star_frame::star_frame_idl::item_source::<SetTwoMany>(),
        ),
        e(
            "nestedmanymid",
            "(struct (inner (struct (who (signer 1 info)) (list (array (mut 1 info) 2)))) (after info))".to_string(),
            star_frame::star_frame_idl::item_source::<SetNestedManyMid>(),
        ),
        e("empty", "(struct)".to_string(), star_frame::star_frame_idl::item_source::<SetEmpty>()),
    ]
}
