//! The harness program `HxIdl` (declared in `main.rs`): account types, account sets spanning the
//! account-set building blocks, one instruction per set. `set_table()` pairs each set with the
//! model's view of it (`SetShape` text, hand-written).
use crate::types::{BBig, BEnum, ZcInner};
use hx_common::hex;
use star_frame::{
    account_set::modifiers::{MaybeMut, MaybeSigner},
    borsh::{BorshDeserialize, BorshSerialize},
    empty_star_frame_instruction,
    pinocchio::sysvars::rent::Rent,
    prelude::*,
};

// ------------------------------------------------------------------------------------------------ accounts
#[zero_copy(pod)]
#[derive(Debug, PartialEq, Eq, ProgramAccount, Default)]
pub struct HxZc {
    pub v: u64,
    pub inner: ZcInner,
}

impl star_frame::account_set::validated_account::AccountValidate<()> for HxZc {
    fn validate_account(_self_ref: &<Self as UnsizedType>::Ptr, _arg: ()) -> Result<()> {
        Ok(())
    }
}

#[derive(Debug, GetSeeds, Clone)]
#[get_seeds(seed_const = b"HXU")]
pub struct HxSeeds {
    pub owner: Pubkey,
}

#[unsized_type(program_account, seeds = HxSeeds)]
pub struct HxUnsized {
    pub s: u8,
    #[unsized_start]
    pub l: List<u8>,
    pub m: Map<u8, PackedValue<u16>>,
}

#[derive(Debug, Default, BorshSerialize, BorshDeserialize, ProgramAccount)]
#[borsh(crate = "star_frame::borsh")]
pub struct HxBorsh {
    pub items: Vec<u8>,
    pub e: Option<u16>,
}

// ------------------------------------------------------------------------------------------------ account sets
#[derive(AccountSet, Debug)]
pub struct SetBasicAccounts {
    pub payer: Mut<Signer<SystemAccount>>,
    pub sys: Program<System>,
    pub plain: AccountInfo,
    pub ro_signer: Signer,
    pub w: Mut<AccountInfo>,
    pub sw: Signer<Mut<AccountInfo>>,
    pub rent: Sysvar<Rent>,
    pub me: Program<crate::HxIdl>,
    pub nm: MaybeMut<false, AccountInfo>,
    pub ns: MaybeSigner<false, Mut<SystemAccount>>,
    pub ts: MaybeSigner<true, MaybeMut<true, AccountInfo>>,
}

#[derive(AccountSet, Debug)]
pub struct PairAccounts {
    pub left: Mut<AccountInfo>,
    pub right: Signer,
}

#[derive(AccountSet, Debug)]
pub struct SetOptAccounts {
    pub a: Option<Signer<AccountInfo>>,
    pub b: Option<Program<System>>,
    pub c: Option<Mut<SystemAccount>>,
    pub mid: AccountInfo,
    pub grp: Option<PairAccounts>,
    pub last: Option<AccountInfo>,
}

#[derive(AccountSet, Debug)]
pub struct SetManyAccounts {
    pub first: Mut<AccountInfo>,
    pub arr: [Signer<AccountInfo>; 3],
    pub many: Rest<Mut<AccountInfo>>,
}

#[derive(AccountSet, Debug)]
pub struct OneAccounts {
    pub only: Signer<Mut<AccountInfo>>,
}

#[derive(AccountSet, Debug)]
pub struct TupleAccounts(pub Mut<AccountInfo>, pub AccountInfo);

#[derive(AccountSet, Debug)]
pub struct EmptyAccounts {}

#[derive(AccountSet, Debug)]
pub struct SetNestedAccounts {
    pub head: Signer,
    pub pair: PairAccounts,
    pub boxed: Box<PairAccounts>,
    pub one: OneAccounts,
    pub tup: TupleAccounts,
    pub none: EmptyAccounts,
    pub bx: Box<Mut<AccountInfo>>,
}

#[derive(AccountSet, Debug)]
pub struct SetInitAccounts {
    #[validate(funder)]
    pub funder: Mut<Signer<SystemAccount>>,
    pub owner: SystemAccount,
    pub sys: Program<System>,
    #[validate(arg = Create(()))]
    pub zc: Init<Signer<Account<HxZc>>>,
    #[validate(arg = (Create(()), Seeds(HxSeeds { owner: *self.owner.pubkey() })))]
    #[idl(arg = Seeds(FindHxSeeds { owner: seed_path("owner") }))]
    pub un: Init<Seeded<Account<HxUnsized>>>,
    pub existing: Mut<Account<HxZc>>,
    #[validate(arg = Seeds(HxSeeds { owner: *self.owner.pubkey() }))]
    #[idl(arg = Seeds(FindHxSeeds { owner: seed_path("owner") }))]
    pub seeded: Seeded<Account<HxUnsized>>,
    pub borsh: Mut<BorshAccount<HxBorsh>>,
    pub val: Mut<ValidatedAccount<HxZc>>,
}

/// Pass-through modifiers over checking ones (client and IDL keep the inner flag since /repo 10a861d):
/// depth 2, depth 3/4 mixes, under `Option` and arrays.
#[derive(AccountSet, Debug)]
pub struct SetPassAccounts {
    pub a: MaybeSigner<false, Signer<AccountInfo>>,
    pub b: MaybeMut<false, Mut<AccountInfo>>,
    pub c: MaybeMut<false, MaybeSigner<false, Mut<Signer<SystemAccount>>>>,
    pub d: Signer<MaybeMut<false, Mut<AccountInfo>>>,
    pub e: MaybeSigner<false, MaybeMut<true, MaybeSigner<true, MaybeMut<false, AccountInfo>>>>,
    pub f: Option<MaybeMut<false, Mut<SystemAccount>>>,
    pub g: [MaybeSigner<false, Signer<AccountInfo>>; 2],
    pub h: MaybeMut<false, MaybeSigner<false, AccountInfo>>,
}

pub const ADDR_A: Pubkey = Pubkey::new_from_array([0xA1; 32]);
pub const ADDR_B: Pubkey = Pubkey::new_from_array([0xB2; 32]);
pub const ADDR_C: Pubkey = Pubkey::new_from_array([0xC3; 32]);

/// Multi-variant IDL: the un-named default variant plus the named variants "any" and "other"; per field
/// every combination of un-named / named `address` and `arg` attributes.
#[derive(AccountSet, Debug)]
#[idl(id = "any", arg = u8)]
#[idl(id = "other", arg = u16)]
pub struct SetVariantsAccounts {
    /// un-named address only
    #[idl(address = ADDR_A)]
    pub a: AccountInfo,
    /// named address only
    #[idl(id = "any", address = ADDR_B)]
    pub b: Mut<AccountInfo>,
    /// un-named and named, different addresses
    #[idl(address = ADDR_A)]
    #[idl(id = "any", address = ADDR_B)]
    #[idl(id = "other", address = ADDR_C)]
    pub c: Signer,
    /// nothing
    pub d: AccountInfo,
    /// un-named arg only
    #[validate(arg = Seeds(HxSeeds { owner: *self.a.pubkey() }))]
    #[idl(arg = Seeds(FindHxSeeds { owner: seed_path("a") }))]
    pub e: Seeded<Account<HxUnsized>>,
    /// named arg only
    #[validate(arg = Seeds(HxSeeds { owner: *self.a.pubkey() }))]
    #[idl(id = "any", arg = Seeds(FindHxSeeds { owner: seed_path("a") }))]
    pub f: Seeded<Account<HxUnsized>>,
    /// named ("other") address, un-named arg
    #[validate(arg = Seeds(HxSeeds { owner: *self.a.pubkey() }))]
    #[idl(arg = Seeds(FindHxSeeds { owner: seed_path("d") }))]
    #[idl(id = "other", address = ADDR_C)]
    pub g: Mut<Seeded<Account<HxUnsized>>>,
    /// named arg + address in one attribute, un-named address
    #[validate(arg = Seeds(HxSeeds { owner: *self.a.pubkey() }))]
    #[idl(address = ADDR_B)]
    #[idl(id = "any", arg = Seeds(FindHxSeeds { owner: seed_path("d") }), address = ADDR_A)]
    pub h: Seeded<Account<HxUnsized>>,
}

/// Second multi-variant set: only a named variant carries anything; default idl skipped fields bare.
#[derive(AccountSet, Debug)]
#[idl(id = "pinned", arg = bool)]
pub struct SetVariants2Accounts {
    #[idl(id = "pinned", address = ADDR_C)]
    pub x: Signer<Mut<AccountInfo>>,
    #[idl(address = ADDR_A)]
    pub y: Mut<AccountInfo>,
    pub z: Signer,
}

/// The one-field account set (keeps its struct definition in the IDL since /repo 411da64).
#[derive(AccountSet, Debug)]
pub struct SetOneAccounts {
    pub only: Mut<Signer<AccountInfo>>,
}

/// Optional single accounts only (lowers to Codama, unlike `SetOpt` whose optional group is an `Or`).
#[derive(AccountSet, Debug)]
pub struct SetOptFlatAccounts {
    pub a: Option<Signer<Mut<AccountInfo>>>,
    pub b: Option<Program<System>>,
    pub mid: Mut<AccountInfo>,
    pub last: Option<AccountInfo>,
}

/// `Many` (array) FOLLOWED by an ordinary account: Codama must refuse (`ManyAccountSetsMustComeLast`),
/// never reorder.
#[derive(AccountSet, Debug)]
pub struct SetManyMidAccounts {
    pub vaults: [Mut<SystemAccount>; 2],
    pub authority: Signer<SystemAccount>,
}
/// `Rest` in the middle (type-checks; at runtime it would swallow the tail).
#[derive(AccountSet, Debug)]
pub struct SetRestMidAccounts {
    pub head: Signer,
    pub others: Rest<AccountInfo>,
    pub tail: Mut<AccountInfo>,
}
/// Two `Many`s at the end: lowers, both become remaining accounts, in order.
#[derive(AccountSet, Debug)]
pub struct SetTwoManyAccounts {
    pub head: Signer<Mut<AccountInfo>>,
    pub pair: [AccountInfo; 2],
    pub others: Rest<Mut<AccountInfo>>,
}
/// A `Many` inside a nested struct followed by an account of the OUTER struct.
#[derive(AccountSet, Debug)]
pub struct InnerManyAccounts {
    pub who: Signer,
    pub list: [Mut<AccountInfo>; 2],
}
#[derive(AccountSet, Debug)]
pub struct SetNestedManyMidAccounts {
    pub inner: InnerManyAccounts,
    pub after: AccountInfo,
}

// ---- PDA accounts with 1, 2, 3 relative account-path seeds (+ constant, `:`-rooted, nested-relative mixes)
// at flattened depth 1 (`PdaD1`), 2 (`PdaD2.g`) and 3 (`PdaD3.h.g`), with decoy accounts of the same last
// path component (`mint`, `market`, `owner`, `vault`) at the outer levels.
#[derive(Debug, GetSeeds, Clone)]
#[get_seeds(seed_const = b"P1")]
pub struct Pda1Seeds {
    pub a: Pubkey,
}
#[derive(Debug, GetSeeds, Clone)]
#[get_seeds(seed_const = b"P2")]
pub struct Pda2Seeds {
    pub a: Pubkey,
    pub b: Pubkey,
}
#[derive(Debug, GetSeeds, Clone)]
#[get_seeds(seed_const = b"P3")]
pub struct Pda3Seeds {
    pub a: Pubkey,
    pub b: Pubkey,
    pub c: Pubkey,
}

#[derive(AccountSet, Debug)]
pub struct PdaD1Accounts {
    pub payer: Signer<Mut<SystemAccount>>,
    pub market: AccountInfo,
    pub mint: AccountInfo,
    pub owner: AccountInfo,
    #[validate(arg = Seeds(Pda1Seeds { a: *self.owner.pubkey() }))]
    #[idl(arg = Seeds(FindPda1Seeds { a: seed_path("owner") }))]
    pub v1: Seeded<AccountInfo, Pda1Seeds>,
    #[validate(arg = Seeds(Pda2Seeds { a: *self.market.pubkey(), b: *self.mint.pubkey() }))]
    #[idl(arg = Seeds(FindPda2Seeds { a: seed_path("market"), b: seed_path("mint") }))]
    pub v2: Seeded<Mut<AccountInfo>, Pda2Seeds>,
    #[validate(arg = Seeds(Pda3Seeds { a: *self.market.pubkey(), b: *self.mint.pubkey(), c: *self.owner.pubkey() }))]
    #[idl(arg = Seeds(FindPda3Seeds { a: seed_path("market"), b: seed_path("mint"), c: seed_path("owner") }))]
    pub v3: Seeded<Mut<AccountInfo>, Pda3Seeds>,
    /// relative, `:`-rooted, relative (the rooted one in the middle)
    #[validate(arg = Seeds(Pda3Seeds { a: *self.market.pubkey(), b: *self.payer.pubkey(), c: *self.mint.pubkey() }))]
    #[idl(arg = Seeds(FindPda3Seeds { a: seed_path("market"), b: seed_path(":payer"), c: seed_path("mint") }))]
    pub vmix: Seeded<AccountInfo, Pda3Seeds>,
    /// only `:`-rooted seeds
    #[validate(arg = Seeds(Pda2Seeds { a: *self.payer.pubkey(), b: *self.payer.pubkey() }))]
    #[idl(arg = Seeds(FindPda2Seeds { a: seed_path(":payer"), b: seed_path(":payer") }))]
    pub vnone: Seeded<AccountInfo, Pda2Seeds>,
}

#[derive(AccountSet, Debug)]
pub struct PdaD2Accounts {
    pub payer: Signer<Mut<SystemAccount>>,
    /// decoys: what a lookup one level too high picks up
    pub mint: AccountInfo,
    pub market: AccountInfo,
    pub owner: AccountInfo,
    pub g: PdaD1Accounts,
    /// relative paths INTO a nested set (words separated by a space)
    #[validate(arg = Seeds(Pda2Seeds { a: *self.g.market.pubkey(), b: *self.mint.pubkey() }))]
    #[idl(arg = Seeds(FindPda2Seeds { a: seed_path("g market"), b: seed_path("mint") }))]
    pub top: Seeded<AccountInfo, Pda2Seeds>,
}

#[derive(AccountSet, Debug)]
pub struct PdaD3Accounts {
    /// the `:payer` seeds of the nested sets refer to this root account
    pub payer: Signer,
    pub mint: AccountInfo,
    pub vault: AccountInfo,
    pub h: PdaD2Accounts,
    /// the depth-1 set once more, directly (depth 2 from here)
    pub again: PdaD1Accounts,
}

// ------------------------------------------------------------------------------------------------ instructions
macro_rules! ix {
    ($ix:ident, $accts:ident) => {
        #[derive(BorshSerialize, BorshDeserialize, Debug, InstructionArgs)]
        #[borsh(crate = "star_frame::borsh")]
        pub struct $ix;
        empty_star_frame_instruction!($ix, $accts);
    };
}
ix!(SetBasic, SetBasicAccounts);
ix!(SetOpt, SetOptAccounts);
ix!(SetMany, SetManyAccounts);
ix!(SetNested, SetNestedAccounts);
ix!(SetInit, SetInitAccounts);
ix!(SetOne, SetOneAccounts);
ix!(PdaD1, PdaD1Accounts);
ix!(PdaD2, PdaD2Accounts);
ix!(PdaD3, PdaD3Accounts);
ix!(SetPass, SetPassAccounts);
ix!(SetManyMid, SetManyMidAccounts);
ix!(SetRestMid, SetRestMidAccounts);
ix!(SetTwoMany, SetTwoManyAccounts);
ix!(SetNestedManyMid, SetNestedManyMidAccounts);
ix!(SetOptFlat, SetOptFlatAccounts);
ix!(SetEmpty, EmptyAccounts);

/// An instruction with real arguments (layout of instruction data = discriminant ++ borsh(args)).
#[derive(BorshSerialize, BorshDeserialize, Debug, InstructionArgs)]
#[borsh(crate = "star_frame::borsh")]
pub struct WithArgs {
    pub big: BBig,
    pub e: BEnum,
}
empty_star_frame_instruction!(WithArgs, PairAccounts);

#[derive(InstructionSet)]
pub enum HxIdlInstructionSet {
    SetBasic(SetBasic),
    SetOpt(SetOpt),
    SetMany(SetMany),
    SetNested(SetNested),
    SetInit(SetInit),
    SetOne(SetOne),
    PdaD1(PdaD1),
    PdaD2(PdaD2),
    PdaD3(PdaD3),
    SetPass(SetPass),
    SetManyMid(SetManyMid),
    SetRestMid(SetRestMid),
    SetTwoMany(SetTwoMany),
    SetNestedManyMid(SetNestedManyMid),
    SetOptFlat(SetOptFlat),
    SetEmpty(SetEmpty),
    WithArgs(WithArgs),
}

/// A second program whose instruction set uses `#[repr(u16)]` discriminants and whose accounts
/// use a 2-byte discriminant (widths other than 1 and 8).
pub mod wide {
    use super::*;
    #[derive(StarFrameProgram)]
    #[program(instruction_set = WideInstructionSet, id = Pubkey::new_from_array([0x77; 32]), account_discriminant = [u8; 2], no_entrypoint, no_setup)]
    pub struct HxWide;

    #[zero_copy(pod)]
    #[derive(Debug, PartialEq, Eq, ProgramAccount, Default)]
    #[program_account(program = HxWide, discriminant = [0xAB, 0xCD])]
    pub struct WideAcct {
        pub v: u32,
    }

    #[derive(AccountSet, Debug)]
    pub struct WideAAccounts {
        pub who: Signer,
        pub acct: Mut<Account<WideAcct>>,
    }
    #[derive(BorshSerialize, BorshDeserialize, Debug, InstructionArgs)]
    #[borsh(crate = "star_frame::borsh")]
    #[type_to_idl(program = HxWide)]
    pub struct WideA {
        pub x: u16,
    }
    empty_star_frame_instruction!(WideA, WideAAccounts);
    #[derive(BorshSerialize, BorshDeserialize, Debug, InstructionArgs)]
    #[borsh(crate = "star_frame::borsh")]
    #[type_to_idl(program = HxWide)]
    pub struct WideB;
    empty_star_frame_instruction!(WideB, PairAccounts);

    #[derive(InstructionSet)]
    #[ix_set(use_repr)]
    #[repr(u16)]
    pub enum WideInstructionSet {
        WideA(WideA) = 0x0102,
        WideB(WideB) = 0xFFEE,
    }
}

// ------------------------------------------------------------------------------------------------ table
pub struct SetEntry {
    pub name: &'static str,
    /// the model's view
    pub shape: String,
    /// source key of the instruction carrying this set in the HxIdl IDL
    pub ix_source: String,
}

pub fn set_table() -> Vec<SetEntry> {
    let sys = hex(System::ID.as_ref());
    let me = hex(crate::HxIdl::ID.as_ref());
    let rent = hex(<Rent as star_frame::account_set::sysvar::SysvarId>::id().as_ref());
    let pair = "(struct (left (mut 1 info)) (right (signer 1 info)))";
    let e = |name, shape: String, ix_source: String| SetEntry { name, shape, ix_source };
    vec![
        e(
            "basic",
            format!(
                "(struct (payer (mut 1 (signer 1 info))) (sys (fixed {sys})) (plain info) (ro_signer (signer 1 info)) (w (mut 1 info)) (sw (signer 1 (mut 1 info))) (rent (fixed {rent})) (me (fixed {me})) (nm (mut 0 info)) (ns (signer 0 (mut 1 info))) (ts (signer 1 (mut 1 info))))"
            ),
            star_frame::star_frame_idl::item_source::<SetBasic>(),
        ),
        e(
            "opt",
            format!("(struct (a (opt (signer 1 info))) (b (opt (fixed {sys}))) (c (opt (mut 1 info))) (mid info) (grp (opt {pair})) (last (opt info)))"),
            star_frame::star_frame_idl::item_source::<SetOpt>(),
        ),
        e(
            "many",
            "(struct (first (mut 1 info)) (arr (array (signer 1 info) 3)) (many (rest (mut 1 info))))".to_string(),
            star_frame::star_frame_idl::item_source::<SetMany>(),
        ),
        e(
            "nested",
            format!("(struct (head (signer 1 info)) (pair {pair}) (boxed (box {pair})) (one (struct (only (signer 1 (mut 1 info))))) (tup (struct (# (mut 1 info)) (# info))) (none (struct)) (bx (box (mut 1 info))))"),
            star_frame::star_frame_idl::item_source::<SetNested>(),
        ),
        e(
            "init",
            format!(
                "(struct (funder (mut 1 (signer 1 info))) (owner info) (sys (fixed {sys})) (zc (init (signer 1 info))) (un (init (seeded info))) (existing (mut 1 info)) (seeded (seeded info)) (borsh (mut 1 info)) (val (mut 1 info)))"
            ),
            star_frame::star_frame_idl::item_source::<SetInit>(),
        ),
        e("one", "(struct (only (mut 1 (signer 1 info))))".to_string(), star_frame::star_frame_idl::item_source::<SetOne>()),
        e(
            "optflat",
            format!("(struct (a (opt (signer 1 (mut 1 info)))) (b (opt (fixed {sys}))) (mid (mut 1 info)) (last (opt info)))"),
            star_frame::star_frame_idl::item_source::<SetOptFlat>(),
        ),
        e(
            "manymid",
            "(struct (vaults (array (mut 1 info) 2)) (authority (signer 1 info)))".to_string(),
            star_frame::star_frame_idl::item_source::<SetManyMid>(),
        ),
        e(
            "restmid",
            "(struct (head (signer 1 info)) (others (rest info)) (tail (mut 1 info)))".to_string(),
            star_frame::star_frame_idl::item_source::<SetRestMid>(),
        ),
        e(
            "twomany",
            "(struct (head (signer 1 (mut 1 info))) (pair (array info 2)) (others (rest (mut 1 info))))".to_string(),
            star_frame::star_frame_idl::item_source::<SetTwoMany>(),
        ),
        e(
            "nestedmanymid",
            "(struct (inner (struct (who (signer 1 info)) (list (array (mut 1 info) 2)))) (after info))".to_string(),
            star_frame::star_frame_idl::item_source::<SetNestedManyMid>(),
        ),
        e(
            "passthrough",
            "(struct (a (signer 0 (signer 1 info))) (b (mut 0 (mut 1 info))) (c (mut 0 (signer 0 (mut 1 (signer 1 info))))) (d (signer 1 (mut 0 (mut 1 info)))) (e (signer 0 (mut 1 (signer 1 (mut 0 info))))) (f (opt (mut 0 (mut 1 info)))) (g (array (signer 0 (signer 1 info)) 2)) (h (mut 0 (signer 0 info))))".to_string(),
            star_frame::star_frame_idl::item_source::<SetPass>(),
        ),
        e("empty", "(struct)".to_string(), star_frame::star_frame_idl::item_source::<SetEmpty>()),
    ]
}

// ------------------------------------------------------------------------------------------------ multi-variant sets
/// One `#[idl(..)]` attribute as written in the source above: (variant id, passes Seeds, address).
pub type Attr = (Option<&'static str>, bool, Option<Pubkey>);
pub struct VSet {
    pub name: &'static str,
    /// (field, attributes in source order, the field's account set WITHOUT Seeds as the model sees it)
    pub fields: Vec<(&'static str, Vec<Attr>, &'static str)>,
    pub variants: Vec<Option<&'static str>>,
    /// the REAL IDL of a variant (fresh definition per call: both variants register the same source key)
    pub idl: fn(Option<&str>) -> Option<(star_frame::star_frame_idl::IdlDefinition, star_frame::star_frame_idl::account_set::IdlAccountSetDef)>,
    pub metas: fn(bool) -> Vec<crate::sx::Slot>,
}

pub fn vset_table() -> Vec<VSet> {
    use star_frame::{idl::AccountSetToIdl, star_frame_idl::IdlDefinition};
    fn v1(id: Option<&str>) -> Option<(IdlDefinition, star_frame::star_frame_idl::account_set::IdlAccountSetDef)> {
        let mut def = IdlDefinition::default();
        let set = match id {
            None => <SetVariantsAccounts as AccountSetToIdl<()>>::account_set_to_idl(&mut def, ()),
            Some("any") => <SetVariantsAccounts as AccountSetToIdl<u8>>::account_set_to_idl(&mut def, 0u8),
            Some("other") => <SetVariantsAccounts as AccountSetToIdl<u16>>::account_set_to_idl(&mut def, 0u16),
            _ => return None,
        }
        .ok()?;
        Some((def, set))
    }
    fn v2(id: Option<&str>) -> Option<(IdlDefinition, star_frame::star_frame_idl::account_set::IdlAccountSetDef)> {
        let mut def = IdlDefinition::default();
        let set = match id {
            None => <SetVariants2Accounts as AccountSetToIdl<()>>::account_set_to_idl(&mut def, ()),
            Some("pinned") => <SetVariants2Accounts as AccountSetToIdl<bool>>::account_set_to_idl(&mut def, true),
            _ => return None,
        }
        .ok()?;
        Some((def, set))
    }
    let (a, b, c) = (Some(ADDR_A), Some(ADDR_B), Some(ADDR_C));
    vec![
        VSet {
            name: "variants",
            fields: vec![
                ("a", vec![(None, false, a)], "info"),
                ("b", vec![(Some("any"), false, b)], "(mut 1 info)"),
                ("c", vec![(None, false, a), (Some("any"), false, b), (Some("other"), false, c)], "(signer 1 info)"),
                ("d", vec![], "info"),
                ("e", vec![(None, true, None)], "info"),
                ("f", vec![(Some("any"), true, None)], "info"),
                ("g", vec![(None, true, None), (Some("other"), false, c)], "(mut 1 info)"),
                ("h", vec![(None, false, b), (Some("any"), true, a)], "info"),
            ],
            variants: vec![None, Some("any"), Some("other")],
            idl: v1,
            metas: |present| crate::shipped::metas_of::<SetVariantsAccounts>(&crate::HxIdl::ID, present),
        },
        VSet {
            name: "variants2",
            fields: vec![
                ("x", vec![(Some("pinned"), false, c)], "(signer 1 (mut 1 info))"),
                ("y", vec![(None, false, a)], "(mut 1 info)"),
                ("z", vec![], "(signer 1 info)"),
            ],
            variants: vec![None, Some("pinned")],
            idl: v2,
            metas: |present| crate::shipped::metas_of::<SetVariants2Accounts>(&crate::HxIdl::ID, present),
        },
    ]
}
