use star_frame::prelude::*;
fn main() {
    let idl = <bench::Bench as star_frame::idl::ProgramToIdl>::program_to_idl().unwrap();
    println!("{}", serde_json::to_string(&idl).unwrap().len());
    let idl = <counter::StarFrameDeclaredProgram as star_frame::idl::ProgramToIdl>::program_to_idl().unwrap();
    println!("{}", serde_json::to_string_pretty(&idl).unwrap());
}
