//! Correspondence harness for C17 (generated IDL vs runtime behaviour).
mod c17;
mod reuse;
mod sets;
mod shipped;
mod shipped_gen;
mod sx;
mod types;

use star_frame::prelude::*;

/// The harness program (declared at the crate root: the derive macros refer to
/// `crate::StarFrameDeclaredProgram`).
#[derive(StarFrameProgram, Debug)]
#[program(instruction_set = sets::HxIdlInstructionSet, id = Pubkey::new_from_array([0x48; 32]), no_entrypoint)]
pub struct HxIdl;

fn main() {
    let args = hx_common::Args::parse();
    hx_common::quiet_panics();
    match args.prop.as_str() {
        "C17" => c17::run(&args),
        other => panic!("hx-idl: unknown property {other}"),
    }
}
