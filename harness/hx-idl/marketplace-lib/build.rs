use std::{env, fs, path::{Path, PathBuf}};
fn copy(src: &Path, dst: &Path) {
    fs::create_dir_all(dst).unwrap();
    for e in fs::read_dir(src).unwrap() {
        let e = e.unwrap();
        let (p, d) = (e.path(), dst.join(e.file_name()));
        if p.is_dir() {
            copy(&p, &d);
        } else {
            println!("cargo:rerun-if-changed={}", p.display());
            let mut text = fs::read_to_string(&p).unwrap();
            if p.file_name().unwrap() == "lib.rs" {
                assert!(text.contains("\nmod instructions;"), "marketplace lib.rs layout changed");
                text = text.replace("\nmod instructions;", "\npub mod instructions;");
            }
            fs::write(d, text).unwrap();
        }
    }
}
fn main() {
    let repo = env::var("VERIF_REPO").unwrap_or_else(|_| "/repo".into());
    println!("cargo:rerun-if-env-changed=VERIF_REPO");
    let src = PathBuf::from(&repo).join("example_programs/marketplace/src");
    let out = PathBuf::from(env::var("OUT_DIR").unwrap()).join("mkt");
    let _ = fs::remove_dir_all(&out);
    copy(&src, &out);
}
