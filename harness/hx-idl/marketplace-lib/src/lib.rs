#![allow(clippy::all, unused)]
include!(concat!(env!("OUT_DIR"), "/mkt/lib.rs"));
