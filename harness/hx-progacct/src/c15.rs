//! C15 — Borsh-backed accounts persist and reload faithfully across instructions.
//!
//! Histories over the two borsh account types (`Fix`: fixed size; `Var`: `Vec<u8>` + `String`) of
//! every harness program: decode → set_inner / DerefMut assignment (size-changing values) → cleanup
//! (`AccountSetCleanup`: default, RefundRent, CloseAccount) → `next` (fresh AccountInfos = the next
//! instruction) → decode again + the client-side `DeserializeBorshAccount::deserialize_account`;
//! states writable/read-only × owner program/other × closed; raw (possibly malformed) account bytes.
//!
//! Oracle (plain Rust, reference encodings from the `borsh` crate): the next decode and the client
//! read back the last value left; the length is W + borsh length; read-only / foreign-owned /
//! closed accounts are never written.
use crate::{
    drive::{Driver, Oracle, Snap},
    ops::{Kind, TypeEntry},
    progs::{p8, ZcFF},
};
use borsh::{BorshDeserialize, BorshSerialize};
use hx_common::{hex, Args, Recorder, Rng};

pub const MAX_INCREASE: usize = 10_240;

#[derive(Default)]
pub struct C15Oracle {
    /// value currently in the wrapper, as borsh bytes (tracked from the op lines and answers)
    val: Option<Vec<u8>>,
    have_wrapper: bool,
    /// serialization the account is known to store (set by a write-back that wrote; cleared by any other change)
    stored: Option<Vec<u8>>,
    /// data length at the start of the current instruction
    orig_len: usize,
    /// data borrow the harness currently holds (`borrow` op)
    borrow: String,
}

impl Oracle for C15Oracle {
    fn reset(&mut self) {
        *self = C15Oracle::default();
    }
    fn observe(&mut self, rec: &mut Recorder, pre: Option<&Snap>, line: &str, ans: &str, post: Option<&Snap>) {
        if ans == "bad-op" {
            return;
        }
        let t: Vec<&str> = line.split(' ').collect();
        let Some(post) = post else { return };
        if t[0] == "setup" {
            *self = C15Oracle { orig_len: post.data.len(), borrow: "none".into(), ..Default::default() };
            return;
        }
        let Some(pre) = pre else { return };
        if pre.kind.is_zc() {
            return;
        }
        let w = pre.w();
        let val0 = self.val.clone();
        let detail = || format!("{line} -> {ans}; owner={} writable={} disc={} pre={} post={} val={:?}", hex(&pre.owner), pre.writable, hex(&pre.disc), hex(&pre.data), hex(&post.data), val0.as_ref().map(|v| hex(v)));
        match t[0] {
            "borrow" => self.borrow = t[1].to_string(),
            "next" => {
                self.borrow = "none".into();
                self.val = None;
                self.have_wrapper = false;
                self.orig_len = post.data.len();
            }
            "decode" => {
                self.have_wrapper = ans.starts_with("ok");
                // no more than the discriminant left (closed / never initialised): decoded as "no value"
                if pre.data.len() <= w && ans != "ok none" {
                    rec.fail("closed_account_not_decoded_as_empty", &detail());
                }
                self.val = ans.strip_prefix("ok ").filter(|v| *v != "none").and_then(hx_common::unhex);
                if let Some(st) = &self.stored {
                    if ans != format!("ok {}", hex(st)) && !(self.borrow == "excl" && ans == "err:AccountBorrowFailed") {
                        rec.fail("persist_reload_mismatch", &detail());
                    }
                }
            }
            "client" => {
                if let Some(st) = &self.stored {
                    if ans != format!("ok {}", hex(st)) {
                        rec.fail("client_reload_mismatch", &detail());
                    }
                }
                // the client helper reads an account as this type only if it carries the type's discriminant
                if ans.starts_with("ok") && (pre.data.len() < w || pre.data[..w] != pre.disc[..]) {
                    rec.fail("client_accepts_foreign_discriminant", &detail());
                }
            }
            "reload" => {
                if ans == "panic" {
                    rec.fail("reload_panics", &detail());
                }
                if ans == "ok" {
                    // whatever reload read is what a decode would read; take it from the bytes
                    self.val = Some(post.data[w.min(post.data.len())..].to_vec());
                }
            }
            "set" if ans == "ok" => self.val = hx_common::unhex(t[1]),
            "mutate" if ans == "ok" => self.val = hx_common::unhex(t[1]),
            "poke" | "chown" => {
                if t[0] == "poke" {
                    self.stored = None;
                }
            }
            "close" | "close_nr" => {
                if ans == "ok" {
                    self.stored = None;
                    if post.data != vec![0xFFu8; w] {
                        rec.fail("close_does_not_leave_marker", &detail());
                    }
                } else if post.data != pre.data {
                    rec.fail("failed_close_wrote", &detail());
                }
            }
            "cleanup" | "serialize" | "refund" | "normalize" | "receive" | "refund_c" | "normalize_c" | "receive_c" | "refund_cm" | "normalize_cm" | "receive_cm" => {
                let guards = pre.writable && pre.owner == pre.prog_id && pre.data.len() > w;
                // every variant performs the write-back, except that `ReceiveRent(())` / `RefundRent(())` look the
                // cache up first (and stop there when it is empty)
                let reaches_write_back = !matches!(t[0], "receive_cm" | "refund_cm");
                // failures of the cache / lamports side, which say nothing about the write-back
                let side_err = ans == "err:InsufficientFunds" || (t[0].ends_with("_cm") && (ans == "err:Custom1004" || ans == "err:Custom1005"));
                match (&self.val, guards && reaches_write_back) {
                    (Some(v), true) if self.have_wrapper => {
                        let new_len = w + v.len();
                        if ans == "ok" || side_err {
                            let mut want = pre.data[..w].to_vec();
                            want.extend_from_slice(v);
                            if post.data.len() != new_len {
                                rec.fail("length_not_exact", &detail());
                            } else if post.data != want {
                                rec.fail("written_bytes_wrong", &detail());
                            } else if pre.data[..w] == pre.disc[..] {
                                // (the write-back does not look at the discriminant; only an account that carries
                                // its type's discriminant is promised to read back)
                                self.stored = Some(v.clone());
                            } else {
                                self.stored = None;
                            }
                        } else if (ans == "err:InvalidRealloc" && new_len > self.orig_len + MAX_INCREASE) || (ans == "err:AccountBorrowFailed" && self.borrow != "none") {
                            // refused by the runtime (growth allowance / data borrowed elsewhere): nothing may have been written
                            if post.data != pre.data {
                                rec.fail("failed_cleanup_wrote", &detail());
                            }
                        } else {
                            rec.fail("cleanup_fails", &detail());
                        }
                    }
                    _ => {
                        if post.data != pre.data || post.owner != pre.owner {
                            rec.fail("written_when_guard_false", &detail());
                        }
                        if ans != "ok" && !side_err {
                            rec.fail("cleanup_fails", &detail());
                        }
                    }
                }
            }
            _ => {}
        }
    }
}

// ------------------------------------------------------------------------------------ values
#[derive(BorshSerialize, BorshDeserialize, Debug, Clone, PartialEq, Eq, Default)]
struct RefFix {
    a: u16,
    b: u8,
}
#[derive(BorshSerialize, BorshDeserialize, Debug, Clone, PartialEq, Eq, Default)]
struct RefVar {
    tag: u8,
    bytes: Vec<u8>,
    name: String,
}

const NAMES: &[&str] = &["", "a", "hi", "counter", "héllo ✓ 𝄞", "\u{7ff}\u{800}\u{ffff}\u{10000}\u{10ffff}", "the quick brown fox jumps over the lazy dog"];

fn gen_value(kind: Kind, rng: &mut Rng, big: bool) -> Vec<u8> {
    match kind {
        Kind::Unit => vec![],
        Kind::Fix => borsh::to_vec(&RefFix { a: rng.next() as u16, b: rng.next() as u8 }).unwrap(),
        _ => {
            let n = if big {
                *rng.pick(&[2_000usize, 5_000, 10_200, 10_240])
            } else {
                *rng.pick(&[0usize, 0, 1, 2, 3, 5, 8, 31, 32, 33, 100, 255, 256, 700])
            };
            let name = if rng.chance(1, 8) { "x".repeat(rng.below(300) as usize) } else { rng.pick(NAMES).to_string() };
            borsh::to_vec(&RefVar { tag: rng.next() as u8, bytes: rng.bytes(n), name }).unwrap()
        }
    }
}

/// The runtime check of the codec hypotheses of the Lean theorems (`de (ser x) = x`,
/// `|ser x| = object_length x`) on the harness's real types.
fn check_codec_hyp(rec: &mut Recorder, kind: Kind, ser: &[u8]) {
    fn chk<T: BorshSerialize + BorshDeserialize + PartialEq>(ser: &[u8]) -> bool {
        let Ok(v) = T::try_from_slice(ser) else { return false };
        borsh::to_vec(&v).map(|b| b == ser).unwrap_or(false)
            && borsh::object_length(&v).map(|l| l == ser.len()).unwrap_or(false)
            && T::try_from_slice(&borsh::to_vec(&v).unwrap()).map(|x| x == v).unwrap_or(false)
    }
    let ok = match kind {
        Kind::Unit => chk::<p8::Unit>(ser),
        Kind::Fix => chk::<p8::Fix>(ser),
        _ => chk::<p8::Var>(ser),
    };
    if !ok {
        rec.fail("codec_hypothesis", &hex(ser));
    }
    rec.bump("codec_hypothesis_checked");
}

fn setup_line(e: &TypeEntry, owner: &[u8; 32], writable: bool, data: &[u8]) -> String {
    format!("setup {} {} {} {} {} {}", e.kind.name(), hex(&e.prog_id), hex(&e.disc), hex(owner), writable as u8, hex(data))
}

fn live_data(disc: &[u8], ser: &[u8]) -> Vec<u8> {
    let mut d = disc.to_vec();
    d.extend_from_slice(ser);
    d
}

pub fn run(args: &Args) {
    let _ = std::mem::size_of::<ZcFF>();
    let mut d = Driver {
        rec: Recorder::new(
            "one case per history: a borsh-backed account (type Fix or Var of one of 7 programs) taken through decode/set/mutate/cleanup/next/decode/client \
             sequences with size-changing values, in writable/read-only x owner program/other x closed states, plus raw malformed bytes and PRNG op \
             sequences. Non-trivial: the case contains a write-back that changed the account bytes, or a cleanup on an account that must not be \
             written, or a rejected decode; distinct by case text hash.",
        ),
        it: crate::ops::Interp::new(),
        oracle: C15Oracle::default(),
    };
    if let Some(cases) = args.replay_cases() {
        for c in cases {
            d.case(&c[0]);
            for l in &c[1..] {
                d.op(l);
            }
            d.rec.mark_nontrivial();
        }
        d.rec.finish(args);
        return;
    }
    let mut id = 0u64;
    for c in crate::corpus_cases("C15") {
        id += 1;
        d.case(&format!("case {id} corpus {}", c[0].trim_start_matches("case").trim()));
        for l in &c[1..] {
            d.op(l);
        }
        d.rec.mark_nontrivial();
        d.rec.bump("kind:corpus");
    }
    let mut rng = Rng::new(args.seed);
    let thorough = args.thorough();
    let types: Vec<usize> = (0..d.it.table.len()).filter(|i| !d.it.table[*i].kind.is_zc()).collect();
    let other = hx_native::key_from(99).to_bytes();
    let entry = |d: &Driver<C15Oracle>, ti: usize| {
        let e = &d.it.table[ti];
        (e.kind, e.prog_id, e.disc.clone())
    };

    // 1. live histories: several instructions, each with 0..3 value changes, default / refund cleanup
    let n_hist = if thorough { 30_000 } else { 2_800 };
    for h in 0..n_hist {
        let ti = types[h % types.len()];
        let (kind, pid, disc) = entry(&d, ti);
        let v0 = gen_value(kind, &mut rng, false);
        check_codec_hyp(&mut d.rec, kind, &v0);
        id += 1;
        d.case(&format!("case {id} history {} w{}", kind.name(), disc.len()));
        let l = setup_line(&d.it.table[ti], &pid, true, &live_data(&disc, &v0));
        d.op(&l);
        let n_ix = rng.range(1, 5);
        let mut changed = false;
        for _ in 0..n_ix {
            d.op("decode");
            d.op("validate");
            let before = d.it.core().unwrap().data();
            for _ in 0..rng.below(4) {
                let big = rng.chance(1, 12);
                let v = gen_value(kind, &mut rng, big);
                check_codec_hyp(&mut d.rec, kind, &v);
                d.op(&format!("{} {}", if rng.chance(2, 3) { "set" } else { "mutate" }, hex(&v)));
            }
            if rng.chance(1, 4) {
                d.op("get");
            }
            if rng.chance(1, 6) {
                d.op("serialize");
                d.op("bytes");
            }
            let cl: &str = *rng.pick(&["cleanup", "cleanup", "cleanup", "refund", "normalize", "receive", "refund_c", "normalize_c", "receive_c", "normalize_cm"]);
            d.op(cl);
            d.op("bytes");
            changed |= d.it.core().unwrap().data() != before;
            d.op("client");
            d.op("next");
            d.op("decode");
            d.op("client");
        }
        if changed {
            d.rec.mark_nontrivial();
        }
        d.rec.bump(&format!("kind:history:{}", kind.name()));
        d.rec.sample_current(2);
    }

    // 2. states: writable × owner × closed/short; chown mid-instruction; close then cleanup; oversize values
    for &ti in &types {
        let (kind, pid, disc) = entry(&d, ti);
        let w = disc.len();
        for variant in 0..16u32 {
            let writable = variant & 1 != 0;
            let owner = if variant & 2 != 0 { pid } else { other };
            let v0 = gen_value(kind, &mut rng, false);
            let data: Vec<u8> = match variant >> 2 {
                0 => live_data(&disc, &v0),
                1 => disc.clone(),                         // exactly the discriminant: counts as closed
                2 => vec![0xFF; w],                        // closed by the framework
                _ => disc[..w.saturating_sub(1)].to_vec(), // shorter than the discriminant
            };
            id += 1;
            d.case(&format!("case {id} state {} w{w} wr{} own{} shape{}", kind.name(), writable as u8, (variant & 2 != 0) as u8, variant >> 2));
            let l = setup_line(&d.it.table[ti], &owner, writable, &data);
            d.op(&l);
            d.op("decode");
            d.op("validate");
            let v = gen_value(kind, &mut rng, false);
            d.op(&format!("set {}", hex(&v)));
            d.op(&format!("mutate {}", hex(&v)));
            d.op("get");
            d.op("cleanup");
            d.op("bytes");
            d.op("serialize");
            for o in ["refund", "normalize", "receive", "refund_c", "normalize_c", "receive_c", "refund_cm", "normalize_cm", "receive_cm"] {
                d.op(o);
            }
            d.op("bytes");
            d.op("client");
            d.op("reload");
            d.op("next");
            d.op("decode");
            d.op("client");
            d.rec.mark_nontrivial();
            d.rec.bump("kind:state");
        }
        // an account assigned away in the middle of the instruction, and assigned back
        for back in [false, true] {
            let v0 = gen_value(kind, &mut rng, false);
            let v = gen_value(kind, &mut rng, false);
            id += 1;
            d.case(&format!("case {id} chown {} w{w} back{}", kind.name(), back as u8));
            let l = setup_line(&d.it.table[ti], &pid, true, &live_data(&disc, &v0));
            d.op(&l);
            d.op("decode");
            d.op(&format!("set {}", hex(&v)));
            d.op(&format!("chown {}", hex(&other)));
            d.op("cleanup");
            d.op("bytes");
            if back {
                d.op(&format!("chown {}", hex(&pid)));
                d.op("cleanup");
                d.op("bytes");
            }
            d.op("next");
            d.op("decode");
            d.op("client");
            d.rec.mark_nontrivial();
            d.rec.bump("kind:chown");
        }
        // close, then further write-backs in the same instruction; close with a value that could not be written
        for big in [false, true] {
            let v0 = gen_value(kind, &mut rng, false);
            let v = gen_value(kind, &mut rng, big);
            let huge = if kind == Kind::Var { borsh::to_vec(&RefVar { tag: 1, bytes: vec![7; v0.len() + MAX_INCREASE + 1], name: "n".into() }).unwrap() } else { v.clone() };
            id += 1;
            d.case(&format!("case {id} close {} w{w} big{}", kind.name(), big as u8));
            let l = setup_line(&d.it.table[ti], &pid, true, &live_data(&disc, &v0));
            d.op(&l);
            d.op("decode");
            d.op(&format!("set {}", hex(if big { &huge } else { &v })));
            if big {
                d.op("cleanup"); // over the growth allowance: refused, nothing written
                d.op("bytes");
            }
            d.op("close_nr");
            d.op("close");
            d.op("bytes");
            d.op("cleanup");
            d.op("serialize");
            d.op("refund");
            d.op("bytes");
            d.op("client");
            d.op("next");
            d.op("decode");
            d.op("validate");
            d.op(&format!("set {}", hex(&v)));
            d.op("cleanup");
            d.op("bytes");
            d.rec.mark_nontrivial();
            d.rec.bump("kind:close");
        }
        // growth right at the allowance, from a small account
        if kind == Kind::Var {
            let v0 = borsh::to_vec(&RefVar::default()).unwrap();
            for extra in [MAX_INCREASE - 1, MAX_INCREASE, MAX_INCREASE + 1] {
                let v = borsh::to_vec(&RefVar { tag: 9, bytes: vec![3; extra], name: String::new() }).unwrap();
                id += 1;
                d.case(&format!("case {id} allowance {} w{w} extra{extra}", kind.name()));
                let l = setup_line(&d.it.table[ti], &pid, true, &live_data(&disc, &v0));
                d.op(&l);
                d.op("decode");
                d.op(&format!("set {}", hex(&v)));
                d.op("cleanup");
                d.op("bytes");
                d.op("next");
                d.op("decode");
                d.op("cleanup");
                d.op("client");
                d.rec.mark_nontrivial();
                d.rec.bump("kind:allowance");
            }
        }
    }

    // 2b. EVERY cleanup variant after a size-changing value change (grow / shrink), then a second variant in the same
    //     instruction after another change (the rent top-up path: a System Transfer CPI through the funder)
    const CLEANUPS: &[&str] = &["cleanup", "refund", "normalize", "receive", "refund_c", "normalize_c", "receive_c", "refund_cm", "normalize_cm", "receive_cm"];
    for &ti in &types {
        let (kind, pid, disc) = entry(&d, ti);
        for (ci, op) in CLEANUPS.iter().enumerate() {
            for grow in [true, false] {
                let small = gen_value(kind, &mut rng, false);
                let large = if kind == Kind::Var { borsh::to_vec(&RefVar { tag: ci as u8, bytes: rng.bytes(300 + ci), name: "grown".into() }).unwrap() } else { gen_value(kind, &mut rng, false) };
                let (v0, v1) = if grow { (small.clone(), large.clone()) } else { (large.clone(), small.clone()) };
                check_codec_hyp(&mut d.rec, kind, &v1);
                id += 1;
                d.case(&format!("case {id} variant {} w{} {op} grow{}", kind.name(), disc.len(), grow as u8));
                let l = setup_line(&d.it.table[ti], &pid, true, &live_data(&disc, &v0));
                d.op(&l);
                d.op("decode");
                d.op(&format!("set {}", hex(&v1)));
                d.op(op);
                d.op("bytes");
                d.op("client");
                // a second change and a second (different) variant in the same instruction
                d.op(&format!("mutate {}", hex(&v0)));
                d.op(CLEANUPS[(ci + 3) % CLEANUPS.len()]);
                d.op("bytes");
                d.op(&format!("set {}", hex(&large)));
                d.op(CLEANUPS[(ci + 2) % CLEANUPS.len()]);
                d.op("bytes");
                d.op("next");
                d.op("decode");
                d.op("client");
                d.rec.mark_nontrivial();
                d.rec.bump("kind:variant");
            }
        }
    }

    // 3. raw account bytes: truncated / trailing / bad length prefixes / invalid UTF-8 behind a right or wrong discriminant
    let n_raw = if thorough { 40_000 } else { 4_200 };
    for r in 0..n_raw {
        let ti = types[r % types.len()];
        let (kind, pid, disc) = entry(&d, ti);
        let mut body = gen_value(kind, &mut rng, false);
        match rng.below(8) {
            0 => body.truncate(rng.below(body.len() as u64 + 1) as usize),
            1 => {
                let n = rng.range(1, 4) as usize;
                body.extend(rng.bytes(n))
            }
            2 if !body.is_empty() => {
                let p = rng.below(body.len().min(12) as u64) as usize;
                body[p] = rng.next() as u8;
            }
            3 if kind == Kind::Var => {
                // a name of random (mostly invalid UTF-8) bytes
                let n = rng.range(1, 6) as usize;
                let bad = rng.bytes(n);
                let mut b = vec![rng.next() as u8];
                b.extend_from_slice(&0u32.to_le_bytes());
                b.extend_from_slice(&(n as u32).to_le_bytes());
                b.extend_from_slice(&bad);
                body = b;
            }
            4 if kind == Kind::Var => {
                // UTF-8 boundary sequences
                let seqs: &[&[u8]] = &[&[0xC2, 0x80], &[0xC1, 0x80], &[0xE0, 0xA0, 0x80], &[0xE0, 0x9F, 0x80], &[0xED, 0x9F, 0xBF], &[0xED, 0xA0, 0x80], &[0xF0, 0x90, 0x80, 0x80], &[0xF0, 0x8F, 0x80, 0x80], &[0xF4, 0x8F, 0xBF, 0xBF], &[0xF4, 0x90, 0x80, 0x80], &[0xF5, 0x80, 0x80, 0x80], &[0x80], &[0xE2, 0x82], &[0xFF]];
                let s = rng.pick(seqs);
                let mut b = vec![rng.next() as u8];
                b.extend_from_slice(&0u32.to_le_bytes());
                b.extend_from_slice(&(s.len() as u32).to_le_bytes());
                b.extend_from_slice(s);
                body = b;
            }
            _ => {}
        }
        let mut data = live_data(&disc, &body);
        if rng.chance(1, 6) && !disc.is_empty() {
            let p = rng.below(disc.len() as u64) as usize;
            data[p] ^= 1 << rng.below(8);
        }
        id += 1;
        d.case(&format!("case {id} raw {} w{}", kind.name(), disc.len()));
        let l = setup_line(&d.it.table[ti], if rng.chance(5, 6) { &pid } else { &other }, rng.chance(3, 4), &data);
        d.op(&l);
        let a = d.op("decode");
        d.op("client");
        d.op("validate");
        d.op("cleanup");
        d.op("bytes");
        if !a.starts_with("ok") {
            d.rec.mark_nontrivial();
        }
        d.rec.bump("kind:raw");
    }

    // 4. PRNG op sequences
    let n_rand = if thorough { 100_000 } else { 8_000 };
    for _ in 0..n_rand {
        let ti = *rng.pick(&types);
        let (kind, pid, disc) = entry(&d, ti);
        let v0 = gen_value(kind, &mut rng, false);
        id += 1;
        d.case(&format!("case {id} random {} w{}", kind.name(), disc.len()));
        let l = setup_line(&d.it.table[ti], if rng.chance(5, 6) { &pid } else { &other }, rng.chance(4, 5), &live_data(&disc, &v0));
        d.op(&l);
        d.op("decode");
        for _ in 0..rng.range(4, 14) {
            let line = match rng.below(20) {
                0 | 1 => "decode".to_string(),
                2 => "validate".to_string(),
                3..=6 => {
                    let big = rng.chance(1, 10);
                    format!("set {}", hex(&gen_value(kind, &mut rng, big)))
                }
                7 | 8 => format!("mutate {}", hex(&gen_value(kind, &mut rng, false))),
                9 => "get".to_string(),
                10..=12 => "cleanup".to_string(),
                13 => "serialize".to_string(),
                14 => rng.pick(&["refund", "normalize", "receive", "refund_c", "normalize_c", "receive_c", "refund_cm", "normalize_cm", "receive_cm"]).to_string(),
                15 => "next".to_string(),
                16 => "client".to_string(),
                17 => match rng.below(5) {
                    4 => {
                        // the data changes under the wrapper (as a CPI could do)
                        let cur = d.it.core().map(|c| c.data().len()).unwrap_or(0);
                        if cur == 0 {
                            "bytes".to_string()
                        } else {
                            format!("poke {} {}", rng.below(cur as u64), hex(&[rng.next() as u8]))
                        }
                    }
                    0 => "close".to_string(),
                    1 => format!("chown {}", hex(if rng.chance(1, 2) { &pid } else { &other })),
                    2 => "reload".to_string(),
                    _ => format!("borrow {}", rng.pick(&["none", "shared", "excl"])),
                },
                _ => "bytes".to_string(),
            };
            d.op(&line);
        }
        d.op("borrow none");
        d.op("bytes");
        d.rec.mark_nontrivial();
        d.rec.bump("kind:random");
    }
    d.rec.extra.insert("fund_rent_transfer_cpis".into(), hx_common::json!(crate::ops::CPI_TRANSFERS.load(std::sync::atomic::Ordering::Relaxed)));
    d.rec.finish(args);
}
