//! Line-driven execution with a per-property oracle observing every op.
use crate::ops::{Interp, Kind};
use hx_common::Recorder;

/// What the oracle may look at: the account as it is (read raw), and which type it is claimed as.
#[derive(Clone, Debug)]
pub struct Snap {
    pub kind: Kind,
    pub prog_id: [u8; 32],
    pub disc: Vec<u8>,
    pub owner: [u8; 32],
    pub writable: bool,
    pub data: Vec<u8>,
}

impl Snap {
    pub fn w(&self) -> usize {
        self.disc.len()
    }
    /// The property's admission condition, in plain Rust.
    pub fn admitted(&self) -> bool {
        self.owner == self.prog_id && self.data.len() >= self.w() && self.data[..self.w()] == self.disc[..]
    }
}

pub fn snap(it: &Interp) -> Option<Snap> {
    it.core().map(|c| Snap { kind: c.kind, prog_id: c.prog_id, disc: c.disc.clone(), owner: c.owner(), writable: c.writable(), data: c.data() })
}

pub trait Oracle {
    fn reset(&mut self);
    fn observe(&mut self, rec: &mut Recorder, pre: Option<&Snap>, line: &str, ans: &str, post: Option<&Snap>);
}

pub struct Driver<O: Oracle> {
    pub rec: Recorder,
    pub it: Interp,
    pub oracle: O,
}

impl<O: Oracle> Driver<O> {
    pub fn case(&mut self, header: &str) {
        self.rec.case(header);
        self.it.reset();
        self.oracle.reset();
    }
    pub fn op(&mut self, line: &str) -> String {
        let pre = snap(&self.it);
        let ans = self.it.exec(line);
        let post = snap(&self.it);
        self.rec.op(line, &ans);
        let head = line.split(' ').next().unwrap_or("");
        let cls = if ans.starts_with("ok") || head == "bytes" { "ok" } else { ans.as_str() };
        self.rec.bump(&format!("op:{head}:{cls}"));
        self.oracle.observe(&mut self.rec, pre.as_ref(), line, &ans, post.as_ref());
        ans
    }
}
