//! Correspondence harness for the program-account properties C08 (admission) and C15 (borsh-backed
//! accounts persist and reload).
mod c08;
mod c15;
mod drive;
mod ops;
pub mod progs;

use star_frame::prelude::*;

/// The crate's DECLARED program (`crate::StarFrameDeclaredProgram`): what a program-account
/// declaration without a `program` argument refers to. Default `[u8; 8]` discriminant type.
#[derive(StarFrameProgram)]
#[program(instruction_set = (), id = Pubkey::new_from_array(progs::prog_id(0xD0)), no_entrypoint, skip_idl)]
pub struct DeclProg;

/// Cases of `/verif/corpus/<prop>/*.replay` (run first on every check).
pub fn corpus_cases(prop: &str) -> Vec<Vec<String>> {
    let dir = std::path::PathBuf::from(std::env::var("VERIF_DIR").unwrap_or_else(|_| "/verif".into())).join("corpus").join(prop);
    let mut files: Vec<_> = match std::fs::read_dir(&dir) {
        Ok(rd) => rd.filter_map(|e| e.ok()).map(|e| e.path()).filter(|p| p.extension().map(|x| x == "replay").unwrap_or(false)).collect(),
        Err(_) => return vec![],
    };
    files.sort();
    let mut cases: Vec<Vec<String>> = vec![];
    for f in files {
        let text = std::fs::read_to_string(&f).unwrap_or_default();
        let mut first = true;
        for l in text.lines() {
            let l = l.trim_end();
            if l.is_empty() || l.starts_with('#') {
                continue;
            }
            if l.starts_with("case") || first {
                cases.push(vec![]);
                if !l.starts_with("case") {
                    cases.last_mut().unwrap().push("case".to_string());
                }
            }
            first = false;
            cases.last_mut().unwrap().push(l.to_string());
        }
    }
    cases
}

fn main() {
    let args = hx_common::Args::parse();
    hx_common::quiet_panics();
    match args.prop.as_str() {
        "C08" => c08::run(&args),
        "C15" => c15::run(&args),
        "TYPES" => {
            for e in ops::table() {
                println!("{} {} {}", e.kind.name(), hx_common::hex(&e.prog_id), hx_common::hex(&e.disc));
            }
        }
        other => panic!("hx-progacct: unknown property {other}"),
    }
}
