//! C08 — Program accounts are admitted iff owner and discriminant match.
//!
//! Grid (quick = thorough = the whole grid; thorough adds more PRNG cases): for each of the 40
//! account types (13 discriminant widths 0,1,2,3,4,5,6,7,8,12,16,24,32 × zero-copy/fixed-borsh/variable-borsh + the closed-marker
//! type; plus 12 types declared through every other declaration form, see progs.rs): owner ∈ {the program NAMED
//! in the declaration, each of its 256 single-bit flips, System, every other harness program, and the multi-word
//! deviations a folded comparison would cancel (`cancelling_variants`: equal xor masks in 2..4 words, +m/-m, swapped
//! words, every 2-bit deviation (b, b+64k), byte pairs; the same for discriminants of >= 16 bytes)}; data length 0..W+3 (and
//! W+8); discriminant prefix ∈ {exact, every single-byte deviation, all-0xFF, all-zero}; writable
//! t/f; data borrowed (exclusively / 7 shared / 1 shared) or not; then `close_account` and
//! re-validation. Observed: class of decode, `validate_accounts`, `data()`, `data_mut()`.
use crate::{
    drive::{Driver, Oracle, Snap},
    ops::{Interp, Kind, TypeEntry},
};
use hx_common::{hex, Args, Recorder, Rng};

#[derive(Default)]
pub struct C08Oracle {
    borrow: String,
    /// the framework closed the account (close_account succeeded) and nothing has rewritten its data since
    closed: bool,
}

impl Oracle for C08Oracle {
    fn reset(&mut self) {
        self.borrow = "none".into();
        self.closed = false;
    }
    fn observe(&mut self, rec: &mut Recorder, pre: Option<&Snap>, line: &str, ans: &str, post: Option<&Snap>) {
        if ans == "bad-op" {
            return;
        }
        let t: Vec<&str> = line.split(' ').collect();
        if t[0] == "borrow" {
            self.borrow = t[1].to_string();
        }
        if t[0] == "next" || t[0] == "setup" {
            self.borrow = "none".into();
        }
        if t[0] == "setup" || t[0] == "poke" {
            self.closed = false;
        }
        let Some(pre) = pre else { return };
        let w = pre.w();
        let body = pre.kind.body_ok();
        let can_read = self.borrow == "none" || self.borrow == "shared";
        let admit = pre.admitted();
        let detail = || format!("{line} -> {ans}; owner={} data={} writable={} disc={} borrow={}", hex(&pre.owner), hex(&pre.data), pre.writable, hex(&pre.disc), self.borrow);
        match t[0] {
            "validate" => {
                if ans == "ok" && self.closed && w > 0 && pre.disc != vec![0xFFu8; w] {
                    // "an account closed by the framework no longer validates as its type"
                    rec.fail("closed_account_validates", &detail());
                }
                if ans == "panic" {
                    rec.fail("validate_panics", &detail());
                } else if ans == "ok" && !admit {
                    rec.fail("admits_non_matching_account", &detail());
                } else if ans != "ok" && admit && (w == 0 || can_read) {
                    rec.fail("rejects_matching_account", &detail());
                } else if ans != "ok" && !admit && can_read && !["err:AccountDataTooSmall", "err:Custom1003", "err:InvalidAccountOwner"].contains(&ans) {
                    rec.fail("rejection_not_owner_size_or_discriminant", &detail());
                }
            }
            "data" => {
                if let Some(v) = ans.strip_prefix("ok ") {
                    if pre.writable && !admit {
                        rec.fail("view_without_admission", &detail());
                    }
                    if pre.data.len() < w + body || v != hex(&pre.data[w..w + body]) {
                        rec.fail("view_wrong_bytes", &detail());
                    }
                } else if ans == "panic" {
                    rec.fail("data_panics", &detail());
                } else if admit && can_read && pre.data.len() >= w + body {
                    rec.fail("view_refused_for_admitted_account", &detail());
                }
            }
            "data_mut" => {
                if let Some(v) = ans.strip_prefix("ok ") {
                    if !pre.writable {
                        rec.fail("data_mut_on_readonly", &detail());
                    } else if !admit {
                        rec.fail("view_without_admission", &detail());
                    }
                    if pre.data.len() < w + body || v != hex(&pre.data[w..w + body]) {
                        rec.fail("view_wrong_bytes", &detail());
                    }
                } else if ans == "panic" {
                    rec.fail("data_mut_panics", &detail());
                } else if admit && pre.writable && self.borrow == "none" && pre.data.len() >= w + body {
                    rec.fail("view_refused_for_admitted_account", &detail());
                }
            }
            "close" => {
                if ans == "ok" {
                    let post = post.unwrap();
                    self.closed = true;
                    if post.data != vec![0xFFu8; w] {
                        rec.fail("close_does_not_leave_marker", &detail());
                    }
                } else if self.borrow == "none" {
                    rec.fail("close_fails", &detail());
                }
            }
            _ => {}
        }
    }
}

fn setup_line(e: &TypeEntry, owner: &[u8; 32], writable: bool, data: &[u8]) -> String {
    format!("setup {} {} {} {} {} {}", e.kind.name(), hex(&e.prog_id), hex(&e.disc), hex(owner), writable as u8, hex(data))
}

/// Prefix patterns for data of length `len` under a `w`-byte discriminant. `full`: every single-byte
/// deviation (255 values per position for w ≤ 2, 8 values otherwise); else first/last byte only.
fn patterns(kind: Kind, disc: &[u8], len: usize, full: bool) -> Vec<(String, Vec<u8>)> {
    let w = disc.len();
    // the bytes behind the prefix: a valid body of the type when the length allows it
    let body = |v: &mut Vec<u8>| {
        let mut k = 0xA0u8;
        while v.len() < len {
            v.push(if kind == Kind::Var && v.len() > w { 0 } else { k });
            k = k.wrapping_add(1);
        }
        v.truncate(len);
    };
    let mut out = vec![];
    let mut mk = |name: String, prefix: Vec<u8>| {
        let mut v = prefix;
        body(&mut v);
        out.push((name, v));
    };
    mk("exact".into(), disc.to_vec());
    mk("ff".into(), vec![0xFF; w]);
    mk("zero".into(), vec![0; w]);
    let avail = w.min(len);
    let positions: Vec<usize> = if full { (0..avail).collect() } else if avail == 0 { vec![] } else if avail == 1 { vec![0] } else { vec![0, avail - 1] };
    for pos in positions {
        let deltas: Vec<u8> = if full && w <= 2 { (1..=255u8).collect() } else if full { vec![1, 2, 4, 8, 16, 32, 64, 128] } else { vec![1, 128] };
        for d in deltas {
            let mut p = disc.to_vec();
            p[pos] ^= d;
            mk(format!("dev{pos}x{d:02x}"), p);
        }
    }
    out
}

fn observe_ops(d: &mut Driver<C08Oracle>, kind: Kind, borrows: bool, close: bool) {
    let mut oks = 0;
    let mut errs = 0;
    let mut count = |a: String| {
        if a.starts_with("ok") {
            oks += 1
        } else {
            errs += 1
        }
    };
    count(d.op("decode"));
    count(d.op("validate"));
    if kind.is_zc() {
        count(d.op("data"));
        count(d.op("data_mut"));
    }
    if borrows {
        for b in ["excl", "shared7", "shared"] {
            d.op(&format!("borrow {b}"));
            count(d.op("decode"));
            count(d.op("validate"));
            if kind.is_zc() {
                count(d.op("data"));
                count(d.op("data_mut"));
            }
        }
        d.op("borrow none");
        d.op("decode");
    }
    if close {
        count(d.op("close"));
        d.op("bytes");
        count(d.op("decode"));
        count(d.op("validate"));
        if kind.is_zc() {
            count(d.op("data"));
            count(d.op("data_mut"));
        }
    }
    if oks > 0 && errs > 0 {
        d.rec.mark_nontrivial();
    }
}

/// Deviations of a byte string of at least two 8-byte words that a FOLDED (xor / add) word-wise comparison would
/// cancel (the generator of C09's `adversarial_variants`, for any width): the same xor mask in every subset of ≥ 2
/// words, +m / −m in two words, swapped words, reversed / inverted bytes, every 2-bit deviation (b, b + 64k), and one
/// byte value xor-ed into bytes i and i + 8k.
fn cancelling_variants(base: &[u8], rng: &mut Rng) -> Vec<(String, Vec<u8>)> {
    let nw = base.len() / 8;
    let mut out: Vec<(String, Vec<u8>)> = vec![];
    if nw < 2 {
        return out;
    }
    let word = |k: &[u8], i: usize| u64::from_le_bytes(k[i * 8..i * 8 + 8].try_into().unwrap());
    let set = |k: &mut [u8], i: usize, v: u64| k[i * 8..i * 8 + 8].copy_from_slice(&v.to_le_bytes());
    for subset in 1u32..(1 << nw) {
        if subset.count_ones() < 2 {
            continue;
        }
        for (mi, mask) in [1u64, 0x80, 1 << 63, 0xA5 << 40, rng.next() | 1, u64::MAX].into_iter().enumerate() {
            let mut k = base.to_vec();
            for i in 0..nw {
                if subset & (1 << i) != 0 {
                    let w = word(&k, i) ^ mask;
                    set(&mut k, i, w);
                }
            }
            out.push((format!("xor{subset:x}m{mi}"), k));
        }
    }
    for i in 0..nw {
        for j in 0..nw {
            if i == j {
                continue;
            }
            for (mi, m) in [1u64, 0x100, rng.next() | 1].into_iter().enumerate() {
                let mut k = base.to_vec();
                let (wi, wj) = (word(&k, i).wrapping_add(m), word(&k, j).wrapping_sub(m));
                set(&mut k, i, wi);
                set(&mut k, j, wj);
                out.push((format!("add{i}sub{j}m{mi}"), k));
            }
            if i < j {
                let mut k = base.to_vec();
                let (wi, wj) = (word(base, i), word(base, j));
                set(&mut k, i, wj);
                set(&mut k, j, wi);
                out.push((format!("swap{i}_{j}"), k));
                // every 2-bit deviation: the same bit of two words
                for b in 0..64 {
                    let mut k = base.to_vec();
                    k[i * 8 + b / 8] ^= 1 << (b % 8);
                    k[j * 8 + b / 8] ^= 1 << (b % 8);
                    out.push((format!("bits{}_{}", i * 64 + b, j * 64 + b), k));
                }
                // one byte value xor-ed into the same byte of two words
                for pos in 0..8 {
                    let v = (rng.next() as u8) | 1;
                    let mut k = base.to_vec();
                    k[i * 8 + pos] ^= v;
                    k[j * 8 + pos] ^= v;
                    out.push((format!("byte{}_{}", i * 8 + pos, j * 8 + pos), k));
                }
            }
        }
    }
    let mut r = base.to_vec();
    r.reverse();
    out.push(("reversed".into(), r));
    out.push(("inverted".into(), base.iter().map(|b| !b).collect()));
    out.retain(|(_, k)| k[..] != base[..]);
    out
}

fn flip(k: &[u8; 32], bit: usize) -> [u8; 32] {
    let mut o = *k;
    o[bit / 8] ^= 1 << (bit % 8);
    o
}

pub fn run(args: &Args) {
    let mut d = Driver {
        rec: Recorder::new(
            "one case per (account type, owner, writable, data) point of the grid in c08.rs, each observing decode/validate/data()/data_mut() \
             (optionally under held borrows and after close_account); plus PRNG op sequences with poke/chown. Non-trivial: the case contains \
             at least one accepted and one rejected observation; distinct by case text hash.",
        ),
        it: Interp::new(),
        oracle: C08Oracle::default(),
    };
    if let Some(cases) = args.replay_cases() {
        for c in cases {
            d.case(&c[0]);
            for l in &c[1..] {
                d.op(l);
            }
            d.rec.mark_nontrivial();
        }
        d.rec.finish(args);
        return;
    }
    let ntypes = d.it.table.len();
    let mut rng_adv = Rng::new(args.seed ^ 0xADAD);
    let mut id = 0u64;
    let sys = [0u8; 32];
    for c in crate::corpus_cases("C08") {
        id += 1;
        d.case(&format!("case {id} corpus {}", c[0].trim_start_matches("case").trim()));
        for l in &c[1..] {
            d.op(l);
        }
        d.rec.mark_nontrivial();
        d.rec.bump("grid:corpus");
    }
    for ti in 0..ntypes {
        let (kind, pid, disc) = {
            let e = &d.it.table[ti];
            (e.kind, e.prog_id, e.disc.clone())
        };
        let w = disc.len();
        let body_ok = kind.body_ok();
        d.rec.bump(&format!("type:{}:w{w}", kind.name()));
        // (a) owner sweep on the exact data: id, every single-bit flip, System
        let exact: Vec<u8> = patterns(kind, &disc, w + body_ok, false)[0].1.clone();
        let mut owners: Vec<(String, [u8; 32])> = vec![("id".into(), pid), ("system".into(), sys)];
        owners.extend((0..256).map(|b| (format!("flip{b}"), flip(&pid, b))));
        // every OTHER harness program (incl. the crate's declared program): an account owned by one of them must
        // not be admitted as a type declared for `pid`, whatever the declaration form
        let mut others: Vec<[u8; 32]> = d.it.table.iter().map(|e| e.prog_id).filter(|p| *p != pid).collect();
        others.sort();
        others.dedup();
        owners.extend(others.into_iter().map(|p| (format!("prog{:02x}", p[1]), p)));
        let mut wrong = exact.clone();
        if w > 0 {
            wrong[w - 1] ^= 0x80;
        }
        let variants: Vec<(&str, Vec<u8>)> = vec![("exact", exact.clone()), ("exact-nobody", exact[..w].to_vec()), ("lastdev", wrong), ("short", exact[..w.saturating_sub(1)].to_vec())];
        for (oi, (oname, owner)) in owners.iter().enumerate() {
            for (vname, data) in &variants {
                for writable in [true, false] {
                    id += 1;
                    d.case(&format!("case {id} owner-sweep {} w{w} {oname} {vname} wr{}", kind.name(), writable as u8));
                    let l = setup_line(&d.it.table[ti], owner, writable, data);
                    d.op(&l);
                    observe_ops(&mut d, kind, false, oi < 4);
                    d.rec.bump("grid:owner_sweep");
                }
            }
        }
        // (a') owners that differ from the program id in SEVERAL words at once, in ways a folded word-wise comparison cancels
        for (ai, (aname, owner)) in cancelling_variants(&pid, &mut rng_adv).into_iter().enumerate() {
            let owner: [u8; 32] = owner.try_into().unwrap();
            id += 1;
            d.case(&format!("case {id} owner-adv {} w{w} {aname}", kind.name()));
            let l = setup_line(&d.it.table[ti], &owner, ai % 2 == 0, &exact);
            d.op(&l);
            observe_ops(&mut d, kind, false, false);
            d.rec.bump("grid:owner_adversarial");
        }
        // (b') the same for discriminants of two or more words (W >= 16), under the right owner
        for (aname, prefix) in cancelling_variants(&disc, &mut rng_adv) {
            for len in [w, w + body_ok] {
                let mut data = prefix.clone();
                data.extend_from_slice(&exact[w..]);
                data.truncate(len);
                for writable in [true, false] {
                    id += 1;
                    d.case(&format!("case {id} disc-adv {} w{w} len{len} {aname} wr{}", kind.name(), writable as u8));
                    let l = setup_line(&d.it.table[ti], &pid, writable, &data);
                    d.op(&l);
                    observe_ops(&mut d, kind, false, false);
                    d.rec.bump("grid:disc_adversarial");
                }
                if body_ok == 0 {
                    break;
                }
            }
        }
        // (b) data sweep: every length, every prefix pattern, writable t/f, owner = id; a reduced set for foreign owners
        let mut lens: Vec<usize> = (0..=w + 3).collect();
        lens.push(w + 9);
        for &len in &lens {
            // every position x 8 bit values at every length; for the wide discriminants (> 16 bytes) at the lengths
            // around the boundaries only (first / last position elsewhere)
            let full = w <= 16 || len + 1 >= w || len <= 1;
            for (pname, data) in patterns(kind, &disc, len, full) {
                let key = pname.starts_with("dev");
                for writable in [true, false] {
                    let owner_set: Vec<(&str, [u8; 32])> = if !key || pname.ends_with("x01") || pname.ends_with("x80") {
                        vec![("id", pid), ("system", sys), ("flip0", flip(&pid, 0)), ("flip255", flip(&pid, 255))]
                    } else {
                        vec![("id", pid)]
                    };
                    for (oname, owner) in owner_set {
                        id += 1;
                        d.case(&format!("case {id} data-sweep {} w{w} len{len} {pname} {oname} wr{}", kind.name(), writable as u8));
                        let l = setup_line(&d.it.table[ti], &owner, writable, &data);
                        d.op(&l);
                        let special = !key || pname.ends_with("x80");
                        let borrows = special && oname == "id" && (len == w + body_ok || len + 1 == w || len == w);
                        let close = special && (oname == "id" || oname == "system") && (len == w + body_ok || len == w || len == 0);
                        observe_ops(&mut d, kind, borrows, close);
                        d.rec.bump("grid:data_sweep");
                    }
                }
            }
        }
        d.rec.sample_current(3);
    }
    // (c) PRNG op sequences: changes after validation (poke / chown / close / next) and re-validation on access
    let mut rng = Rng::new(args.seed);
    let n = if args.thorough() { 200_000 } else { 20_000 };
    for _ in 0..n {
        let ti = rng.below(ntypes as u64) as usize;
        let (kind, pid, disc) = {
            let e = &d.it.table[ti];
            (e.kind, e.prog_id, e.disc.clone())
        };
        let w = disc.len();
        let owner = match rng.below(6) {
            0 => sys,
            1 => flip(&pid, rng.below(256) as usize),
            _ => pid,
        };
        let len = rng.below(w as u64 + 6) as usize;
        let len = if rng.chance(1, 3) { w + 9 } else { len };
        let mut data = patterns(kind, &disc, len, false)[0].1.clone();
        if rng.chance(1, 3) && len > 0 {
            let p = rng.below(len as u64) as usize;
            data[p] ^= 1 << rng.below(8);
        }
        id += 1;
        d.case(&format!("case {id} random {} w{w}", kind.name()));
        let l = setup_line(&d.it.table[ti], &owner, rng.chance(2, 3), &data);
        d.op(&l);
        d.op("decode");
        let steps = rng.range(3, 10);
        for _ in 0..steps {
            let line = match rng.below(14) {
                0 => "decode".to_string(),
                1 | 2 => "validate".to_string(),
                3 | 4 => "data".to_string(),
                5 | 6 => "data_mut".to_string(),
                7 => "close".to_string(),
                8 => format!("borrow {}", rng.pick(&["none", "shared", "shared7", "excl"])),
                9 => {
                    let cur = d.it.core().map(|c| c.data().len()).unwrap_or(0);
                    if cur == 0 {
                        "bytes".to_string()
                    } else {
                        let off = rng.below(cur as u64) as usize;
                        // aim at the discriminant half of the time: restore it or break it
                        if off < w && rng.chance(1, 2) {
                            format!("poke {off} {}", hex(&disc[off..off + 1]))
                        } else {
                            format!("poke {off} {}", hex(&[rng.next() as u8]))
                        }
                    }
                }
                10 => format!("chown {}", hex(if rng.chance(1, 2) { &pid } else { &sys })),
                11 => "next".to_string(),
                12 => "close_nr".to_string(),
                _ => "cleanup".to_string(),
            };
            d.op(&line);
        }
        d.rec.mark_nontrivial();
        d.rec.bump("grid:random");
    }
    d.rec.exhaustive = Some(true);
    d.rec.finish(args);
}
