//! Harness programs: one per account-discriminant width (0, 1, 2, 3, 4, 5, 6, 7, 8, 12, 16, 24, 32 bytes;
//! integer and byte-array discriminant types), each with two zero-copy account types (`Zc`: a 2-byte Pod body, `Zc0`:
//! a ZERO-SIZED body) and three borsh-backed ones (`Fix`: fixed size, `Var`: `Vec<u8>` + `String`, `Unit`: empty).
//!
//! Program ids and discriminants follow the same formula as `progIdOf` / `discOf` in
//! `lean/Account/Account/Driver/ProgAcct.lean`.
use star_frame::prelude::*;

/// What `data()` / `data_mut()` expose of an account type: the bytes of its fixed-size part.
pub trait ZcView: ProgramAccount + UnsizedType + 'static {
    fn show(p: &Self::Ptr) -> Vec<u8>;
}
macro_rules! pod_view {
    ($t:ty) => {
        impl ZcView for $t {
            fn show(p: &<Self as UnsizedType>::Ptr) -> Vec<u8> {
                bytemuck::bytes_of::<$t>(&**p).to_vec()
            }
        }
    };
}
macro_rules! ab_view {
    ($t:ty) => {
        impl ZcView for $t {
            fn show(p: &<Self as UnsizedType>::Ptr) -> Vec<u8> {
                vec![p.a, p.b]
            }
        }
    };
}

pub const fn prog_id(w: u8) -> [u8; 32] {
    let mut b = [0x11u8; 32];
    b[0] = 0x50;
    b[1] = w;
    b
}

/// kind index: 0 = zc, 1 = fix, 2 = var, 3 = zc0 (zero-sized zero-copy body), 4 = unit (empty borsh body)
pub const fn disc_bytes<const W: usize>(kind: u8) -> [u8; W] {
    let base: u8 = match kind {
        0 => 0x21,
        1 => 0x61,
        2 => 0xa1,
        3 => 0xe1,
        4 => 0x31,
        5 => 0x41,
        6 => 0x51,
        _ => 0x71,
    };
    let mut b = [0u8; W];
    let mut j = 0;
    while j < W {
        b[j] = base.wrapping_add(5u8.wrapping_mul(j as u8));
        j += 1;
    }
    b
}

pub const fn mk_unit(_: [u8; 0]) {}
pub const fn mk_u8(b: [u8; 1]) -> u8 {
    b[0]
}
pub const fn mk_arr<const N: usize>(b: [u8; N]) -> [u8; N] {
    b
}

macro_rules! prog {
    ($m:ident, $w:expr, $dty:ty, $mk:path) => {
        pub mod $m {
            use super::*;
            pub const W: usize = $w;
            pub static PID: Pubkey = Pubkey::new_from_array(prog_id($w as u8));

            #[derive(StarFrameProgram)]
            #[program(
                instruction_set = (),
                id = Pubkey::new_from_array(prog_id($w as u8)),
                account_discriminant = $dty,
                no_entrypoint,
                no_setup,
                skip_idl
            )]
            pub struct Prog;

            #[zero_copy(pod)]
            #[derive(Default, Debug, Eq, PartialEq, ProgramAccount)]
            #[program_account(program = Prog, discriminant = $mk(disc_bytes::<$w>(0)), skip_idl)]
            pub struct Zc {
                pub a: u8,
                pub b: u8,
            }

            #[derive(BorshSerialize, BorshDeserialize, Default, Debug, Clone, PartialEq, Eq, ProgramAccount)]
            #[program_account(program = Prog, discriminant = $mk(disc_bytes::<$w>(1)), skip_idl)]
            pub struct Fix {
                pub a: u16,
                pub b: u8,
            }

            pod_view!(Zc);
            pod_view!(Zc0);

            /// Zero-sized zero-copy body: an account of this type is exactly its discriminant.
            #[zero_copy(pod)]
            #[derive(Default, Debug, Eq, PartialEq, ProgramAccount)]
            #[program_account(program = Prog, discriminant = $mk(disc_bytes::<$w>(3)), skip_idl)]
            pub struct Zc0 {}

            /// Empty borsh body.
            #[derive(BorshSerialize, BorshDeserialize, Default, Debug, Clone, PartialEq, Eq, ProgramAccount)]
            #[program_account(program = Prog, discriminant = $mk(disc_bytes::<$w>(4)), skip_idl)]
            pub struct Unit;

            #[derive(BorshSerialize, BorshDeserialize, Default, Debug, Clone, PartialEq, Eq, ProgramAccount)]
            #[program_account(program = Prog, discriminant = $mk(disc_bytes::<$w>(2)), skip_idl)]
            pub struct Var {
                pub tag: u8,
                pub bytes: Vec<u8>,
                pub name: String,
            }
        }
    };
}

prog!(p0, 0, (), mk_unit);
prog!(p1, 1, u8, mk_u8);
prog!(p2, 2, u16, u16::from_le_bytes);
prog!(p3, 3, [u8; 3], mk_arr);
prog!(p4, 4, u32, u32::from_le_bytes);
prog!(p5, 5, [u8; 5], mk_arr);
prog!(p6, 6, [u8; 6], mk_arr);
prog!(p7, 7, [u8; 7], mk_arr);
prog!(p8, 8, u64, u64::from_le_bytes);
prog!(p12, 12, [u8; 12], mk_arr);
prog!(p16, 16, [u8; 16], mk_arr);
prog!(p24, 24, [u8; 24], mk_arr);
prog!(p32, 32, [u8; 32], mk_arr);

/// A zero-copy type of the width-1 program whose discriminant IS the closed-account marker: the
/// exclusion in the property ("for non-empty discriminants other than the closed marker") is real.
#[zero_copy(pod)]
#[derive(Default, Debug, Eq, PartialEq, ProgramAccount)]
#[program_account(program = p1::Prog, discriminant = 0xFFu8, skip_idl)]
pub struct ZcFF {
    pub a: u8,
    pub b: u8,
}
pod_view!(ZcFF);

// ------------------------------------------------------------------------------------------------
// Every DECLARATION FORM the framework offers for a program account. The "declaring program" of
// each type below is the program NAMED in its declaration (or, without a `program` argument, the
// crate's declared program `crate::DeclProg`, see main.rs); `ops::table()` records that program's
// id by naming it, never through `T::OwnerProgram` (which is the derive's OUTPUT, the thing tested).
// ------------------------------------------------------------------------------------------------

/// A second program with the default (`[u8; 8]`) discriminant type, so that the default
/// Anchor-style sighash discriminants can be used for a program that is NOT the crate's declared one.
pub mod q8 {
    use super::*;
    pub static PID: Pubkey = Pubkey::new_from_array(prog_id(0xD1));
    #[derive(StarFrameProgram)]
    #[program(instruction_set = (), id = Pubkey::new_from_array(prog_id(0xD1)), no_entrypoint, no_setup, skip_idl)]
    pub struct Prog;
}
pub static DECL_PID: Pubkey = Pubkey::new_from_array(prog_id(0xD0));

#[derive(Debug, GetSeeds, Clone)]
#[get_seeds(seed_const = b"HX")]
pub struct HxSeeds {
    pub k: Pubkey,
}

// --- no `program` argument: the crate's declared program, default sighash discriminant
#[zero_copy(pod)]
#[derive(Default, Debug, Eq, PartialEq, ProgramAccount)]
#[program_account(skip_idl)]
pub struct DZc {
    pub a: u8,
    pub b: u8,
}
pod_view!(DZc);

#[derive(BorshSerialize, BorshDeserialize, Default, Debug, Clone, PartialEq, Eq, ProgramAccount)]
#[program_account(skip_idl)]
pub struct DFix {
    pub a: u16,
    pub b: u8,
}

#[unsized_type(program_account, skip_idl)]
pub struct DUn {
    pub a: u8,
    pub b: u8,
    #[unsized_start]
    pub rest: RemainingBytes,
}
ab_view!(DUn);

#[unsized_type(program_account, skip_idl, seeds = HxSeeds)]
pub struct DUnSeeds {
    pub a: u8,
    pub b: u8,
    #[unsized_start]
    pub rest: RemainingBytes,
}
ab_view!(DUnSeeds);

// --- `#[unsized_type(program_account, program = P)]` with P != the declared program
#[unsized_type(program_account, skip_idl, program = q8::Prog)]
pub struct UnQ8 {
    pub a: u8,
    pub b: u8,
    #[unsized_start]
    pub rest: RemainingBytes,
}
ab_view!(UnQ8);

#[unsized_type(program_account, skip_idl, program = q8::Prog, seeds = HxSeeds)]
pub struct UnQ8Seeds {
    pub a: u8,
    pub b: u8,
    #[unsized_start]
    pub rest: RemainingBytes,
}
ab_view!(UnQ8Seeds);

// (explicit discriminants under a program whose discriminant type is also `[u8; 8]`: a declaration whose
// `program` argument is lost must still COMPILE, so that the wrong owner program shows at run time)
#[unsized_type(program_account, skip_idl, program = q8::Prog, discriminant = mk_arr(disc_bytes::<8>(5)))]
pub struct UnQ8Disc {
    pub a: u8,
    pub b: u8,
    #[unsized_start]
    pub rest: RemainingBytes,
}
ab_view!(UnQ8Disc);

#[unsized_type(program_account, skip_idl, program = q8::Prog, seeds = HxSeeds, discriminant = mk_arr(disc_bytes::<8>(6)))]
pub struct UnQ8DiscSeeds {
    pub a: u8,
    pub b: u8,
    #[unsized_start]
    pub rest: RemainingBytes,
}
ab_view!(UnQ8DiscSeeds);

// --- derive forms with `seeds` and the default discriminant under a named program
#[zero_copy(pod)]
#[derive(Default, Debug, Eq, PartialEq, ProgramAccount)]
#[program_account(program = p2::Prog, seeds = HxSeeds, discriminant = u16::from_le_bytes(disc_bytes::<2>(5)), skip_idl)]
pub struct ZcSeeds2 {
    pub a: u8,
    pub b: u8,
}
pod_view!(ZcSeeds2);

#[zero_copy(pod)]
#[derive(Default, Debug, Eq, PartialEq, ProgramAccount)]
#[program_account(program = q8::Prog, skip_idl)]
pub struct ZcQ8 {
    pub a: u8,
    pub b: u8,
}
pod_view!(ZcQ8);

#[derive(BorshSerialize, BorshDeserialize, Default, Debug, Clone, PartialEq, Eq, ProgramAccount)]
#[program_account(program = q8::Prog, seeds = HxSeeds, skip_idl)]
pub struct FixQ8Seeds {
    pub a: u16,
    pub b: u8,
}

/// The default discriminant of an account type named `name`, per the documented Anchor convention
/// (`sha256("account:<name>")[..8]`), computed independently of the derive.
pub fn anchor_disc(name: &str) -> Vec<u8> {
    use sha2::Digest;
    sha2::Sha256::digest(format!("account:{name}").as_bytes())[..8].to_vec()
}
