//! Harness programs: one per account-discriminant width (0, 1, 2, 3, 4, 8, 16 bytes; integer and
//! byte-array discriminant types), each with a zero-copy account type (`Zc`, a 2-byte Pod body) and
//! two borsh-backed account types (`Fix`: fixed size, `Var`: `Vec<u8>` + `String`).
//!
//! Program ids and discriminants follow the same formula as `progIdOf` / `discOf` in
//! `lean/Account/Account/Driver/ProgAcct.lean`.
use star_frame::prelude::*;

pub const fn prog_id(w: u8) -> [u8; 32] {
    let mut b = [0x11u8; 32];
    b[0] = 0x50;
    b[1] = w;
    b
}

/// kind index: 0 = zc, 1 = fix, 2 = var
pub const fn disc_bytes<const W: usize>(kind: u8) -> [u8; W] {
    let mut b = [0u8; W];
    let mut j = 0;
    while j < W {
        b[j] = 0x21 + 0x40 * kind + 5 * (j as u8);
        j += 1;
    }
    b
}

pub const fn mk_unit(_: [u8; 0]) {}
pub const fn mk_u8(b: [u8; 1]) -> u8 {
    b[0]
}
pub const fn mk_arr<const N: usize>(b: [u8; N]) -> [u8; N] {
    b
}

macro_rules! prog {
    ($m:ident, $w:expr, $dty:ty, $mk:path) => {
        pub mod $m {
            use super::*;
            pub const W: usize = $w;
            pub static PID: Pubkey = Pubkey::new_from_array(prog_id($w as u8));

            #[derive(StarFrameProgram)]
            #[program(
                instruction_set = (),
                id = Pubkey::new_from_array(prog_id($w as u8)),
                account_discriminant = $dty,
                no_entrypoint,
                no_setup,
                skip_idl
            )]
            pub struct Prog;

            #[zero_copy(pod)]
            #[derive(Default, Debug, Eq, PartialEq, ProgramAccount)]
            #[program_account(program = Prog, discriminant = $mk(disc_bytes::<$w>(0)), skip_idl)]
            pub struct Zc {
                pub a: u8,
                pub b: u8,
            }

            #[derive(BorshSerialize, BorshDeserialize, Default, Debug, Clone, PartialEq, Eq, ProgramAccount)]
            #[program_account(program = Prog, discriminant = $mk(disc_bytes::<$w>(1)), skip_idl)]
            pub struct Fix {
                pub a: u16,
                pub b: u8,
            }

            #[derive(BorshSerialize, BorshDeserialize, Default, Debug, Clone, PartialEq, Eq, ProgramAccount)]
            #[program_account(program = Prog, discriminant = $mk(disc_bytes::<$w>(2)), skip_idl)]
            pub struct Var {
                pub tag: u8,
                pub bytes: Vec<u8>,
                pub name: String,
            }
        }
    };
}

prog!(p0, 0, (), mk_unit);
prog!(p1, 1, u8, mk_u8);
prog!(p2, 2, u16, u16::from_le_bytes);
prog!(p3, 3, [u8; 3], mk_arr);
prog!(p4, 4, u32, u32::from_le_bytes);
prog!(p8, 8, u64, u64::from_le_bytes);
prog!(p16, 16, [u8; 16], mk_arr);

/// A zero-copy type of the width-1 program whose discriminant IS the closed-account marker: the
/// exclusion in the property ("for non-empty discriminants other than the closed marker") is real.
#[zero_copy(pod)]
#[derive(Default, Debug, Eq, PartialEq, ProgramAccount)]
#[program_account(program = p1::Prog, discriminant = 0xFFu8, skip_idl)]
pub struct ZcFF {
    pub a: u8,
    pub b: u8,
}
