//! Harness programs: one per account-discriminant width (0, 1, 2, 3, 4, 5, 6, 7, 8, 12, 16, 24, 32 bytes;
//! integer and byte-array discriminant types), each with two zero-copy account types (`Zc`: a 2-byte Pod body, `Zc0`:
//! a ZERO-SIZED body) and three borsh-backed ones (`Fix`: fixed size, `Var`: `Vec<u8>` + `String`, `Unit`: empty).
//!
//! Program ids and discriminants follow the same formula as `progIdOf` / `discOf` in
//! `lean/Account/Account/Driver/ProgAcct.lean`.
use star_frame::prelude::*;

pub const fn prog_id(w: u8) -> [u8; 32] {
    let mut b = [0x11u8; 32];
    b[0] = 0x50;
    b[1] = w;
    b
}

/// kind index: 0 = zc, 1 = fix, 2 = var, 3 = zc0 (zero-sized zero-copy body), 4 = unit (empty borsh body)
pub const fn disc_bytes<const W: usize>(kind: u8) -> [u8; W] {
    let base: u8 = match kind {
        0 => 0x21,
        1 => 0x61,
        2 => 0xa1,
        3 => 0xe1,
        _ => 0x31,
    };
    let mut b = [0u8; W];
    let mut j = 0;
    while j < W {
        b[j] = base.wrapping_add(5u8.wrapping_mul(j as u8));
        j += 1;
    }
    b
}

pub const fn mk_unit(_: [u8; 0]) {}
pub const fn mk_u8(b: [u8; 1]) -> u8 {
    b[0]
}
pub const fn mk_arr<const N: usize>(b: [u8; N]) -> [u8; N] {
    b
}

macro_rules! prog {
    ($m:ident, $w:expr, $dty:ty, $mk:path) => {
        pub mod $m {
            use super::*;
            pub const W: usize = $w;
            pub static PID: Pubkey = Pubkey::new_from_array(prog_id($w as u8));

            #[derive(StarFrameProgram)]
            #[program(
                instruction_set = (),
                id = Pubkey::new_from_array(prog_id($w as u8)),
                account_discriminant = $dty,
                no_entrypoint,
                no_setup,
                skip_idl
            )]
            pub struct Prog;

            #[zero_copy(pod)]
            #[derive(Default, Debug, Eq, PartialEq, ProgramAccount)]
            #[program_account(program = Prog, discriminant = $mk(disc_bytes::<$w>(0)), skip_idl)]
            pub struct Zc {
                pub a: u8,
                pub b: u8,
            }

            #[derive(BorshSerialize, BorshDeserialize, Default, Debug, Clone, PartialEq, Eq, ProgramAccount)]
            #[program_account(program = Prog, discriminant = $mk(disc_bytes::<$w>(1)), skip_idl)]
            pub struct Fix {
                pub a: u16,
                pub b: u8,
            }

            /// Zero-sized zero-copy body: an account of this type is exactly its discriminant.
            #[zero_copy(pod)]
            #[derive(Default, Debug, Eq, PartialEq, ProgramAccount)]
            #[program_account(program = Prog, discriminant = $mk(disc_bytes::<$w>(3)), skip_idl)]
            pub struct Zc0 {}

            /// Empty borsh body.
            #[derive(BorshSerialize, BorshDeserialize, Default, Debug, Clone, PartialEq, Eq, ProgramAccount)]
            #[program_account(program = Prog, discriminant = $mk(disc_bytes::<$w>(4)), skip_idl)]
            pub struct Unit;

            #[derive(BorshSerialize, BorshDeserialize, Default, Debug, Clone, PartialEq, Eq, ProgramAccount)]
            #[program_account(program = Prog, discriminant = $mk(disc_bytes::<$w>(2)), skip_idl)]
            pub struct Var {
                pub tag: u8,
                pub bytes: Vec<u8>,
                pub name: String,
            }
        }
    };
}

prog!(p0, 0, (), mk_unit);
prog!(p1, 1, u8, mk_u8);
prog!(p2, 2, u16, u16::from_le_bytes);
prog!(p3, 3, [u8; 3], mk_arr);
prog!(p4, 4, u32, u32::from_le_bytes);
prog!(p5, 5, [u8; 5], mk_arr);
prog!(p6, 6, [u8; 6], mk_arr);
prog!(p7, 7, [u8; 7], mk_arr);
prog!(p8, 8, u64, u64::from_le_bytes);
prog!(p12, 12, [u8; 12], mk_arr);
prog!(p16, 16, [u8; 16], mk_arr);
prog!(p24, 24, [u8; 24], mk_arr);
prog!(p32, 32, [u8; 32], mk_arr);

/// A zero-copy type of the width-1 program whose discriminant IS the closed-account marker: the
/// exclusion in the property ("for non-empty discriminants other than the closed marker") is real.
#[zero_copy(pod)]
#[derive(Default, Debug, Eq, PartialEq, ProgramAccount)]
#[program_account(program = p1::Prog, discriminant = 0xFFu8, skip_idl)]
pub struct ZcFF {
    pub a: u8,
    pub b: u8,
}
