//! Op-line interpreter over the REAL `Account<T>` / `BorshAccount<T>` account sets on native
//! `AccountInfo`s. Shared by C08 and C15; the Lean side is `Driver/ProgAcct.lean`.
//!
//! ```text
//! setup <zc|zc0|un|fix|var|unit> <progid:hex32> <disc:hex> <owner:hex32> <writable:0|1> <data:hex>   -> ok
//! borrow none|shared|shared7|excl      data borrow held while the following ops run        -> ok
//! decode        AccountSetDecode::decode_accounts            -> ok | ok none | ok <borsh(v)> | err:…
//! validate      AccountSetValidate::validate_accounts((), ctx)                   -> ok | err:…
//! data          Account::data()      (zc)                                 -> ok <body> | err:…
//! data_mut      Account::data_mut()  (zc)                                 -> ok <body> | err:…
//! cleanup       AccountSetCleanup::cleanup_accounts((), ctx)                      -> ok | err:…
//! refund        cleanup_accounts(RefundRent(&recipient), ctx)                     -> ok | err:…
//! close         cleanup_accounts(CloseAccount(()), ctx) with the recipient cached -> ok | err:…
//! close_nr      the same without a recipient in the Context                       -> err:Custom1005
//! set <borsh(v)>     BorshAccount::set_inner(v)                                   -> ok | err:…
//! mutate <borsh(v)>  *account = v   (DerefMut)                                    -> ok | panic
//! get                borsh(&*account) (Deref)                                     -> ok <..> | panic
//! serialize | reload BorshAccount::serialize() / reload()                  -> ok | err:…
//! client        DeserializeBorshAccount::deserialize_account(data)        -> ok <borsh(v)> | err:…
//! bytes         current data                                              -> <len> <hex>
//! next          the next instruction: fresh AccountInfos over the current account state -> ok
//! chown <hex32> the account is assigned to another owner (as a program may do)          -> ok
//! poke <off> <hex>   raw write into the data (what a CPI could have done)               -> ok
//! ```
use crate::progs::*;
use hx_common::hex;
use hx_native::{err_class, key_from, res_class, AcctSpec, World};
use star_frame::{
    account_set::{
        account::{CloseAccount, NormalizeRent, ReceiveRent, RefundRent},
        AccountSetCleanup, AccountSetDecode, AccountSetValidate,
    },
    client::DeserializeBorshAccount,
    pinocchio::{
        account_info::{Ref, RefMut},
        sysvars::rent::Rent,
    },
    prelude::*,
};

pub const LAMPORTS: u64 = 10_000_000_000;
pub const FUNDER_LAMPORTS: u64 = 1_000_000_000_000_000;

#[derive(Clone, Copy, PartialEq, Eq, Debug)]
pub enum Kind {
    Zc,
    Fix,
    Var,
    Zc0,
    Unit,
    /// declared through `#[unsized_type(program_account, …)]` (2 sized bytes + a `RemainingBytes` tail)
    Un,
}
impl Kind {
    pub fn name(self) -> &'static str {
        match self {
            Kind::Zc => "zc",
            Kind::Fix => "fix",
            Kind::Var => "var",
            Kind::Zc0 => "zc0",
            Kind::Unit => "unit",
            Kind::Un => "un",
        }
    }
    pub fn is_zc(self) -> bool {
        matches!(self, Kind::Zc | Kind::Zc0 | Kind::Un)
    }
    /// bytes the type's body needs behind the discriminant (smallest valid body)
    pub fn body_ok(self) -> usize {
        match self {
            Kind::Zc | Kind::Un => 2,
            Kind::Fix => 3,
            Kind::Var => 9,
            Kind::Zc0 | Kind::Unit => 0,
        }
    }
}

/// The native world of one instruction plus the borrows the harness holds on the account's data.
pub struct Core {
    shared: Vec<Ref<'static, [u8]>>,
    excl: Option<RefMut<'static, [u8]>>,
    pub world: World,
    pub kind: Kind,
    pub prog_id: [u8; 32],
    pub disc: Vec<u8>,
}

impl Core {
    fn build(owner: [u8; 32], writable: bool, data: Vec<u8>) -> World {
        World::new(&[
            AcctSpec::new(key_from(1), Pubkey::new_from_array(owner)).writable(writable).data(data).lamports(LAMPORTS),
            AcctSpec::new(key_from(2), Pubkey::new_from_array([0; 32])).writable(true).lamports(1),
            AcctSpec::new(key_from(3), Pubkey::new_from_array([0; 32])).writable(true).signer(true).lamports(FUNDER_LAMPORTS),
        ])
    }
    pub fn owner(&self) -> [u8; 32] {
        *self.world.info(0).owner()
    }
    pub fn writable(&self) -> bool {
        self.world.info(0).is_writable()
    }
    pub fn data(&self) -> Vec<u8> {
        self.world.raw_data(0)
    }
    fn release(&mut self) {
        self.shared.clear();
        self.excl = None;
    }
    fn recipient(&self) -> Mut<AccountInfo> {
        let mut accs = &self.world.infos()[1..];
        let mut ctx = Context::default();
        <Mut<AccountInfo> as AccountSetDecode<'_, ()>>::decode_accounts(&mut accs, (), &mut ctx).expect("recipient")
    }
    fn funder(&self) -> Signer<Mut<SystemAccount>> {
        let mut accs = &self.world.infos()[2..];
        let mut ctx = Context::default();
        <Signer<Mut<SystemAccount>> as AccountSetDecode<'_, ()>>::decode_accounts(&mut accs, (), &mut ctx).expect("funder")
    }
    /// ops that do not involve the account set
    fn common(&mut self, t: &[&str]) -> Option<String> {
        match t {
            ["borrow", m] => {
                self.release();
                let info: &'static AccountInfo = unsafe { &*(self.world.info(0) as *const AccountInfo) };
                match *m {
                    "none" => {}
                    "shared" => self.shared.push(info.try_borrow_data().unwrap()),
                    "shared7" => {
                        for _ in 0..7 {
                            self.shared.push(info.try_borrow_data().unwrap());
                        }
                    }
                    "excl" => self.excl = Some(info.try_borrow_mut_data().unwrap()),
                    _ => return Some("bad-op".into()),
                }
                Some("ok".into())
            }
            ["bytes"] => {
                let d = self.data();
                Some(format!("{} {}", d.len(), hex(&d)))
            }
            ["chown", h] => {
                let Some(k) = unhex(h).and_then(|v| <[u8; 32]>::try_from(v).ok()) else { return Some("bad-op".into()) };
                unsafe { self.world.info(0).assign(&k) };
                Some("ok".into())
            }
            ["poke", off, h] => {
                if off.is_empty() || !off.chars().all(|c| c.is_ascii_digit()) || off.len() > 9 {
                    return Some("bad-op".into());
                }
                let (Ok(off), Some(bs)) = (off.parse::<usize>(), unhex(h)) else { return Some("bad-op".into()) };
                if bs.is_empty() || off + bs.len() > self.world.info(0).data_len() {
                    return Some("bad-op".into());
                }
                unsafe { std::ptr::copy_nonoverlapping(bs.as_ptr(), self.world.info(0).data_ptr().add(off), bs.len()) };
                Some("ok".into())
            }
            _ => None,
        }
    }
    /// `next`: the account as the next instruction receives it.
    fn next(&mut self) {
        self.release();
        let s = self.world.snapshot(0);
        self.world = Self::build(s.owner.to_bytes(), s.is_writable, s.data);
    }
}

/// The rent cleanups of an account set: `Op(&x)` (explicit funder / recipient), `Op(())` with the
/// funder / recipient cached in the `Context` (`_c`), `Op(())` with an empty cache (`_cm`).
macro_rules! rent_cleanup {
    ($acct:expr, $ctx:expr, $core:expr, $op:expr) => {{
        let (name, mode) = match $op.split_once('_') {
            Some((n, m)) => (n, m),
            None => ($op, ""),
        };
        let funder = $core.funder();
        let recipient = $core.recipient();
        if mode == "c" {
            $ctx.set_funder(Box::new(funder.clone()));
            $ctx.set_recipient(Box::new(recipient.clone()));
        }
        catch_str(|| {
            res_class(match (name, mode) {
                ("normalize", "") => $acct.cleanup_accounts(NormalizeRent(&funder), &mut $ctx),
                ("receive", "") => $acct.cleanup_accounts(ReceiveRent(&funder), &mut $ctx),
                ("refund", "") => $acct.cleanup_accounts(RefundRent(&recipient), &mut $ctx),
                ("normalize", _) => $acct.cleanup_accounts(NormalizeRent(()), &mut $ctx),
                ("receive", _) => $acct.cleanup_accounts(ReceiveRent(()), &mut $ctx),
                (_, _) => $acct.cleanup_accounts(RefundRent(()), &mut $ctx),
            })
        })
    }};
}

pub trait Sess {
    fn core(&self) -> &Core;
    fn op(&mut self, t: &[&str]) -> String;
}

fn catch_str(f: impl FnOnce() -> String) -> String {
    hx_common::catch(f).unwrap_or_else(|_| "panic".to_string())
}

// ------------------------------------------------------------------------------------ zero copy
pub struct ZcSess<Z: ZcView> {
    acct: Option<Account<Z>>,
    core: Core,
    pid: &'static Pubkey,
}

impl<Z: ZcView> Sess for ZcSess<Z> {
    fn core(&self) -> &Core {
        &self.core
    }
    fn op(&mut self, t: &[&str]) -> String {
        if let Some(a) = self.core.common(t) {
            return a;
        }
        let mut ctx = Context::new(self.pid);
        match t {
            ["next"] => {
                self.acct = None;
                self.core.next();
                "ok".into()
            }
            ["decode"] => {
                let mut accs = &self.core.world.infos()[..1];
                match <Account<Z> as AccountSetDecode<'_, ()>>::decode_accounts(&mut accs, (), &mut ctx) {
                    Ok(a) => {
                        self.acct = Some(a);
                        "ok".into()
                    }
                    Err(e) => {
                        self.acct = None;
                        err_class(e)
                    }
                }
            }
            [op] => {
                let Some(acct) = self.acct.as_mut() else { return "bad-op".into() };
                match *op {
                    "validate" => catch_str(|| res_class(acct.validate_accounts((), &mut ctx))),
                    "data" => catch_str(|| match acct.data() {
                        Ok(w) => format!("ok {}", hex(&Z::show(&*w))),
                        Err(e) => err_class(e),
                    }),
                    "data_mut" => catch_str(|| match acct.data_mut() {
                        Ok(w) => format!("ok {}", hex(&Z::show(&*w))),
                        Err(e) => err_class(e),
                    }),
                    "cleanup" => catch_str(|| res_class(acct.cleanup_accounts((), &mut ctx))),
                    "normalize" | "receive" | "refund" | "normalize_c" | "receive_c" | "refund_c" | "normalize_cm" | "receive_cm" | "refund_cm" => {
                        rent_cleanup!(acct, ctx, self.core, *op)
                    }
                    "close" => {
                        ctx.set_recipient(Box::new(self.core.recipient()));
                        catch_str(|| res_class(acct.cleanup_accounts(CloseAccount(()), &mut ctx)))
                    }
                    "close_nr" => catch_str(|| res_class(acct.cleanup_accounts(CloseAccount(()), &mut ctx))),
                    _ => "bad-op".into(),
                }
            }
            _ => "bad-op".into(),
        }
    }
}

// ------------------------------------------------------------------------------------ borsh
pub trait BType: ProgramAccount + BorshSerialize + BorshDeserialize + Default + Debug + Clone + PartialEq + 'static {}
impl<T> BType for T where T: ProgramAccount + BorshSerialize + BorshDeserialize + Default + Debug + Clone + PartialEq + 'static {}

pub struct BorshSess<T: BType> {
    acct: Option<BorshAccount<T>>,
    core: Core,
    pid: &'static Pubkey,
}

impl<T: BType> Sess for BorshSess<T> {
    fn core(&self) -> &Core {
        &self.core
    }
    fn op(&mut self, t: &[&str]) -> String {
        if let Some(a) = self.core.common(t) {
            return a;
        }
        let mut ctx = Context::new(self.pid);
        match t {
            ["next"] => {
                self.acct = None;
                self.core.next();
                "ok".into()
            }
            ["decode"] => {
                self.acct = None;
                let mut accs = &self.core.world.infos()[..1];
                catch_str(|| match <BorshAccount<T> as AccountSetDecode<'_, ()>>::decode_accounts(&mut accs, (), &mut ctx) {
                    Ok(a) => {
                        // observing the decoded value must not go through Deref's panic
                        let shown = match hx_common::catch(|| borsh::to_vec::<T>(&*a).unwrap()) {
                            Ok(b) => format!("ok {}", hex(&b)),
                            Err(_) => "ok none".to_string(),
                        };
                        self.acct = Some(a);
                        shown
                    }
                    Err(e) => err_class(e),
                })
            }
            ["client"] => {
                let d = self.core.data();
                catch_str(|| match <T as DeserializeBorshAccount>::deserialize_account(&d) {
                    Ok(v) => format!("ok {}", hex(&borsh::to_vec(&v).unwrap())),
                    Err(e) => err_class(e),
                })
            }
            ["set", h] | ["mutate", h] => {
                let Some(acct) = self.acct.as_mut() else { return "bad-op".into() };
                let Some(v) = unhex(h).and_then(|b| T::try_from_slice(&b).ok()) else { return "bad-op".into() };
                if t[0] == "set" {
                    catch_str(|| res_class(acct.set_inner(v)))
                } else {
                    catch_str(|| {
                        **acct = v;
                        "ok".to_string()
                    })
                }
            }
            [op] => {
                let Some(acct) = self.acct.as_mut() else { return "bad-op".into() };
                match *op {
                    "validate" => catch_str(|| res_class(acct.validate_accounts((), &mut ctx))),
                    "cleanup" => catch_str(|| res_class(acct.cleanup_accounts((), &mut ctx))),
                    "normalize" | "receive" | "refund" | "normalize_c" | "receive_c" | "refund_c" | "normalize_cm" | "receive_cm" | "refund_cm" => {
                        rent_cleanup!(acct, ctx, self.core, *op)
                    }
                    "close" => {
                        ctx.set_recipient(Box::new(self.core.recipient()));
                        catch_str(|| res_class(acct.cleanup_accounts(CloseAccount(()), &mut ctx)))
                    }
                    "close_nr" => catch_str(|| res_class(acct.cleanup_accounts(CloseAccount(()), &mut ctx))),
                    "serialize" => catch_str(|| res_class(acct.serialize())),
                    "reload" => catch_str(|| res_class(acct.reload())),
                    "get" => catch_str(|| format!("ok {}", hex(&borsh::to_vec::<T>(&**acct).unwrap()))),
                    _ => "bad-op".into(),
                }
            }
            _ => "bad-op".into(),
        }
    }
}

// ------------------------------------------------------------------------------------ the table
fn zc<Z: ZcView>(pid: &'static Pubkey) -> impl Fn(Core) -> Box<dyn Sess> {
    move |core| Box::new(ZcSess::<Z> { acct: None, core, pid })
}

pub struct TypeEntry {
    pub kind: Kind,
    pub prog_id: [u8; 32],
    pub disc: Vec<u8>,
    ctor: Box<dyn Fn(Core) -> Box<dyn Sess>>,
}

fn borsh_ctor<T: BType>(pid: &'static Pubkey) -> impl Fn(Core) -> Box<dyn Sess> {
    move |core| Box::new(BorshSess::<T> { acct: None, core, pid })
}

/// Every account type of the harness. Program id and discriminant are the ones WRITTEN IN THE DECLARATION (the
/// named program's `ID`; the discriminant expression, or the documented `sha256("account:<Name>")[..8]` default),
/// not read back through `T::OwnerProgram` / `T::DISCRIMINANT` — those are the derive's output, the thing under test.
pub fn table() -> Vec<TypeEntry> {
    let mut v: Vec<TypeEntry> = vec![];
    macro_rules! add {
        ($m:ident) => {
            v.push(TypeEntry {
                kind: Kind::Zc,
                prog_id: <$m::Prog as StarFrameProgram>::ID.to_bytes(),
                disc: disc_bytes::<{ $m::W }>(0).to_vec(),
                ctor: Box::new(zc::<$m::Zc>(&$m::PID)),
            });
            v.push(TypeEntry {
                kind: Kind::Fix,
                prog_id: <$m::Prog as StarFrameProgram>::ID.to_bytes(),
                disc: disc_bytes::<{ $m::W }>(1).to_vec(),
                ctor: Box::new(borsh_ctor::<$m::Fix>(&$m::PID)),
            });
            v.push(TypeEntry {
                kind: Kind::Var,
                prog_id: <$m::Prog as StarFrameProgram>::ID.to_bytes(),
                disc: disc_bytes::<{ $m::W }>(2).to_vec(),
                ctor: Box::new(borsh_ctor::<$m::Var>(&$m::PID)),
            });
            v.push(TypeEntry {
                kind: Kind::Zc0,
                prog_id: <$m::Prog as StarFrameProgram>::ID.to_bytes(),
                disc: disc_bytes::<{ $m::W }>(3).to_vec(),
                ctor: Box::new(zc::<$m::Zc0>(&$m::PID)),
            });
            v.push(TypeEntry {
                kind: Kind::Unit,
                prog_id: <$m::Prog as StarFrameProgram>::ID.to_bytes(),
                disc: disc_bytes::<{ $m::W }>(4).to_vec(),
                ctor: Box::new(borsh_ctor::<$m::Unit>(&$m::PID)),
            });
        };
    }
    add!(p0);
    add!(p1);
    add!(p2);
    add!(p3);
    add!(p4);
    add!(p5);
    add!(p6);
    add!(p7);
    add!(p8);
    add!(p12);
    add!(p16);
    add!(p24);
    add!(p32);
    v.push(TypeEntry {
        kind: Kind::Zc,
        prog_id: <p1::Prog as StarFrameProgram>::ID.to_bytes(),
        disc: vec![0xFF],
        ctor: Box::new(zc::<ZcFF>(&p1::PID)),
    });
    // every declaration form; the program is the one NAMED in the declaration (see progs.rs)
    macro_rules! form {
        ($k:ident, $ctor:ident, $t:ty, $prog:ty, $pid:expr, $disc:expr) => {
            v.push(TypeEntry { kind: Kind::$k, prog_id: <$prog as StarFrameProgram>::ID.to_bytes(), disc: $disc, ctor: Box::new($ctor::<$t>($pid)) });
        };
    }
    form!(Zc, zc, DZc, crate::DeclProg, &DECL_PID, anchor_disc("DZc"));
    form!(Fix, borsh_ctor, DFix, crate::DeclProg, &DECL_PID, anchor_disc("DFix"));
    form!(Un, zc, DUn, crate::DeclProg, &DECL_PID, anchor_disc("DUn"));
    form!(Un, zc, DUnSeeds, crate::DeclProg, &DECL_PID, anchor_disc("DUnSeeds"));
    form!(Un, zc, UnQ8, q8::Prog, &q8::PID, anchor_disc("UnQ8"));
    form!(Un, zc, UnQ8Seeds, q8::Prog, &q8::PID, anchor_disc("UnQ8Seeds"));
    form!(Un, zc, UnQ8Disc, q8::Prog, &q8::PID, disc_bytes::<8>(5).to_vec());
    form!(Un, zc, UnQ8DiscSeeds, q8::Prog, &q8::PID, disc_bytes::<8>(6).to_vec());
    form!(Zc, zc, ZcSeeds2, p2::Prog, &p2::PID, disc_bytes::<2>(5).to_vec());
    form!(Zc, zc, ZcQ8, q8::Prog, &q8::PID, anchor_disc("ZcQ8"));
    form!(Fix, borsh_ctor, FixQ8Seeds, q8::Prog, &q8::PID, anchor_disc("FixQ8Seeds"));
    v
}

/// The interpreter: at most one live session (account + account set) per case.
pub struct Interp {
    pub table: Vec<TypeEntry>,
    pub sess: Option<Box<dyn Sess>>,
}

impl Interp {
    pub fn new() -> Self {
        #[allow(deprecated)]
        star_frame::verif_hooks::RENT.set(Some(Rent { lamports_per_byte_year: 3480, exemption_threshold: 2.0, burn_percent: 50 }));
        install_cpi_handler();
        Interp { table: table(), sess: None }
    }
    pub fn reset(&mut self) {
        self.sess = None;
    }
    pub fn core(&self) -> Option<&Core> {
        self.sess.as_ref().map(|s| s.core())
    }
    pub fn exec(&mut self, line: &str) -> String {
        let t: Vec<&str> = line.split(' ').filter(|x| !x.is_empty()).collect();
        match t.as_slice() {
            ["setup", k, pid, disc, owner, w, data] => {
                let kind = match *k {
                    "zc" => Kind::Zc,
                    "fix" => Kind::Fix,
                    "var" => Kind::Var,
                    "zc0" => Kind::Zc0,
                    "unit" => Kind::Unit,
                    "un" => Kind::Un,
                    _ => return "bad-op".into(),
                };
                let (Some(pid), Some(disc), Some(owner), Some(data)) = (
                    unhex(pid).and_then(|v| <[u8; 32]>::try_from(v).ok()),
                    unhex(disc),
                    unhex(owner).and_then(|v| <[u8; 32]>::try_from(v).ok()),
                    unhex(data),
                ) else {
                    return "bad-op".into();
                };
                let writable = match *w {
                    "1" => true,
                    "0" => false,
                    _ => return "bad-op".into(),
                };
                let Some(e) = self.table.iter().find(|e| e.kind == kind && e.prog_id == pid && e.disc == disc) else {
                    return "bad-op".into();
                };
                self.sess = None;
                let core = Core { shared: vec![], excl: None, world: Core::build(owner, writable, data), kind, prog_id: pid, disc };
                self.sess = Some((e.ctor)(core));
                "ok".into()
            }
            _ => match self.sess.as_mut() {
                Some(s) => s.op(&t),
                None => "bad-op".into(),
            },
        }
    }
}

/// Strict hex (exactly what the model's `parseHex` accepts): `-` or an even number of hex digits.
pub fn unhex(s: &str) -> Option<Vec<u8>> {
    if s != "-" && !s.chars().all(|c| c.is_ascii_hexdigit()) {
        return None;
    }
    hx_common::unhex(s)
}

/// Stand-in for the runtime + System program for the only CPI these properties can trigger: the
/// System `Transfer` of `CanFundRent::fund_rent` (pinocchio's native `invoke_signed` does nothing).
/// Moves the lamports between the passed `AccountInfo`s; anything else is refused.
pub static CPI_TRANSFERS: std::sync::atomic::AtomicU64 = std::sync::atomic::AtomicU64::new(0);

fn install_cpi_handler() {
    use star_frame::verif_hooks::{CpiRecord, CPI_HANDLER};
    CPI_HANDLER.with_borrow_mut(|h| {
        *h = Some(Box::new(|rec: &CpiRecord| {
            let d = &rec.data;
            let is_transfer = rec.program_id == Pubkey::new_from_array([0; 32]) && d.len() == 12 && d[..4] == 2u32.to_le_bytes() && rec.infos.len() == 2;
            if !is_transfer {
                return Some(Err(ProgramError::InvalidInstructionData.into()));
            }
            let amount = u64::from_le_bytes(d[4..12].try_into().unwrap());
            let (from, to) = (&rec.infos[0], &rec.infos[1]);
            if !from.is_signer() || !from.is_writable() || !to.is_writable() {
                return Some(Err(ProgramError::MissingRequiredSignature.into()));
            }
            if from.lamports() < amount {
                return Some(Err(ProgramError::InsufficientFunds.into()));
            }
            CPI_TRANSFERS.fetch_add(1, std::sync::atomic::Ordering::Relaxed);
            unsafe {
                *from.borrow_mut_lamports_unchecked() -= amount;
                *to.borrow_mut_lamports_unchecked() += amount;
            }
            Some(Ok(()))
        }));
    });
}
