//! Case generation for C16: corpus, boundary enumerations, PRNG-driven.
use hx_common::{hex, Args, Rng};
use solana_program_option::COption;
use solana_program_pack::Pack;
use solana_pubkey::Pubkey;
use spl_token_interface::state as ref_state;
use std::path::PathBuf;

pub fn corpus_cases() -> Vec<Vec<String>> {
    let dir = PathBuf::from(std::env::var("VERIF_DIR").unwrap_or("/verif".into())).join("corpus/C16");
    let mut files: Vec<PathBuf> = match std::fs::read_dir(&dir) {
        Ok(rd) => rd.filter_map(|e| e.ok()).map(|e| e.path()).filter(|p| p.extension().map(|x| x == "replay").unwrap_or(false)).collect(),
        Err(_) => vec![],
    };
    files.sort();
    let mut cases: Vec<Vec<String>> = vec![];
    for f in files {
        let text = std::fs::read_to_string(&f).unwrap_or_default();
        let mut first = true;
        for l in text.lines() {
            let l = l.trim_end();
            if l.is_empty() || l.starts_with('#') {
                continue;
            }
            if l.starts_with("case") || first {
                cases.push(vec![]);
                if !l.starts_with("case") {
                    cases.last_mut().unwrap().push(format!("case corpus {}", f.file_name().unwrap().to_string_lossy()));
                }
            }
            first = false;
            cases.last_mut().unwrap().push(l.to_string());
        }
    }
    cases
}

#[derive(Clone, Copy, PartialEq)]
pub enum A {
    Key,
    /// recent-blockhashes account: the client supplies it, the reference hard-codes the sysvar id
    Rb,
    OptRent,
    OptTok,
    Keys,
    U64,
    U8,
    /// multisig threshold, generated relative to the number of signers
    M,
    Auth,
}

pub const SPECS: &[(&str, &[A])] = &[
    ("sys.CreateAccount", &[A::Key, A::Key, A::U64, A::U64, A::Key]),
    ("sys.Assign", &[A::Key, A::Key]),
    ("sys.Transfer", &[A::Key, A::Key, A::U64]),
    ("sys.AdvanceNonceAccount", &[A::Key, A::Rb, A::Key]),
    ("sys.WithdrawNonceAccount", &[A::Key, A::Key, A::Rb, A::OptRent, A::Key, A::U64]),
    ("sys.InitializeNonceAccount", &[A::Key, A::Rb, A::OptRent, A::Key]),
    ("sys.AuthorizeNonceAccount", &[A::Key, A::Key, A::Key]),
    ("sys.Allocate", &[A::Key, A::U64]),
    ("sys.UpgradeNonceAccount", &[A::Key]),
    ("tok.InitializeMint", &[A::Key, A::OptRent, A::U8, A::Key, A::OptTok /* any optional key */]),
    ("tok.InitializeAccount", &[A::Key, A::Key, A::Key, A::OptRent]),
    ("tok.InitializeMultisig", &[A::Key, A::OptRent, A::Keys, A::M]),
    ("tok.Transfer", &[A::Key, A::Key, A::Key, A::U64]),
    ("tok.Approve", &[A::Key, A::Key, A::Key, A::U64]),
    ("tok.Revoke", &[A::Key, A::Key]),
    ("tok.SetAuthority", &[A::Key, A::Key, A::Auth, A::OptTok]),
    ("tok.MintTo", &[A::Key, A::Key, A::Key, A::U64]),
    ("tok.Burn", &[A::Key, A::Key, A::Key, A::U64]),
    ("tok.CloseAccount", &[A::Key, A::Key, A::Key]),
    ("tok.FreezeAccount", &[A::Key, A::Key, A::Key]),
    ("tok.ThawAccount", &[A::Key, A::Key, A::Key]),
    ("tok.TransferChecked", &[A::Key, A::Key, A::Key, A::Key, A::U64, A::U8]),
    ("tok.ApproveChecked", &[A::Key, A::Key, A::Key, A::Key, A::U64, A::U8]),
    ("tok.MintToChecked", &[A::Key, A::Key, A::Key, A::U64, A::U8]),
    ("tok.BurnChecked", &[A::Key, A::Key, A::Key, A::U64, A::U8]),
    ("tok.InitializeAccount2", &[A::Key, A::Key, A::OptRent, A::Key]),
    ("tok.SyncNative", &[A::Key]),
    ("tok.InitializeAccount3", &[A::Key, A::Key, A::Key]),
    ("tok.InitializeMultisig2", &[A::Key, A::Keys, A::M]),
    ("tok.InitializeMint2", &[A::Key, A::U8, A::Key, A::OptTok]),
    ("tok.GetAccountDataSize", &[A::Key]),
    ("tok.InitializeImmutableOwner", &[A::Key]),
    ("tok.AmountToUiAmount", &[A::Key, A::U64]),
];

/// the ATA instructions (generated separately: their accounts are derived addresses)
pub const ATA_SPECS: &[(&str, &[A])] = &[
    ("ata.Create", &[A::Key, A::Key, A::Key, A::Key, A::OptTok, A::OptTok]),
    ("ata.CreateIdempotent", &[A::Key, A::Key, A::Key, A::Key, A::OptTok, A::OptTok]),
    ("ata.RecoverNested", &[A::Key, A::Key, A::Key, A::Key, A::Key, A::Key, A::OptTok]),
];

const U64S: &[u64] = &[0, 1, 255, 256, 65_535, 4_294_967_295, 4_294_967_296, 1 << 63, u64::MAX - 1, u64::MAX, 0x0102_0304_0506_0708];
const U8S: &[u8] = &[0, 1, 9, 127, 128, 255];
const AUTHS: &[&str] = &["MintTokens", "FreezeAccount", "AccountOwner", "CloseAccount"];

fn rent_id() -> Pubkey {
    Pubkey::from_str_const("SysvarRent111111111111111111111111111111111")
}
fn rb_id() -> Pubkey {
    Pubkey::from_str_const("SysvarRecentB1ockHashes11111111111111111111")
}
fn sys_id() -> Pubkey {
    solana_system_interface::program::ID
}
fn tok_id() -> Pubkey {
    spl_token_interface::ID
}

fn rkey(rng: &mut Rng) -> Pubkey {
    match rng.below(40) {
        0 => Pubkey::new_from_array([0; 32]),
        1 => Pubkey::new_from_array([0xff; 32]),
        2 => tok_id(),
        3 => rent_id(),
        _ => Pubkey::new_from_array(rng.bytes(32).try_into().unwrap()),
    }
}
fn hk(k: &Pubkey) -> String {
    hex(k.as_ref())
}
fn hok(k: &Option<Pubkey>) -> String {
    k.as_ref().map(hk).unwrap_or("none".into())
}

/// variants of an optional client account: absent, the canonical key, some other key
fn opt_variants(rng: &mut Rng, canon: Pubkey) -> Vec<Option<Pubkey>> {
    vec![None, Some(canon), Some(rkey(rng))]
}

fn pick_opt(rng: &mut Rng, canon: Pubkey) -> Option<Pubkey> {
    let v = opt_variants(rng, canon);
    v[rng.below(v.len() as u64) as usize]
}

fn random_arg(rng: &mut Rng, a: A, nsigners: usize) -> String {
    match a {
        A::Key => hk(&rkey(rng)),
        A::Rb => {
            if rng.chance(1, 8) {
                hk(&rkey(rng))
            } else {
                hk(&rb_id())
            }
        }
        A::OptRent => hok(&pick_opt(rng, rent_id())),
        A::OptTok => hok(&pick_opt(rng, tok_id())),
        A::Keys => {
            if nsigners == 0 {
                "-".into()
            } else {
                (0..nsigners).map(|_| hk(&rkey(rng))).collect::<Vec<_>>().join(",")
            }
        }
        A::U64 => {
            if rng.chance(1, 3) {
                rng.pick(U64S).to_string()
            } else {
                let shift = rng.below(64);
                (rng.next() >> shift).to_string()
            }
        }
        A::U8 => {
            if rng.chance(1, 3) {
                rng.pick(U8S).to_string()
            } else {
                (rng.next() as u8).to_string()
            }
        }
        A::M => {
            let n = nsigners as u64;
            let c = [0, 1, n / 2, n, n + 1, 11, 12, 255, rng.below(256)];
            (*rng.pick(&c)).min(255).to_string()
        }
        A::Auth => rng.pick(AUTHS).to_string(),
    }
}

fn random_ix(rng: &mut Rng, spec: &(&str, &[A])) -> String {
    let ns = if rng.chance(1, 6) { rng.below(14) as usize } else { rng.range(1, 11) as usize };
    let mut s = format!("ix {}", spec.0);
    for a in spec.1 {
        s.push(' ');
        s.push_str(&random_arg(rng, *a, ns));
    }
    s
}

/// all values of one argument position, the others random
fn axis(rng: &mut Rng, spec: &(&str, &[A]), pos: usize) -> Vec<String> {
    let a = spec.1[pos];
    let values: Vec<(String, usize)> = match a {
        A::U64 => U64S.iter().map(|v| (v.to_string(), 3)).collect(),
        A::U8 => U8S.iter().map(|v| (v.to_string(), 3)).collect(),
        A::Auth => AUTHS.iter().map(|v| (v.to_string(), 3)).collect(),
        A::OptRent => opt_variants(rng, rent_id()).iter().map(|k| (hok(k), 3)).collect(),
        A::OptTok => opt_variants(rng, tok_id()).iter().map(|k| (hok(k), 3)).collect(),
        A::Rb => vec![(hk(&rb_id()), 3), (hk(&rkey(rng)), 3)],
        A::Keys => (0..=12usize).map(|n| (random_arg(rng, A::Keys, n), n)).collect(),
        A::M => return vec![], // enumerated together with Keys
        A::Key => {
            // duplicates of another key position and special keys
            vec![(hk(&Pubkey::new_from_array([0; 32])), 3), (hk(&Pubkey::new_from_array([0xff; 32])), 3), (hk(&tok_id()), 3)]
        }
    };
    let mut out = vec![];
    for (v, ns) in values {
        let ms: Vec<Option<String>> = if a == A::Keys {
            let n = ns as u64;
            let mut c: Vec<u64> = vec![0, 1, n / 2, n, n + 1, 255];
            c.dedup();
            c.into_iter().map(|m| Some(m.min(255).to_string())).collect()
        } else {
            vec![None]
        };
        for m in ms {
            let mut s = format!("ix {}", spec.0);
            for (i, b) in spec.1.iter().enumerate() {
                s.push(' ');
                if i == pos {
                    s.push_str(&v);
                } else if *b == A::M && m.is_some() {
                    s.push_str(m.as_ref().unwrap());
                } else {
                    s.push_str(&random_arg(rng, *b, ns));
                }
            }
            out.push(s);
        }
    }
    out
}

fn ata_derive(w: &Pubkey, mint: &Pubkey, tp: &Pubkey) -> Pubkey {
    spl_associated_token_account_interface::address::get_associated_token_address_with_program_id(w, mint, tp)
}

fn ata_ix(rng: &mut Rng, which: u64, sp: Option<Pubkey>, tp: Option<Pubkey>, derived: bool) -> String {
    let tpk = tp.unwrap_or(tok_id());
    match which {
        0 | 1 => {
            let (f, w, mint) = (rkey(rng), rkey(rng), rkey(rng));
            let ta = if derived { ata_derive(&w, &mint, &tpk) } else { rkey(rng) };
            format!(
                "ix ata.{} {} {} {} {} {} {}",
                if which == 0 { "Create" } else { "CreateIdempotent" },
                hk(&f),
                hk(&ta),
                hk(&w),
                hk(&mint),
                hok(&sp),
                hok(&tp)
            )
        }
        _ => {
            let (w, om, nm) = (rkey(rng), rkey(rng), rkey(rng));
            let oa = ata_derive(&w, &om, &tpk);
            let da = ata_derive(&w, &nm, &tpk);
            let na = ata_derive(&oa, &nm, &tpk);
            let (na, da, oa) = if derived { (na, da, oa) } else { (rkey(rng), da, oa) };
            format!("ix ata.RecoverNested {} {} {} {} {} {} {}", hk(&na), hk(&nm), hk(&da), hk(&oa), hk(&om), hk(&w), hok(&tp))
        }
    }
}

fn copt<T>(o: Option<T>) -> COption<T> {
    match o {
        Some(v) => COption::Some(v),
        None => COption::None,
    }
}

fn pack_mint(m: ref_state::Mint) -> Vec<u8> {
    let mut b = vec![0u8; ref_state::Mint::LEN];
    ref_state::Mint::pack(m, &mut b).unwrap();
    b
}
fn pack_account(a: ref_state::Account) -> Vec<u8> {
    let mut b = vec![0u8; ref_state::Account::LEN];
    ref_state::Account::pack(a, &mut b).unwrap();
    b
}

fn random_mint(rng: &mut Rng) -> ref_state::Mint {
    ref_state::Mint {
        mint_authority: copt(rng.chance(1, 2).then(|| rkey(rng))),
        supply: if rng.chance(1, 2) { *rng.pick(U64S) } else { rng.next() },
        decimals: if rng.chance(1, 2) { *rng.pick(U8S) } else { rng.next() as u8 },
        is_initialized: !rng.chance(1, 6),
        freeze_authority: copt(rng.chance(1, 2).then(|| rkey(rng))),
    }
}
fn random_account(rng: &mut Rng) -> ref_state::Account {
    ref_state::Account {
        mint: rkey(rng),
        owner: rkey(rng),
        amount: if rng.chance(1, 2) { *rng.pick(U64S) } else { rng.next() },
        delegate: copt(rng.chance(1, 2).then(|| rkey(rng))),
        state: *rng.pick(&[
            ref_state::AccountState::Initialized,
            ref_state::AccountState::Initialized,
            ref_state::AccountState::Frozen,
            ref_state::AccountState::Uninitialized,
        ]),
        is_native: copt(rng.chance(1, 2).then(|| if rng.chance(1, 2) { *rng.pick(U64S) } else { rng.next() })),
        delegated_amount: if rng.chance(1, 2) { *rng.pick(U64S) } else { rng.next() },
        close_authority: copt(rng.chance(1, 2).then(|| rkey(rng))),
    }
}

/// key taken from the image at `off` (what a validation argument must equal to match — or, under a NONE
/// tag, the stale payload that must NOT match), or a random key if the image is too short
fn key_at(rng: &mut Rng, b: &[u8], off: usize) -> Pubkey {
    match b.get(off..off + 32) {
        Some(s) => Pubkey::new_from_array(s.try_into().unwrap()),
        None => rkey(rng),
    }
}

/// the full argument grid of `validate_mint` on one image
fn vmint_grid(rng: &mut Rng, owner: &Pubkey, b: &[u8]) -> Vec<String> {
    let dec = b.get(44).copied().unwrap_or(0);
    let decs = ["any".to_string(), dec.to_string(), (dec ^ 1).to_string()];
    let auths = ["any".to_string(), hk(&key_at(rng, b, 4)), hk(&rkey(rng))];
    let frs = ["any".to_string(), "none".to_string(), hk(&key_at(rng, b, 50)), hk(&rkey(rng))];
    let mut out = vec![];
    for d in &decs {
        for a in &auths {
            for f in &frs {
                out.push(format!("vmint {} {} {d} {a} {f}", hk(owner), hex(b)));
            }
        }
    }
    out
}

fn vmint_random(rng: &mut Rng, owner: &Pubkey, b: &[u8]) -> String {
    let g = vmint_grid(rng, owner, b);
    g[rng.below(g.len() as u64) as usize].clone()
}

fn vtoken_grid(rng: &mut Rng, owner: &Pubkey, b: &[u8]) -> Vec<String> {
    let mints = ["any".to_string(), hk(&key_at(rng, b, 0)), hk(&rkey(rng))];
    let owns = ["any".to_string(), hk(&key_at(rng, b, 32)), hk(&rkey(rng))];
    let mut out = vec![];
    for m in &mints {
        for o in &owns {
            out.push(format!("vtoken {} {} {m} {o}", hk(owner), hex(b)));
        }
    }
    out
}

fn vtoken_random(rng: &mut Rng, owner: &Pubkey, b: &[u8]) -> String {
    let g = vtoken_grid(rng, owner, b);
    g[rng.below(g.len() as u64) as usize].clone()
}

fn nonzero(rng: &mut Rng, n: usize) -> Vec<u8> {
    rng.bytes(n).into_iter().map(|x| x | 1).collect()
}

/// Every COption cell of a valid image, three ways: (a) tag NONE over NON-ZERO stale payload bytes, written
/// directly; (b) tag SOME over an all-zero payload; (c) the reference's own unpack -> clear -> pack
/// sequence (`pack_coption_*` writes only the tag for `None`, so the previous payload stays behind — what
/// the SPL program leaves after `SetAuthority(None)` / `Revoke` / closing the native flag).
fn stale_mint_images(rng: &mut Rng) -> Vec<(String, Vec<u8>)> {
    let mut out = vec![];
    let mut m = random_mint(rng);
    m.is_initialized = true;
    m.mint_authority = COption::Some(rkey(rng));
    m.freeze_authority = COption::Some(rkey(rng));
    let base = pack_mint(m);
    for (name, tag, len) in [("mint_authority", 0usize, 32usize), ("freeze_authority", 46, 32)] {
        let mut b = base.clone();
        b[tag..tag + 4].copy_from_slice(&[0, 0, 0, 0]);
        let stale = nonzero(rng, len);
        b[tag + 4..tag + 4 + len].copy_from_slice(&stale);
        out.push((format!("{name} NONE over stale payload (direct)"), b));
        let mut b = base.clone();
        b[tag..tag + 4].copy_from_slice(&[1, 0, 0, 0]);
        b[tag + 4..tag + 4 + len].fill(0);
        out.push((format!("{name} SOME over zero payload"), b));
        // reference sequence on the same buffer
        let mut b = base.clone();
        let mut u = ref_state::Mint::unpack(&b).unwrap();
        if name == "mint_authority" {
            u.mint_authority = COption::None;
        } else {
            u.freeze_authority = COption::None;
        }
        ref_state::Mint::pack(u, &mut b).unwrap();
        out.push((format!("{name} cleared by reference unpack/clear/pack"), b));
    }
    // both cleared
    let mut b = base.clone();
    let mut u = ref_state::Mint::unpack(&b).unwrap();
    u.mint_authority = COption::None;
    u.freeze_authority = COption::None;
    ref_state::Mint::pack(u, &mut b).unwrap();
    out.push(("both authorities cleared by the reference".to_string(), b));
    out
}

fn stale_token_images(rng: &mut Rng) -> Vec<(String, Vec<u8>)> {
    let mut out = vec![];
    let mut a = random_account(rng);
    a.state = if rng.chance(1, 3) { ref_state::AccountState::Frozen } else { ref_state::AccountState::Initialized };
    a.delegate = COption::Some(rkey(rng));
    a.is_native = COption::Some(rng.next() | 1);
    a.close_authority = COption::Some(rkey(rng));
    let base = pack_account(a);
    for (name, tag, len) in [("delegate", 72usize, 32usize), ("is_native", 109, 8), ("close_authority", 129, 32)] {
        let mut b = base.clone();
        b[tag..tag + 4].copy_from_slice(&[0, 0, 0, 0]);
        let stale = nonzero(rng, len);
        b[tag + 4..tag + 4 + len].copy_from_slice(&stale);
        out.push((format!("{name} NONE over stale payload (direct)"), b));
        let mut b = base.clone();
        b[tag..tag + 4].copy_from_slice(&[1, 0, 0, 0]);
        b[tag + 4..tag + 4 + len].fill(0);
        out.push((format!("{name} SOME over zero payload"), b));
        let mut b = base.clone();
        let mut u = ref_state::Account::unpack(&b).unwrap();
        match name {
            "delegate" => u.delegate = COption::None,
            "is_native" => u.is_native = COption::None,
            _ => u.close_authority = COption::None,
        }
        ref_state::Account::pack(u, &mut b).unwrap();
        out.push((format!("{name} cleared by reference unpack/clear/pack"), b));
    }
    let mut b = base.clone();
    let mut u = ref_state::Account::unpack(&b).unwrap();
    u.delegate = COption::None;
    u.is_native = COption::None;
    u.close_authority = COption::None;
    ref_state::Account::pack(u, &mut b).unwrap();
    out.push(("all options cleared by the reference".to_string(), b));
    out
}

const CPI_MODES: &[&str] = &["exact", "more", "all", "none"];

/// the CPI build of the same instruction (`ix …` -> `cpi <mode> …`)
fn to_cpi(ix_line: &str, mode: &str) -> String {
    format!("cpi {mode} {}", ix_line.strip_prefix("ix ").expect("an ix op"))
}

pub const FLAGS: &[&str] = &["w0s0", "w0s1", "w1s0", "w1s1"];
const FIELD_PATHS: &[&str] = &["unchecked", "data", "validate", "set"];

/// argument tails of the validating paths for one image: (vset / vdirect tails, init tails)
fn arg_tails(rng: &mut Rng, kind: &str, b: &[u8]) -> (Vec<String>, Vec<String>) {
    if kind == "mint" {
        let dec = b.get(44).copied().unwrap_or(0);
        let decs = ["any".to_string(), dec.to_string(), (dec ^ 1).to_string()];
        let auths = ["any".to_string(), hk(&key_at(rng, b, 4)), hk(&rkey(rng))];
        let frs = ["any".to_string(), "none".to_string(), hk(&key_at(rng, b, 50)), hk(&rkey(rng))];
        let mut v = vec![];
        for d in &decs {
            for a in &auths {
                for f in &frs {
                    v.push(format!("{d} {a} {f}"));
                }
            }
        }
        let mut i = vec![];
        for d in &decs[1..] {
            for a in &auths[1..] {
                for f in &frs[1..] {
                    i.push(format!("{d} {a} {f}"));
                }
            }
        }
        (v, i)
    } else {
        let mints = ["any".to_string(), hk(&key_at(rng, b, 0)), hk(&rkey(rng))];
        let owns = ["any".to_string(), hk(&key_at(rng, b, 32)), hk(&rkey(rng))];
        let mut v = vec![];
        for m in &mints {
            for o in &owns {
                v.push(format!("{m} {o}"));
            }
        }
        let mut i = vec![];
        for m in &mints[1..] {
            for o in &owns[1..] {
                i.push(format!("{m} {o}"));
            }
        }
        (v, i)
    }
}

/// one image under EVERY runtime flag combination and EVERY access path (full argument grids)
fn view_all(rng: &mut Rng, kind: &str, owner: &Pubkey, b: &[u8]) -> Vec<String> {
    let (vt, it) = arg_tails(rng, kind, b);
    let (o, h) = (hk(owner), hex(b));
    let mut out = vec![];
    for fl in FLAGS {
        for p in FIELD_PATHS {
            out.push(format!("view {kind} {p} {fl} {o} {h}"));
        }
        for t in &vt {
            out.push(format!("view {kind} vset {fl} {o} {h} {t}"));
            out.push(format!("view {kind} vdirect {fl} {o} {h} {t}"));
        }
        for t in &it {
            out.push(format!("view {kind} init {fl} {o} {h} {t}"));
        }
    }
    out
}

/// one image under every flag combination, argument-free paths plus one validating op per path
fn view_light(rng: &mut Rng, kind: &str, owner: &Pubkey, b: &[u8]) -> Vec<String> {
    let (vt, it) = arg_tails(rng, kind, b);
    let (o, h) = (hk(owner), hex(b));
    let mut out = vec![];
    for fl in FLAGS {
        for p in FIELD_PATHS {
            out.push(format!("view {kind} {p} {fl} {o} {h}"));
        }
        out.push(format!("view {kind} vset {fl} {o} {h} {}", rng.pick(&vt)));
        out.push(format!("view {kind} vdirect {fl} {o} {h} {}", rng.pick(&vt)));
        out.push(format!("view {kind} init {fl} {o} {h} {}", rng.pick(&it)));
    }
    out
}

fn view_random(rng: &mut Rng, kind: &str, owner: &Pubkey, b: &[u8]) -> String {
    let (vt, it) = arg_tails(rng, kind, b);
    let (o, h, fl) = (hk(owner), hex(b), *rng.pick(FLAGS));
    match rng.below(7) {
        0..=3 => format!("view {kind} {} {fl} {o} {h}", rng.pick(FIELD_PATHS)),
        4 => format!("view {kind} vset {fl} {o} {h} {}", rng.pick(&vt)),
        5 => format!("view {kind} vdirect {fl} {o} {h} {}", rng.pick(&vt)),
        _ => format!("view {kind} init {fl} {o} {h} {}", rng.pick(&it)),
    }
}

/// every state × every COption shape: (label, image). Token: Uninitialized / Initialized / Frozen; mint:
/// uninitialized / initialized; options all absent (zero payload) / all present / all cleared over stale payload.
fn state_cross_images(rng: &mut Rng) -> Vec<(&'static str, String, Vec<u8>)> {
    let mut out = vec![];
    for (sname, state) in [
        ("Uninitialized", ref_state::AccountState::Uninitialized),
        ("Initialized", ref_state::AccountState::Initialized),
        ("Frozen", ref_state::AccountState::Frozen),
    ] {
        for shape in ["absent", "present", "stale"] {
            let mut a = random_account(rng);
            a.state = state;
            let some = shape != "absent";
            a.delegate = copt(some.then(|| rkey(rng)));
            a.is_native = copt(some.then(|| rng.next() | 1));
            a.close_authority = copt(some.then(|| rkey(rng)));
            let mut b = pack_account(a);
            if shape == "stale" {
                for t in [72usize, 109, 129] {
                    b[t..t + 4].copy_from_slice(&[0, 0, 0, 0]);
                }
            }
            out.push(("token", format!("state {sname} options {shape}"), b));
        }
    }
    for init in [false, true] {
        for shape in ["absent", "present", "stale"] {
            let mut m = random_mint(rng);
            m.is_initialized = init;
            let some = shape != "absent";
            m.mint_authority = copt(some.then(|| rkey(rng)));
            m.freeze_authority = copt(some.then(|| rkey(rng)));
            let mut b = pack_mint(m);
            if shape == "stale" {
                for t in [0usize, 46] {
                    b[t..t + 4].copy_from_slice(&[0, 0, 0, 0]);
                }
            }
            out.push(("mint", format!("initialized {init} options {shape}"), b));
        }
    }
    out
}

struct Out {
    cases: Vec<Vec<String>>,
}
impl Out {
    fn push(&mut self, kind: &str, ops: Vec<String>) {
        if ops.is_empty() {
            return;
        }
        let id = self.cases.len();
        let mut v = vec![format!("case {id} {kind}")];
        v.extend(ops);
        self.cases.push(v);
    }
}

/// single-field perturbations of a valid image: every tag byte ∈ {0,1,2,255}, the flag/state byte over
/// its whole interesting range, truncated / extended, foreign owner
fn perturb(out: &mut Out, rng: &mut Rng, what: &str, base: &[u8], tags: &[usize], flag: usize, flag_vals: &[u8]) {
    let tok = hk(&tok_id());
    out.push(&format!("image {what} valid"), vec![format!("{what} {tok} {}", hex(base))]);
    // the valid base behind every runtime flag combination through every access path
    let ops = view_all(rng, what, &tok_id(), base);
    out.push(&format!("view {what} valid: flags x paths"), ops);
    // the flag / state byte over its range, again behind every flag combination (light grid)
    for &v in flag_vals {
        let mut b = base.to_vec();
        b[flag] = v;
        let ops = view_light(rng, what, &tok_id(), &b);
        out.push(&format!("view {what} flag@{flag} := {v}: flags x paths"), ops);
    }
    for &t in tags {
        for i in 0..4 {
            for v in [0u8, 1, 2, 255] {
                let mut b = base.to_vec();
                b[t + i] = v;
                out.push(&format!("image {what} tag@{} := {v}", t + i), vec![format!("{what} {tok} {}", hex(&b))]);
            }
        }
    }
    for &v in flag_vals {
        let mut b = base.to_vec();
        b[flag] = v;
        out.push(&format!("image {what} flag@{flag} := {v}"), vec![format!("{what} {tok} {}", hex(&b))]);
    }
    for cut in [0usize, 1, base.len() - 1] {
        out.push(&format!("image {what} truncated to {cut}"), vec![format!("{what} {tok} {}", hex(&base[..cut]))]);
    }
    for ext in [1usize, 4, 83] {
        let mut b = base.to_vec();
        b.extend(rng.bytes(ext));
        out.push(&format!("image {what} extended by {ext}"), vec![format!("{what} {tok} {}", hex(&b))]);
    }
    out.push(&format!("image {what} foreign owner"), vec![format!("{what} {} {}", hk(&rkey(rng)), hex(base))]);
    // one random byte changed
    let mut b = base.to_vec();
    let p = rng.below(b.len() as u64) as usize;
    b[p] ^= 1 << rng.below(8);
    out.push(&format!("image {what} bit flip @{p}"), vec![format!("{what} {tok} {}", hex(&b))]);
}

pub fn generate(args: &Args) -> Vec<Vec<String>> {
    let mut rng = Rng::new(args.seed);
    let mut out = Out { cases: vec![] };
    let scale: usize = if args.thorough() { 16 } else { 2 };

    // ---- every generated-table entry against the compiled code
    out.push("tables", crate::tables::table_ops());

    // ---- boundary enumerations: every instruction, every argument axis
    for rep in 0..scale {
        for spec in SPECS {
            for pos in 0..spec.1.len() {
                let ops = axis(&mut rng, spec, pos);
                out.push(&format!("ix {} axis {pos} round {rep}", spec.0), ops);
            }
            out.push(&format!("ix {} random round {rep}", spec.0), (0..4).map(|_| random_ix(&mut rng, spec)).collect());
            // the CPI build: the same arguments through the client path and through the CPI path with the
            // supplied infos holding exactly the required privileges / strictly more / all / none
            let mut ops = vec![];
            for _ in 0..2 {
                let ix = random_ix(&mut rng, spec);
                ops.extend(CPI_MODES.iter().map(|m| to_cpi(&ix, m)));
                ops.push(ix);
            }
            out.push(&format!("cpi {} modes round {rep}", spec.0), ops);
            // every signer-list length, every optional present/absent, on the CPI path with more privileges
            for pos in 0..spec.1.len() {
                if matches!(spec.1[pos], A::Keys | A::OptRent | A::Rb) {
                    let ops: Vec<String> = axis(&mut rng, spec, pos)
                        .iter()
                        .flat_map(|ix| [to_cpi(ix, "more"), to_cpi(ix, "exact")])
                        .collect();
                    out.push(&format!("cpi {} axis {pos} round {rep}", spec.0), ops);
                }
            }
        }
        // ATA instructions: every optional present / absent / other, derived and non-derived keys
        for which in 0..3u64 {
            let mut ops = vec![];
            for sp in opt_variants(&mut rng, sys_id()) {
                for tp in opt_variants(&mut rng, tok_id()) {
                    ops.push(ata_ix(&mut rng, which, sp, tp, true));
                }
            }
            ops.push(ata_ix(&mut rng, which, None, None, false));
            let cpi_ops: Vec<String> = ops.iter().flat_map(|ix| CPI_MODES.iter().map(move |m| to_cpi(ix, m))).collect();
            out.push(&format!("ix ata {which} optionals round {rep}"), ops);
            out.push(&format!("cpi ata {which} optionals round {rep}"), cpi_ops);
        }
    }

    // ---- account images: valid ones from the reference packer + single-field perturbations
    let n_bases = 6 * scale;
    for i in 0..n_bases {
        let mut m = random_mint(&mut rng);
        m.is_initialized = true;
        if i % 4 == 0 {
            m.mint_authority = COption::None;
            m.freeze_authority = COption::None;
        }
        if i % 4 == 1 {
            m.mint_authority = COption::Some(rkey(&mut rng));
            m.freeze_authority = COption::Some(rkey(&mut rng));
        }
        perturb(&mut out, &mut rng, "mint", &pack_mint(m), &[0, 46], 45, &[0, 1, 2, 3, 255]);
        let mut a = random_account(&mut rng);
        if a.state == ref_state::AccountState::Uninitialized {
            a.state = ref_state::AccountState::Initialized;
        }
        if i % 4 == 0 {
            a.delegate = COption::None;
            a.is_native = COption::None;
            a.close_authority = COption::None;
        }
        if i % 4 == 1 {
            a.delegate = COption::Some(rkey(&mut rng));
            a.is_native = COption::Some(rng.next());
            a.close_authority = COption::Some(rkey(&mut rng));
        }
        perturb(&mut out, &mut rng, "token", &pack_account(a), &[72, 109, 129], 108, &[0, 1, 2, 3, 4, 255]);
    }
    // COption cells: NONE over stale payload / SOME over zero payload / reference clear sequence, each with
    // the raw view and the full validate_mint / validate_token argument grid
    for _ in 0..(3 * scale) {
        for (label, b) in stale_mint_images(&mut rng) {
            let mut ops = vec![format!("mint {} {}", hk(&tok_id()), hex(&b))];
            ops.extend(vmint_grid(&mut rng, &tok_id(), &b));
            out.push(&format!("image mint stale: {label}"), ops);
        }
        for (label, b) in stale_token_images(&mut rng) {
            let mut ops = vec![format!("token {} {}", hk(&tok_id()), hex(&b))];
            ops.extend(vtoken_grid(&mut rng, &tok_id(), &b));
            out.push(&format!("image token stale: {label}"), ops);
        }
        // validation grid on ordinary valid images too (None stored as all-zero, Some, frozen …)
        let b = pack_mint({
            let mut m = random_mint(&mut rng);
            m.is_initialized = true;
            m
        });
        let ops = vmint_grid(&mut rng, &tok_id(), &b);
        out.push("validate mint grid", ops);
        let b = pack_account({
            let mut a = random_account(&mut rng);
            if a.state == ref_state::AccountState::Uninitialized {
                a.state = ref_state::AccountState::Frozen;
            }
            a
        });
        let ops = vtoken_grid(&mut rng, &tok_id(), &b);
        out.push("validate token grid", ops);
    }
    // every state x every COption shape x every runtime flag combination x every access path
    for _ in 0..scale {
        for (kind, label, b) in state_cross_images(&mut rng) {
            let ops = view_all(&mut rng, kind, &tok_id(), &b);
            out.push(&format!("view {kind} {label}: flags x paths"), ops);
        }
        for (label, b) in stale_mint_images(&mut rng) {
            let ops = view_light(&mut rng, "mint", &tok_id(), &b);
            out.push(&format!("view mint stale {label}: flags x paths"), ops);
        }
        for (label, b) in stale_token_images(&mut rng) {
            let ops = view_light(&mut rng, "token", &tok_id(), &b);
            out.push(&format!("view token stale {label}: flags x paths"), ops);
        }
    }
    // all-zero and random images
    let tok = hk(&tok_id());
    out.push("image mint zero", vec![format!("mint {tok} {}", hex(&[0u8; 82]))]);
    out.push("image token zero", vec![format!("token {tok} {}", hex(&[0u8; 165]))]);
    // a mint image offered as a token account and vice versa
    out.push("image cross", vec![
        format!("token {tok} {}", hex(&pack_mint(random_mint(&mut rng)))),
        format!("mint {tok} {}", hex(&pack_account(random_account(&mut rng)))),
    ]);

    // ---- ATA helper
    let mut ops = vec![];
    let z = Pubkey::new_from_array([0; 32]);
    ops.push(format!("ata {} {}", hk(&z), hk(&z)));
    let k = rkey(&mut rng);
    ops.push(format!("ata {} {}", hk(&k), hk(&k)));
    ops.push(format!("ata {} {}", hk(&tok_id()), hk(&sys_id())));
    out.push("ata special", ops);

    // ---- PRNG-driven
    let n_random = if args.thorough() { 1_200_000 } else { 80_000 };
    for i in 0..n_random {
        match rng.below(10) {
            0..=3 => {
                let spec = rng.pick(SPECS);
                let n = rng.range(1, 3);
                let ops: Vec<String> = (0..n)
                    .map(|_| {
                        let ix = random_ix(&mut rng, spec);
                        if rng.chance(1, 3) {
                            to_cpi(&ix, *rng.pick(CPI_MODES))
                        } else {
                            ix
                        }
                    })
                    .collect();
                out.push(&format!("ix {} prng", spec.0), ops);
            }
            4 => {
                let which = rng.below(3);
                let sp = pick_opt(&mut rng, sys_id());
                let tp = pick_opt(&mut rng, tok_id());
                let derived = !rng.chance(1, 10);
                let ix = ata_ix(&mut rng, which, sp, tp, derived);
                let op = if rng.chance(1, 3) { to_cpi(&ix, *rng.pick(CPI_MODES)) } else { ix };
                out.push("ix ata prng", vec![op]);
            }
            5 | 6 => {
                let mut b = pack_mint(random_mint(&mut rng));
                let kind = mutate(&mut rng, &mut b, &[0, 1, 2, 3, 45, 46, 47, 48, 49]);
                let owner = if rng.chance(1, 30) { rkey(&mut rng) } else { tok_id() };
                let mut ops = vec![format!("mint {} {}", hk(&owner), hex(&b))];
                if rng.chance(1, 2) {
                    ops.push(vmint_random(&mut rng, &owner, &b));
                }
                ops.push(view_random(&mut rng, "mint", &owner, &b));
                out.push(&format!("image mint prng {kind}"), ops);
            }
            7 | 8 => {
                let mut b = pack_account(random_account(&mut rng));
                let kind = mutate(&mut rng, &mut b, &[72, 73, 74, 75, 108, 109, 110, 111, 112, 129, 130, 131, 132]);
                let owner = if rng.chance(1, 30) { rkey(&mut rng) } else { tok_id() };
                let mut ops = vec![format!("token {} {}", hk(&owner), hex(&b))];
                if rng.chance(1, 2) {
                    ops.push(vtoken_random(&mut rng, &owner, &b));
                }
                ops.push(view_random(&mut rng, "token", &owner, &b));
                out.push(&format!("image token prng {kind}"), ops);
            }
            _ => {
                // find_program_address is the expensive op: fewer of them
                if i % 4 == 0 {
                    out.push("ata prng", vec![format!("ata {} {}", hk(&rkey(&mut rng)), hk(&rkey(&mut rng)))]);
                }
            }
        }
    }
    out.cases
}

/// random mutation of a packed image; returns a label
fn mutate(rng: &mut Rng, b: &mut Vec<u8>, hot: &[usize]) -> &'static str {
    match rng.below(12) {
        10 | 11 => {
            // clear one COption tag and leave / plant non-zero payload bytes behind it
            let cells: &[(usize, usize)] = if b.len() == 82 { &[(0, 32), (46, 32)] } else { &[(72, 32), (109, 8), (129, 32)] };
            let (t, n) = *rng.pick(cells);
            b[t..t + 4].copy_from_slice(&[0, 0, 0, 0]);
            if rng.chance(1, 2) {
                for x in &mut b[t + 4..t + 4 + n] {
                    *x = (rng.next() as u8) | 1;
                }
            }
            "stale-payload"
        }
        0..=3 => "valid",
        4 | 5 => {
            let p = *rng.pick(hot);
            b[p] = *rng.pick(&[0u8, 1, 2, 3, 255]);
            "hot-byte"
        }
        6 => {
            let p = rng.below(b.len() as u64) as usize;
            b[p] = rng.next() as u8;
            "any-byte"
        }
        7 => {
            let n = rng.below(b.len() as u64 + 1) as usize;
            b.truncate(n);
            "truncated"
        }
        8 => {
            let n = rng.range(1, 40) as usize;
            b.extend(rng.bytes(n));
            "extended"
        }
        _ => {
            let n = b.len();
            *b = rng.bytes(n);
            // keep it plausible: valid tags / flags half of the time
            if rng.chance(1, 2) {
                for &p in hot {
                    b[p] = 0;
                }
                let f = if n == 82 { 45 } else { 108 };
                b[f] = 1;
                for &p in hot {
                    if (p != f) && (p == 0 || p == 46 || p == 72 || p == 109 || p == 129) && rng.chance(1, 2) {
                        b[p] = 1;
                    }
                }
            }
            "random-bytes"
        }
    }
}
