//! `ix` ops: framework client path vs reference builders.
use crate::Exec;
use hx_common::{hex, unhex};
use solana_instruction::{AccountMeta, Instruction};
use solana_pubkey::Pubkey;
use spl_associated_token_account_interface as ata_ref;
use spl_token_interface::instruction as tok_ref;
use star_frame::{client::MakeInstruction, program::system as sf_sys, program::StarFrameProgram};
use star_frame_spl::{
    associated_token::{instructions as sf_ata, AssociatedToken},
    token::{instructions as sf_tok, Token},
};

pub fn p_key(s: &str) -> Option<Pubkey> {
    let b = unhex(s)?;
    if s == "-" || b.len() != 32 {
        return None;
    }
    Some(Pubkey::new_from_array(b.try_into().ok()?))
}
fn p_opt_key(s: &str) -> Option<Option<Pubkey>> {
    if s == "none" {
        Some(None)
    } else {
        p_key(s).map(Some)
    }
}
fn p_keys(s: &str) -> Option<Vec<Pubkey>> {
    if s == "-" {
        return Some(vec![]);
    }
    s.split(',').map(p_key).collect()
}
fn p_u64(s: &str) -> Option<u64> {
    if s.is_empty() || !s.bytes().all(|c| c.is_ascii_digit()) {
        return None;
    }
    s.parse::<u64>().ok()
}
fn p_u8(s: &str) -> Option<u8> {
    if s.is_empty() || !s.bytes().all(|c| c.is_ascii_digit()) {
        return None;
    }
    s.parse::<u8>().ok()
}
fn p_auth(s: &str) -> Option<(sf_tok::AuthorityType, tok_ref::AuthorityType)> {
    Some(match s {
        "MintTokens" => (sf_tok::AuthorityType::MintTokens, tok_ref::AuthorityType::MintTokens),
        "FreezeAccount" => (sf_tok::AuthorityType::FreezeAccount, tok_ref::AuthorityType::FreezeAccount),
        "AccountOwner" => (sf_tok::AuthorityType::AccountOwner, tok_ref::AuthorityType::AccountOwner),
        "CloseAccount" => (sf_tok::AuthorityType::CloseAccount, tok_ref::AuthorityType::CloseAccount),
        _ => return None,
    })
}

pub fn show_metas(ms: &[AccountMeta]) -> String {
    if ms.is_empty() {
        return "-".into();
    }
    ms.iter()
        .map(|m| format!("{}:{}:{}", hex(m.pubkey.as_ref()), m.is_signer as u8, m.is_writable as u8))
        .collect::<Vec<_>>()
        .join(",")
}

/// Reference side of one op.
struct Reference {
    /// `None`: the reference builder refused (`initialize_multisig`: MissingRequiredSignature)
    ix: Option<Instruction>,
    /// false: the client supplied, for an account the reference fixes or derives itself, another key;
    /// the reference has no instruction to compare with
    applicable: bool,
}

fn rf(ix: Instruction) -> Reference {
    Reference { ix: Some(ix), applicable: true }
}

/// The client may override a defaulted account (`Sysvar<Rent>`, `Program<_>`): the reference instruction
/// with that position substituted is the expectation.
fn subst(mut r: Reference, idx: usize, over: Option<Pubkey>) -> Reference {
    if let (Some(ix), Some(k)) = (r.ix.as_mut(), over) {
        if let Some(m) = ix.accounts.get_mut(idx) {
            m.pubkey = k;
        }
    }
    r
}

/// The client supplies a key the reference hard-codes / derives at `idx`: only comparable if equal.
fn pinned(mut r: Reference, idx: usize, supplied: &Pubkey) -> Reference {
    if let Some(ix) = r.ix.as_ref() {
        if ix.accounts.get(idx).map(|m| &m.pubkey) != Some(supplied) {
            r.applicable = false;
        }
    }
    r
}

fn u64_class(v: u64) -> &'static str {
    match v {
        0 => "u64:0",
        u64::MAX => "u64:max",
        x if x > u32::MAX as u64 => "u64:>u32",
        _ => "u64:small",
    }
}

type Built = (star_frame::Result<Instruction>, Reference);

fn build(name: &str, a: &[&str], bumps: &mut Vec<String>) -> Option<Built> {
    let tok_id = spl_token_interface::ID;
    macro_rules! k {
        ($i:expr) => {
            p_key(a.get($i)?)?
        };
    }
    macro_rules! ok {
        ($i:expr) => {
            p_opt_key(a.get($i)?)?
        };
    }
    macro_rules! n {
        ($i:expr) => {{
            let v = p_u64(a.get($i)?)?;
            bumps.push(u64_class(v).to_string());
            v
        }};
    }
    macro_rules! b {
        ($i:expr) => {
            p_u8(a.get($i)?)?
        };
    }
    macro_rules! arity {
        ($n:expr) => {
            if a.len() != $n {
                return None;
            }
        };
    }
    use solana_system_interface::instruction as sys_ref;
    Some(match name {
        // ------------------------------------------------------------------ System
        "sys.CreateAccount" => {
            arity!(5);
            let (f, nw, l, s, o) = (k!(0), k!(1), n!(2), n!(3), k!(4));
            (
                sf_sys::System::instruction(
                    &sf_sys::CreateAccount { lamports: l, space: s, owner: o },
                    sf_sys::CreateAccountClientAccounts { funder: f, new_account: nw },
                ),
                rf(sys_ref::create_account(&f, &nw, l, s, &o)),
            )
        }
        "sys.Assign" => {
            arity!(2);
            let (acc, o) = (k!(0), k!(1));
            (
                sf_sys::System::instruction(&sf_sys::Assign { owner: o }, sf_sys::AssignClientAccounts { account: acc }),
                rf(sys_ref::assign(&acc, &o)),
            )
        }
        "sys.Transfer" => {
            arity!(3);
            let (f, r, l) = (k!(0), k!(1), n!(2));
            (
                sf_sys::System::instruction(
                    &sf_sys::Transfer { lamports: l },
                    sf_sys::TransferClientAccounts { funder: f, recipient: r },
                ),
                rf(sys_ref::transfer(&f, &r, l)),
            )
        }
        "sys.AdvanceNonceAccount" => {
            arity!(3);
            let (nn, rb, au) = (k!(0), k!(1), k!(2));
            (
                sf_sys::System::instruction(
                    &sf_sys::AdvanceNonceAccount,
                    sf_sys::AdvanceNonceAccountClientAccounts { nonce_account: nn, recent_blockhashes: rb, nonce_authority: au },
                ),
                pinned(rf(sys_ref::advance_nonce_account(&nn, &au)), 1, &rb),
            )
        }
        "sys.WithdrawNonceAccount" => {
            arity!(6);
            let (nn, r, rb, rent, au, l) = (k!(0), k!(1), k!(2), ok!(3), k!(4), n!(5));
            (
                sf_sys::System::instruction(
                    &sf_sys::WithdrawNonceAccount(l),
                    sf_sys::WithdrawNonceAccountClientAccounts {
                        nonce_account: nn,
                        recipient: r,
                        recent_blockhashes: rb,
                        rent,
                        nonce_authority: au,
                    },
                ),
                subst(pinned(rf(sys_ref::withdraw_nonce_account(&nn, &au, &r, l)), 2, &rb), 3, rent),
            )
        }
        "sys.InitializeNonceAccount" => {
            arity!(4);
            let (nn, rb, rent, au) = (k!(0), k!(1), ok!(2), k!(3));
            // the reference has no stand-alone builder: second instruction of `create_nonce_account`
            let funder = Pubkey::new_from_array([7; 32]);
            let r = sys_ref::create_nonce_account(&funder, &nn, &au, 1).remove(1);
            (
                sf_sys::System::instruction(
                    &sf_sys::InitializeNonceAccount(au),
                    sf_sys::InitializeNonceAccountClientAccounts { nonce_account: nn, recent_blockhashes: rb, rent },
                ),
                subst(pinned(rf(r), 1, &rb), 2, rent),
            )
        }
        "sys.AuthorizeNonceAccount" => {
            arity!(3);
            let (nn, au, na) = (k!(0), k!(1), k!(2));
            (
                sf_sys::System::instruction(
                    &sf_sys::AuthorizeNonceAccount(na),
                    sf_sys::AuthorizeNonceAccountClientAccounts { nonce_account: nn, nonce_authority: au },
                ),
                rf(sys_ref::authorize_nonce_account(&nn, &au, &na)),
            )
        }
        "sys.Allocate" => {
            arity!(2);
            let (acc, s) = (k!(0), n!(1));
            (
                sf_sys::System::instruction(&sf_sys::Allocate { space: s }, sf_sys::AllocateClientAccounts { account: acc }),
                rf(sys_ref::allocate(&acc, s)),
            )
        }
        "sys.UpgradeNonceAccount" => {
            arity!(1);
            let nn = k!(0);
            (
                sf_sys::System::instruction(
                    &sf_sys::UpgradeNonceAccount,
                    sf_sys::UpgradeNonceAccountClientAccounts { nonce_account: nn },
                ),
                rf(sys_ref::upgrade_nonce_account(nn)),
            )
        }
        // ------------------------------------------------------------------ Token
        "tok.InitializeMint" => {
            arity!(5);
            let (mint, rent, d, ma, fa) = (k!(0), ok!(1), b!(2), k!(3), ok!(4));
            bumps.push(format!("opt:freeze_authority:{}", fa.is_some()));
            (
                Token::instruction(
                    &sf_tok::InitializeMint { decimals: d, mint_authority: ma, freeze_authority: fa },
                    sf_tok::InitializeMintClientAccounts { mint, rent },
                ),
                subst(rf(tok_ref::initialize_mint(&tok_id, &mint, &ma, fa.as_ref(), d).ok()?), 1, rent),
            )
        }
        "tok.InitializeAccount" => {
            arity!(4);
            let (acc, mint, o, rent) = (k!(0), k!(1), k!(2), ok!(3));
            (
                Token::instruction(
                    &sf_tok::InitializeAccount,
                    sf_tok::InitializeAccountClientAccounts { account: acc, mint, owner: o, rent },
                ),
                subst(rf(tok_ref::initialize_account(&tok_id, &acc, &mint, &o).ok()?), 3, rent),
            )
        }
        "tok.InitializeMultisig" => {
            arity!(4);
            let (ms, rent, signers, m) = (k!(0), ok!(1), p_keys(a.get(2)?)?, b!(3));
            bumps.push(format!("signers:{}", signers.len()));
            let refs: Vec<&Pubkey> = signers.iter().collect();
            let r = tok_ref::initialize_multisig(&tok_id, &ms, &refs, m).ok();
            (
                Token::instruction(
                    &sf_tok::InitializeMultisig { m },
                    sf_tok::InitializeMultisigClientAccounts { multisig: ms, rent, signers: signers.clone() },
                ),
                subst(Reference { ix: r, applicable: true }, 1, rent),
            )
        }
        "tok.Transfer" => {
            arity!(4);
            let (s, d, o, n) = (k!(0), k!(1), k!(2), n!(3));
            (
                Token::instruction(
                    &sf_tok::Transfer { amount: n },
                    sf_tok::TransferClientAccounts { source: s, destination: d, owner: o },
                ),
                rf(tok_ref::transfer(&tok_id, &s, &d, &o, &[], n).ok()?),
            )
        }
        "tok.Approve" => {
            arity!(4);
            let (s, d, o, n) = (k!(0), k!(1), k!(2), n!(3));
            (
                Token::instruction(
                    &sf_tok::Approve { amount: n },
                    sf_tok::ApproveClientAccounts { source: s, delegate: d, owner: o },
                ),
                rf(tok_ref::approve(&tok_id, &s, &d, &o, &[], n).ok()?),
            )
        }
        "tok.Revoke" => {
            arity!(2);
            let (s, o) = (k!(0), k!(1));
            (
                Token::instruction(&sf_tok::Revoke, sf_tok::RevokeClientAccounts { source: s, owner: o }),
                rf(tok_ref::revoke(&tok_id, &s, &o, &[]).ok()?),
            )
        }
        "tok.SetAuthority" => {
            arity!(4);
            let (acc, cur, (ty_sf, ty_ref), na) = (k!(0), k!(1), p_auth(a.get(2)?)?, ok!(3));
            bumps.push(format!("authority_type:{}", a[2]));
            bumps.push(format!("opt:new_authority:{}", na.is_some()));
            (
                Token::instruction(
                    &sf_tok::SetAuthority { authority_type: ty_sf, new_authority: na },
                    sf_tok::SetAuthorityClientAccounts { account: acc, current_authority: cur },
                ),
                rf(tok_ref::set_authority(&tok_id, &acc, na.as_ref(), ty_ref, &cur, &[]).ok()?),
            )
        }
        "tok.MintTo" => {
            arity!(4);
            let (mint, acc, au, n) = (k!(0), k!(1), k!(2), n!(3));
            (
                Token::instruction(
                    &sf_tok::MintTo { amount: n },
                    sf_tok::MintToClientAccounts { mint, account: acc, mint_authority: au },
                ),
                rf(tok_ref::mint_to(&tok_id, &mint, &acc, &au, &[], n).ok()?),
            )
        }
        "tok.Burn" => {
            arity!(4);
            let (acc, mint, o, n) = (k!(0), k!(1), k!(2), n!(3));
            (
                Token::instruction(&sf_tok::Burn { amount: n }, sf_tok::BurnClientAccounts { account: acc, mint, owner: o }),
                rf(tok_ref::burn(&tok_id, &acc, &mint, &o, &[], n).ok()?),
            )
        }
        "tok.CloseAccount" => {
            arity!(3);
            let (acc, d, o) = (k!(0), k!(1), k!(2));
            (
                Token::instruction(
                    &sf_tok::CloseAccount,
                    sf_tok::CloseAccountClientAccounts { account: acc, destination: d, owner: o },
                ),
                rf(tok_ref::close_account(&tok_id, &acc, &d, &o, &[]).ok()?),
            )
        }
        "tok.FreezeAccount" => {
            arity!(3);
            let (acc, mint, au) = (k!(0), k!(1), k!(2));
            (
                Token::instruction(
                    &sf_tok::FreezeAccount,
                    sf_tok::FreezeAccountClientAccounts { account: acc, mint, authority: au },
                ),
                rf(tok_ref::freeze_account(&tok_id, &acc, &mint, &au, &[]).ok()?),
            )
        }
        "tok.ThawAccount" => {
            arity!(3);
            let (acc, mint, au) = (k!(0), k!(1), k!(2));
            (
                Token::instruction(
                    &sf_tok::ThawAccount,
                    sf_tok::ThawAccountClientAccounts { account: acc, mint, authority: au },
                ),
                rf(tok_ref::thaw_account(&tok_id, &acc, &mint, &au, &[]).ok()?),
            )
        }
        "tok.TransferChecked" => {
            arity!(6);
            let (s, mint, d, o, n, dec) = (k!(0), k!(1), k!(2), k!(3), n!(4), b!(5));
            (
                Token::instruction(
                    &sf_tok::TransferChecked { amount: n, decimals: dec },
                    sf_tok::TransferCheckedClientAccounts { source: s, mint, destination: d, owner: o },
                ),
                rf(tok_ref::transfer_checked(&tok_id, &s, &mint, &d, &o, &[], n, dec).ok()?),
            )
        }
        "tok.ApproveChecked" => {
            arity!(6);
            let (s, mint, d, o, n, dec) = (k!(0), k!(1), k!(2), k!(3), n!(4), b!(5));
            (
                Token::instruction(
                    &sf_tok::ApproveChecked { amount: n, decimals: dec },
                    sf_tok::ApproveCheckedClientAccounts { source: s, mint, delegate: d, owner: o },
                ),
                rf(tok_ref::approve_checked(&tok_id, &s, &mint, &d, &o, &[], n, dec).ok()?),
            )
        }
        "tok.MintToChecked" => {
            arity!(5);
            let (mint, acc, au, n, dec) = (k!(0), k!(1), k!(2), n!(3), b!(4));
            (
                Token::instruction(
                    &sf_tok::MintToChecked { amount: n, decimals: dec },
                    sf_tok::MintToCheckedClientAccounts { mint, account: acc, mint_authority: au },
                ),
                rf(tok_ref::mint_to_checked(&tok_id, &mint, &acc, &au, &[], n, dec).ok()?),
            )
        }
        "tok.BurnChecked" => {
            arity!(5);
            let (acc, mint, o, n, dec) = (k!(0), k!(1), k!(2), n!(3), b!(4));
            (
                Token::instruction(
                    &sf_tok::BurnChecked { amount: n, decimals: dec },
                    sf_tok::BurnCheckedClientAccounts { account: acc, mint, owner: o },
                ),
                rf(tok_ref::burn_checked(&tok_id, &acc, &mint, &o, &[], n, dec).ok()?),
            )
        }
        "tok.InitializeAccount2" => {
            arity!(4);
            let (acc, mint, rent, o) = (k!(0), k!(1), ok!(2), k!(3));
            (
                Token::instruction(
                    &sf_tok::InitializeAccount2 { owner: o },
                    sf_tok::InitializeAccount2ClientAccounts { account: acc, mint, rent },
                ),
                subst(rf(tok_ref::initialize_account2(&tok_id, &acc, &mint, &o).ok()?), 2, rent),
            )
        }
        "tok.SyncNative" => {
            arity!(1);
            let acc = k!(0);
            (
                Token::instruction(&sf_tok::SyncNative, sf_tok::SyncNativeClientAccounts { account: acc }),
                rf(tok_ref::sync_native(&tok_id, &acc).ok()?),
            )
        }
        "tok.InitializeAccount3" => {
            arity!(3);
            let (acc, mint, o) = (k!(0), k!(1), k!(2));
            (
                Token::instruction(
                    &sf_tok::InitializeAccount3 { owner: o },
                    sf_tok::InitializeAccount3ClientAccounts { account: acc, mint },
                ),
                rf(tok_ref::initialize_account3(&tok_id, &acc, &mint, &o).ok()?),
            )
        }
        "tok.InitializeMultisig2" => {
            arity!(3);
            let (ms, signers, m) = (k!(0), p_keys(a.get(1)?)?, b!(2));
            bumps.push(format!("signers:{}", signers.len()));
            let refs: Vec<&Pubkey> = signers.iter().collect();
            let r = tok_ref::initialize_multisig2(&tok_id, &ms, &refs, m).ok();
            (
                Token::instruction(
                    &sf_tok::InitializeMultisig2 { m },
                    sf_tok::InitializeMultisig2ClientAccounts { multisig: ms, signers: signers.clone() },
                ),
                Reference { ix: r, applicable: true },
            )
        }
        "tok.InitializeMint2" => {
            arity!(4);
            let (mint, d, ma, fa) = (k!(0), b!(1), k!(2), ok!(3));
            bumps.push(format!("opt:freeze_authority:{}", fa.is_some()));
            (
                Token::instruction(
                    &sf_tok::InitializeMint2 { decimals: d, mint_authority: ma, freeze_authority: fa },
                    sf_tok::InitializeMint2ClientAccounts { mint },
                ),
                rf(tok_ref::initialize_mint2(&tok_id, &mint, &ma, fa.as_ref(), d).ok()?),
            )
        }
        "tok.GetAccountDataSize" => {
            arity!(1);
            let mint = k!(0);
            (
                Token::instruction(&sf_tok::GetAccountDataSize, sf_tok::GetAccountDataSizeClientAccounts { mint }),
                rf(tok_ref::get_account_data_size(&tok_id, &mint).ok()?),
            )
        }
        "tok.InitializeImmutableOwner" => {
            arity!(1);
            let acc = k!(0);
            (
                Token::instruction(
                    &sf_tok::InitializeImmutableOwner,
                    sf_tok::InitializeImmutableOwnerClientAccounts { account: acc },
                ),
                rf(tok_ref::initialize_immutable_owner(&tok_id, &acc).ok()?),
            )
        }
        "tok.AmountToUiAmount" => {
            arity!(2);
            let (mint, n) = (k!(0), n!(1));
            (
                Token::instruction(&sf_tok::AmountToUiAmount { amount: n }, sf_tok::AmountToUiAmountClientAccounts { mint }),
                rf(tok_ref::amount_to_ui_amount(&tok_id, &mint, n).ok()?),
            )
        }
        // ------------------------------------------------------------------ ATA
        "ata.Create" | "ata.CreateIdempotent" => {
            arity!(6);
            let (f, ta, w, mint, sp, tp) = (k!(0), k!(1), k!(2), k!(3), ok!(4), ok!(5));
            bumps.push(format!("opt:token_program:{}", tp.is_some()));
            bumps.push(format!("opt:system_program:{}", sp.is_some()));
            let accs = sf_ata::CreateClientAccounts {
                funder: f,
                token_account: ta,
                wallet: w,
                mint,
                system_program: sp,
                token_program: tp,
            };
            let tpk = tp.unwrap_or(tok_id);
            if name == "ata.Create" {
                (
                    AssociatedToken::instruction(&sf_ata::Create, accs),
                    subst(pinned(rf(ata_ref::instruction::create_associated_token_account(&f, &w, &mint, &tpk)), 1, &ta), 4, sp),
                )
            } else {
                (
                    AssociatedToken::instruction(&sf_ata::CreateIdempotent, accs),
                    subst(
                        pinned(rf(ata_ref::instruction::create_associated_token_account_idempotent(&f, &w, &mint, &tpk)), 1, &ta),
                        4,
                        sp,
                    ),
                )
            }
        }
        "ata.RecoverNested" => {
            arity!(7);
            let (na, nm, da, oa, om, w, tp) = (k!(0), k!(1), k!(2), k!(3), k!(4), k!(5), ok!(6));
            bumps.push(format!("opt:token_program:{}", tp.is_some()));
            let tpk = tp.unwrap_or(tok_id);
            let r = rf(ata_ref::instruction::recover_nested(&w, &om, &nm, &tpk));
            (
                AssociatedToken::instruction(
                    &sf_ata::RecoverNested,
                    sf_ata::RecoverNestedClientAccounts {
                        nested_ata: na,
                        nested_mint: nm,
                        destination_ata: da,
                        owner_ata: oa,
                        owner_mint: om,
                        wallet: w,
                        token_program: tp,
                    },
                ),
                pinned(pinned(pinned(r, 0, &na), 2, &da), 3, &oa),
            )
        }
        _ => return None,
    })
}

pub fn exec_ix(rest: &[&str]) -> Exec {
    let Some((name, args)) = rest.split_first() else { return Exec::bad() };
    let mut bumps = vec![format!("ix:{name}")];
    let Some((fw, reference)) = build(name, args, &mut bumps) else { return Exec::bad() };
    let mut fails = vec![];
    let mut nontrivial = false;
    let answer = match &fw {
        Ok(ix) => format!("ok {} {} {}", hex(ix.program_id.as_ref()), hex(&ix.data), show_metas(&ix.accounts)),
        Err(_) => "err:client".to_string(),
    };
    // independent sanity of the ids the framework declares
    debug_assert_eq!(sf_sys::System::ID, solana_system_interface::program::ID);
    match (&fw, &reference.ix) {
        (_, None) => bumps.push("ref:refused".into()),
        (_, Some(_)) if !reference.applicable => bumps.push("ref:inapplicable(client key differs from the key the reference fixes)".into()),
        (Err(_), Some(_)) => fails.push((format!("ix_build:{name}"), "framework client path failed where the reference builds".into())),
        (Ok(f), Some(r)) => {
            nontrivial = true;
            bumps.push("ref:compared".into());
            if f.program_id != r.program_id {
                fails.push((
                    format!("ix_program:{name}"),
                    format!("program id: framework {} reference {}", hex(f.program_id.as_ref()), hex(r.program_id.as_ref())),
                ));
            }
            if f.data != r.data {
                fails.push((format!("ix_data:{name}"), format!("data: framework {} reference {}", hex(&f.data), hex(&r.data))));
            }
            if f.accounts != r.accounts {
                let first = f
                    .accounts
                    .iter()
                    .zip(r.accounts.iter())
                    .position(|(x, y)| x != y)
                    .unwrap_or(f.accounts.len().min(r.accounts.len()));
                fails.push((
                    format!("ix_metas:{name}"),
                    format!(
                        "metas differ first at index {first}: framework {} reference {}",
                        show_metas(&f.accounts),
                        show_metas(&r.accounts)
                    ),
                ));
            }
        }
    }
    Exec { answer, fails, nontrivial, bumps }
}
