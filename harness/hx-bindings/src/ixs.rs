//! `ix` ops: framework client path vs reference builders.
use crate::Exec;
use hx_common::{hex, unhex};
use solana_instruction::{AccountMeta, Instruction};
use star_frame::{cpi::MakeCpi, pinocchio::account_info::AccountInfo};
use solana_pubkey::Pubkey;
use spl_associated_token_account_interface as ata_ref;
use spl_token_interface::instruction as tok_ref;
use star_frame::{client::MakeInstruction, program::system as sf_sys, program::StarFrameProgram};
use star_frame_spl::{
    associated_token::{instructions as sf_ata, AssociatedToken},
    token::{instructions as sf_tok, Token},
};

pub fn p_key(s: &str) -> Option<Pubkey> {
    let b = unhex(s)?;
    if s == "-" || b.len() != 32 {
        return None;
    }
    Some(Pubkey::new_from_array(b.try_into().ok()?))
}
fn p_opt_key(s: &str) -> Option<Option<Pubkey>> {
    if s == "none" {
        Some(None)
    } else {
        p_key(s).map(Some)
    }
}
fn p_keys(s: &str) -> Option<Vec<Pubkey>> {
    if s == "-" {
        return Some(vec![]);
    }
    s.split(',').map(p_key).collect()
}
fn p_u64(s: &str) -> Option<u64> {
    if s.is_empty() || !s.bytes().all(|c| c.is_ascii_digit()) {
        return None;
    }
    s.parse::<u64>().ok()
}
fn p_u8(s: &str) -> Option<u8> {
    if s.is_empty() || !s.bytes().all(|c| c.is_ascii_digit()) {
        return None;
    }
    s.parse::<u8>().ok()
}
fn p_auth(s: &str) -> Option<(sf_tok::AuthorityType, tok_ref::AuthorityType)> {
    Some(match s {
        "MintTokens" => (sf_tok::AuthorityType::MintTokens, tok_ref::AuthorityType::MintTokens),
        "FreezeAccount" => (sf_tok::AuthorityType::FreezeAccount, tok_ref::AuthorityType::FreezeAccount),
        "AccountOwner" => (sf_tok::AuthorityType::AccountOwner, tok_ref::AuthorityType::AccountOwner),
        "CloseAccount" => (sf_tok::AuthorityType::CloseAccount, tok_ref::AuthorityType::CloseAccount),
        _ => return None,
    })
}

pub fn show_metas(ms: &[AccountMeta]) -> String {
    if ms.is_empty() {
        return "-".into();
    }
    ms.iter()
        .map(|m| format!("{}:{}:{}", hex(m.pubkey.as_ref()), m.is_signer as u8, m.is_writable as u8))
        .collect::<Vec<_>>()
        .join(",")
}

/// Reference side of one op.
struct Reference {
    /// `None`: the reference builder refused (`initialize_multisig`: MissingRequiredSignature)
    ix: Option<Instruction>,
    /// false: the client supplied, for an account the reference fixes or derives itself, another key;
    /// the reference has no instruction to compare with
    applicable: bool,
}

fn rf(ix: Instruction) -> Reference {
    Reference { ix: Some(ix), applicable: true }
}

/// The client may override a defaulted account (`Sysvar<Rent>`, `Program<_>`): the reference instruction
/// with that position substituted is the expectation.
fn subst(mut r: Reference, idx: usize, over: Option<Pubkey>) -> Reference {
    if let (Some(ix), Some(k)) = (r.ix.as_mut(), over) {
        if let Some(m) = ix.accounts.get_mut(idx) {
            m.pubkey = k;
        }
    }
    r
}

/// The client supplies a key the reference hard-codes / derives at `idx`: only comparable if equal.
fn pinned(mut r: Reference, idx: usize, supplied: &Pubkey) -> Reference {
    if let Some(ix) = r.ix.as_ref() {
        if ix.accounts.get(idx).map(|m| &m.pubkey) != Some(supplied) {
            r.applicable = false;
        }
    }
    r
}

fn u64_class(v: u64) -> &'static str {
    match v {
        0 => "u64:0",
        u64::MAX => "u64:max",
        x if x > u32::MAX as u64 => "u64:>u32",
        _ => "u64:small",
    }
}

/// The CPI build of the same instruction: given one native `AccountInfo` per slot (in `keys` order), runs
/// `Program::cpi(data, …CpiAccounts { .. }, None).invoke()`.
pub type CpiFn = Box<dyn Fn(&[AccountInfo]) -> star_frame::Result<()>>;

/// Framework side of one op: the client build, and the CPI build with the key of each of its slots.
pub struct Framework {
    pub client: star_frame::Result<Instruction>,
    pub keys: Vec<Pubkey>,
    pub cpi: CpiFn,
    /// `bytes_of(&<I as InstructionDiscriminant<Set>>::DISCRIMINANT)` of the compiled code
    pub disc: Vec<u8>,
    /// payload struct fields BY NAME (the harness is compiled against the struct) with the borsh bytes of each
    /// field value on its own — the layout probe locates them in the instruction data
    pub arg_fields: Vec<(&'static str, Vec<u8>)>,
    /// account struct fields by name with the number of slots each contributes (harness literal order)
    pub acct_fields: Vec<(&'static str, usize)>,
}

fn disc_of<P, I>(_: &I) -> Vec<u8>
where
    P: StarFrameProgram,
    I: star_frame::instruction::InstructionDiscriminant<P::InstructionSet>,
{
    star_frame::bytemuck::bytes_of(&I::DISCRIMINANT).to_vec()
}

/// The key an account slot gets on the CPI path. The client path defaults `Sysvar<Rent>` / `Program<_>` slots
/// when the client passes `None`; a CPI caller has to pass the account, so the harness passes the canonical one.
trait SlotKey {
    fn slot_key(&self, field: &str) -> Pubkey;
}
impl SlotKey for Pubkey {
    fn slot_key(&self, _field: &str) -> Pubkey {
        *self
    }
}
impl SlotKey for Option<Pubkey> {
    fn slot_key(&self, field: &str) -> Pubkey {
        self.unwrap_or_else(|| match field {
            "rent" => Pubkey::from_str_const("SysvarRent111111111111111111111111111111111"),
            "system_program" => solana_system_interface::program::ID,
            "token_program" => spl_token_interface::ID,
            other => panic!("no canonical account for optional slot {other}"),
        })
    }
}

macro_rules! both {
    ($prog:ty, $data:expr, [$($df:ident : $dv:expr),*], $m:ident, $client:ident, $cpi:ident, { $($f:ident : $k:expr),* $(,)? }) => {{
        let data = $data;
        let client = <$prog>::instruction(&data, $m::$client { $($f: $k),* });
        let keys: Vec<Pubkey> = vec![$(SlotKey::slot_key(&$k, stringify!($f))),*];
        let cpi: CpiFn = Box::new(move |i: &[AccountInfo]| {
            let mut it = i.iter().copied();
            <$prog>::cpi(data, $m::$cpi { $($f: it.next().expect("one info per slot")),* }, None).invoke()
        });
        Framework {
            client,
            keys,
            cpi,
            disc: disc_of::<$prog, _>(&data),
            arg_fields: vec![$((stringify!($df), borsh::to_vec(&$dv).expect("borsh"))),*],
            acct_fields: vec![$((stringify!($f), 1usize)),*],
        }
    }};
}

/// same, for the two account structs that end in `signers: Rest<AccountInfo>`
macro_rules! both_rest {
    ($prog:ty, $data:expr, [$($df:ident : $dv:expr),*], $m:ident, $client:ident, $cpi:ident, { $($f:ident : $k:expr),* $(,)? }, $rest:ident) => {{
        let data = $data;
        let client = <$prog>::instruction(&data, $m::$client { $($f: $k,)* $rest: $rest.clone() });
        let mut keys: Vec<Pubkey> = vec![$(SlotKey::slot_key(&$k, stringify!($f))),*];
        keys.extend($rest.iter().copied());
        let cpi: CpiFn = Box::new(move |i: &[AccountInfo]| {
            let mut it = i.iter().copied();
            <$prog>::cpi(
                data,
                $m::$cpi { $($f: it.next().expect("one info per slot"),)* $rest: it.collect() },
                None,
            )
            .invoke()
        });
        Framework {
            client,
            keys,
            cpi,
            disc: disc_of::<$prog, _>(&data),
            arg_fields: vec![$((stringify!($df), borsh::to_vec(&$dv).expect("borsh"))),*],
            acct_fields: {
                let mut v = vec![$((stringify!($f), 1usize)),*];
                v.push((stringify!($rest), $rest.len()));
                v
            },
        }
    }};
}

type Built = (Framework, Reference);

fn build(name: &str, a: &[&str], bumps: &mut Vec<String>) -> Option<Built> {
    let tok_id = spl_token_interface::ID;
    macro_rules! k {
        ($i:expr) => {
            p_key(a.get($i)?)?
        };
    }
    macro_rules! ok {
        ($i:expr) => {
            p_opt_key(a.get($i)?)?
        };
    }
    macro_rules! n {
        ($i:expr) => {{
            let v = p_u64(a.get($i)?)?;
            bumps.push(u64_class(v).to_string());
            v
        }};
    }
    macro_rules! b {
        ($i:expr) => {
            p_u8(a.get($i)?)?
        };
    }
    macro_rules! arity {
        ($n:expr) => {
            if a.len() != $n {
                return None;
            }
        };
    }
    use solana_system_interface::instruction as sys_ref;
    Some(match name {
        // ------------------------------------------------------------------ System
        "sys.CreateAccount" => {
            arity!(5);
            let (f, nw, l, s, o) = (k!(0), k!(1), n!(2), n!(3), k!(4));
            (
                both!(sf_sys::System, sf_sys::CreateAccount { lamports: l, space: s, owner: o }, [lamports: l, space: s, owner: o], sf_sys, CreateAccountClientAccounts, CreateAccountCpiAccounts, { funder: f, new_account: nw }),
                rf(sys_ref::create_account(&f, &nw, l, s, &o)),
            )
        }
        "sys.Assign" => {
            arity!(2);
            let (acc, o) = (k!(0), k!(1));
            (
                both!(sf_sys::System, sf_sys::Assign { owner: o }, [owner: o], sf_sys, AssignClientAccounts, AssignCpiAccounts, { account: acc }),
                rf(sys_ref::assign(&acc, &o)),
            )
        }
        "sys.Transfer" => {
            arity!(3);
            let (f, r, l) = (k!(0), k!(1), n!(2));
            (
                both!(sf_sys::System, sf_sys::Transfer { lamports: l }, [lamports: l], sf_sys, TransferClientAccounts, TransferCpiAccounts, { funder: f, recipient: r }),
                rf(sys_ref::transfer(&f, &r, l)),
            )
        }
        "sys.AdvanceNonceAccount" => {
            arity!(3);
            let (nn, rb, au) = (k!(0), k!(1), k!(2));
            (
                both!(sf_sys::System, sf_sys::AdvanceNonceAccount, [], sf_sys, AdvanceNonceAccountClientAccounts, AdvanceNonceAccountCpiAccounts, { nonce_account: nn, recent_blockhashes: rb, nonce_authority: au }),
                pinned(rf(sys_ref::advance_nonce_account(&nn, &au)), 1, &rb),
            )
        }
        "sys.WithdrawNonceAccount" => {
            arity!(6);
            let (nn, r, rb, rent, au, l) = (k!(0), k!(1), k!(2), ok!(3), k!(4), n!(5));
            (
                both!(sf_sys::System, sf_sys::WithdrawNonceAccount(l), [f0: l], sf_sys, WithdrawNonceAccountClientAccounts, WithdrawNonceAccountCpiAccounts, { nonce_account: nn, recipient: r, recent_blockhashes: rb, rent: rent, nonce_authority: au }),
                subst(pinned(rf(sys_ref::withdraw_nonce_account(&nn, &au, &r, l)), 2, &rb), 3, rent),
            )
        }
        "sys.InitializeNonceAccount" => {
            arity!(4);
            let (nn, rb, rent, au) = (k!(0), k!(1), ok!(2), k!(3));
            // the reference has no stand-alone builder: second instruction of `create_nonce_account`
            let funder = Pubkey::new_from_array([7; 32]);
            let r = sys_ref::create_nonce_account(&funder, &nn, &au, 1).remove(1);
            (
                both!(sf_sys::System, sf_sys::InitializeNonceAccount(au), [f0: au], sf_sys, InitializeNonceAccountClientAccounts, InitializeNonceAccountCpiAccounts, { nonce_account: nn, recent_blockhashes: rb, rent: rent }),
                subst(pinned(rf(r), 1, &rb), 2, rent),
            )
        }
        "sys.AuthorizeNonceAccount" => {
            arity!(3);
            let (nn, au, na) = (k!(0), k!(1), k!(2));
            (
                both!(sf_sys::System, sf_sys::AuthorizeNonceAccount(na), [f0: na], sf_sys, AuthorizeNonceAccountClientAccounts, AuthorizeNonceAccountCpiAccounts, { nonce_account: nn, nonce_authority: au }),
                rf(sys_ref::authorize_nonce_account(&nn, &au, &na)),
            )
        }
        "sys.Allocate" => {
            arity!(2);
            let (acc, s) = (k!(0), n!(1));
            (
                both!(sf_sys::System, sf_sys::Allocate { space: s }, [space: s], sf_sys, AllocateClientAccounts, AllocateCpiAccounts, { account: acc }),
                rf(sys_ref::allocate(&acc, s)),
            )
        }
        "sys.UpgradeNonceAccount" => {
            arity!(1);
            let nn = k!(0);
            (
                both!(sf_sys::System, sf_sys::UpgradeNonceAccount, [], sf_sys, UpgradeNonceAccountClientAccounts, UpgradeNonceAccountCpiAccounts, { nonce_account: nn }),
                rf(sys_ref::upgrade_nonce_account(nn)),
            )
        }
        // ------------------------------------------------------------------ Token
        "tok.InitializeMint" => {
            arity!(5);
            let (mint, rent, d, ma, fa) = (k!(0), ok!(1), b!(2), k!(3), ok!(4));
            bumps.push(format!("opt:freeze_authority:{}", fa.is_some()));
            (
                both!(Token, sf_tok::InitializeMint { decimals: d, mint_authority: ma, freeze_authority: fa }, [decimals: d, mint_authority: ma, freeze_authority: fa], sf_tok, InitializeMintClientAccounts, InitializeMintCpiAccounts, { mint: mint, rent: rent }),
                subst(rf(tok_ref::initialize_mint(&tok_id, &mint, &ma, fa.as_ref(), d).ok()?), 1, rent),
            )
        }
        "tok.InitializeAccount" => {
            arity!(4);
            let (acc, mint, o, rent) = (k!(0), k!(1), k!(2), ok!(3));
            (
                both!(Token, sf_tok::InitializeAccount, [], sf_tok, InitializeAccountClientAccounts, InitializeAccountCpiAccounts, { account: acc, mint: mint, owner: o, rent: rent }),
                subst(rf(tok_ref::initialize_account(&tok_id, &acc, &mint, &o).ok()?), 3, rent),
            )
        }
        "tok.InitializeMultisig" => {
            arity!(4);
            let (ms, rent, signers, m) = (k!(0), ok!(1), p_keys(a.get(2)?)?, b!(3));
            bumps.push(format!("signers:{}", signers.len()));
            let refs: Vec<&Pubkey> = signers.iter().collect();
            let r = tok_ref::initialize_multisig(&tok_id, &ms, &refs, m).ok();
            (
                both_rest!(Token, sf_tok::InitializeMultisig { m }, [m: m], sf_tok, InitializeMultisigClientAccounts, InitializeMultisigCpiAccounts, { multisig: ms, rent: rent }, signers),
                subst(Reference { ix: r, applicable: true }, 1, rent),
            )
        }
        "tok.Transfer" => {
            arity!(4);
            let (s, d, o, n) = (k!(0), k!(1), k!(2), n!(3));
            (
                both!(Token, sf_tok::Transfer { amount: n }, [amount: n], sf_tok, TransferClientAccounts, TransferCpiAccounts, { source: s, destination: d, owner: o }),
                rf(tok_ref::transfer(&tok_id, &s, &d, &o, &[], n).ok()?),
            )
        }
        "tok.Approve" => {
            arity!(4);
            let (s, d, o, n) = (k!(0), k!(1), k!(2), n!(3));
            (
                both!(Token, sf_tok::Approve { amount: n }, [amount: n], sf_tok, ApproveClientAccounts, ApproveCpiAccounts, { source: s, delegate: d, owner: o }),
                rf(tok_ref::approve(&tok_id, &s, &d, &o, &[], n).ok()?),
            )
        }
        "tok.Revoke" => {
            arity!(2);
            let (s, o) = (k!(0), k!(1));
            (
                both!(Token, sf_tok::Revoke, [], sf_tok, RevokeClientAccounts, RevokeCpiAccounts, { source: s, owner: o }),
                rf(tok_ref::revoke(&tok_id, &s, &o, &[]).ok()?),
            )
        }
        "tok.SetAuthority" => {
            arity!(4);
            let (acc, cur, (ty_sf, ty_ref), na) = (k!(0), k!(1), p_auth(a.get(2)?)?, ok!(3));
            bumps.push(format!("authority_type:{}", a[2]));
            bumps.push(format!("opt:new_authority:{}", na.is_some()));
            (
                both!(Token, sf_tok::SetAuthority { authority_type: ty_sf, new_authority: na }, [authority_type: ty_sf, new_authority: na], sf_tok, SetAuthorityClientAccounts, SetAuthorityCpiAccounts, { account: acc, current_authority: cur }),
                rf(tok_ref::set_authority(&tok_id, &acc, na.as_ref(), ty_ref, &cur, &[]).ok()?),
            )
        }
        "tok.MintTo" => {
            arity!(4);
            let (mint, acc, au, n) = (k!(0), k!(1), k!(2), n!(3));
            (
                both!(Token, sf_tok::MintTo { amount: n }, [amount: n], sf_tok, MintToClientAccounts, MintToCpiAccounts, { mint: mint, account: acc, mint_authority: au }),
                rf(tok_ref::mint_to(&tok_id, &mint, &acc, &au, &[], n).ok()?),
            )
        }
        "tok.Burn" => {
            arity!(4);
            let (acc, mint, o, n) = (k!(0), k!(1), k!(2), n!(3));
            (
                both!(Token, sf_tok::Burn { amount: n }, [amount: n], sf_tok, BurnClientAccounts, BurnCpiAccounts, { account: acc, mint: mint, owner: o }),
                rf(tok_ref::burn(&tok_id, &acc, &mint, &o, &[], n).ok()?),
            )
        }
        "tok.CloseAccount" => {
            arity!(3);
            let (acc, d, o) = (k!(0), k!(1), k!(2));
            (
                both!(Token, sf_tok::CloseAccount, [], sf_tok, CloseAccountClientAccounts, CloseAccountCpiAccounts, { account: acc, destination: d, owner: o }),
                rf(tok_ref::close_account(&tok_id, &acc, &d, &o, &[]).ok()?),
            )
        }
        "tok.FreezeAccount" => {
            arity!(3);
            let (acc, mint, au) = (k!(0), k!(1), k!(2));
            (
                both!(Token, sf_tok::FreezeAccount, [], sf_tok, FreezeAccountClientAccounts, FreezeAccountCpiAccounts, { account: acc, mint: mint, authority: au }),
                rf(tok_ref::freeze_account(&tok_id, &acc, &mint, &au, &[]).ok()?),
            )
        }
        "tok.ThawAccount" => {
            arity!(3);
            let (acc, mint, au) = (k!(0), k!(1), k!(2));
            (
                both!(Token, sf_tok::ThawAccount, [], sf_tok, ThawAccountClientAccounts, ThawAccountCpiAccounts, { account: acc, mint: mint, authority: au }),
                rf(tok_ref::thaw_account(&tok_id, &acc, &mint, &au, &[]).ok()?),
            )
        }
        "tok.TransferChecked" => {
            arity!(6);
            let (s, mint, d, o, n, dec) = (k!(0), k!(1), k!(2), k!(3), n!(4), b!(5));
            (
                both!(Token, sf_tok::TransferChecked { amount: n, decimals: dec }, [amount: n, decimals: dec], sf_tok, TransferCheckedClientAccounts, TransferCheckedCpiAccounts, { source: s, mint: mint, destination: d, owner: o }),
                rf(tok_ref::transfer_checked(&tok_id, &s, &mint, &d, &o, &[], n, dec).ok()?),
            )
        }
        "tok.ApproveChecked" => {
            arity!(6);
            let (s, mint, d, o, n, dec) = (k!(0), k!(1), k!(2), k!(3), n!(4), b!(5));
            (
                both!(Token, sf_tok::ApproveChecked { amount: n, decimals: dec }, [amount: n, decimals: dec], sf_tok, ApproveCheckedClientAccounts, ApproveCheckedCpiAccounts, { source: s, mint: mint, delegate: d, owner: o }),
                rf(tok_ref::approve_checked(&tok_id, &s, &mint, &d, &o, &[], n, dec).ok()?),
            )
        }
        "tok.MintToChecked" => {
            arity!(5);
            let (mint, acc, au, n, dec) = (k!(0), k!(1), k!(2), n!(3), b!(4));
            (
                both!(Token, sf_tok::MintToChecked { amount: n, decimals: dec }, [amount: n, decimals: dec], sf_tok, MintToCheckedClientAccounts, MintToCheckedCpiAccounts, { mint: mint, account: acc, mint_authority: au }),
                rf(tok_ref::mint_to_checked(&tok_id, &mint, &acc, &au, &[], n, dec).ok()?),
            )
        }
        "tok.BurnChecked" => {
            arity!(5);
            let (acc, mint, o, n, dec) = (k!(0), k!(1), k!(2), n!(3), b!(4));
            (
                both!(Token, sf_tok::BurnChecked { amount: n, decimals: dec }, [amount: n, decimals: dec], sf_tok, BurnCheckedClientAccounts, BurnCheckedCpiAccounts, { account: acc, mint: mint, owner: o }),
                rf(tok_ref::burn_checked(&tok_id, &acc, &mint, &o, &[], n, dec).ok()?),
            )
        }
        "tok.InitializeAccount2" => {
            arity!(4);
            let (acc, mint, rent, o) = (k!(0), k!(1), ok!(2), k!(3));
            (
                both!(Token, sf_tok::InitializeAccount2 { owner: o }, [owner: o], sf_tok, InitializeAccount2ClientAccounts, InitializeAccount2CpiAccounts, { account: acc, mint: mint, rent: rent }),
                subst(rf(tok_ref::initialize_account2(&tok_id, &acc, &mint, &o).ok()?), 2, rent),
            )
        }
        "tok.SyncNative" => {
            arity!(1);
            let acc = k!(0);
            (
                both!(Token, sf_tok::SyncNative, [], sf_tok, SyncNativeClientAccounts, SyncNativeCpiAccounts, { account: acc }),
                rf(tok_ref::sync_native(&tok_id, &acc).ok()?),
            )
        }
        "tok.InitializeAccount3" => {
            arity!(3);
            let (acc, mint, o) = (k!(0), k!(1), k!(2));
            (
                both!(Token, sf_tok::InitializeAccount3 { owner: o }, [owner: o], sf_tok, InitializeAccount3ClientAccounts, InitializeAccount3CpiAccounts, { account: acc, mint: mint }),
                rf(tok_ref::initialize_account3(&tok_id, &acc, &mint, &o).ok()?),
            )
        }
        "tok.InitializeMultisig2" => {
            arity!(3);
            let (ms, signers, m) = (k!(0), p_keys(a.get(1)?)?, b!(2));
            bumps.push(format!("signers:{}", signers.len()));
            let refs: Vec<&Pubkey> = signers.iter().collect();
            let r = tok_ref::initialize_multisig2(&tok_id, &ms, &refs, m).ok();
            (
                both_rest!(Token, sf_tok::InitializeMultisig2 { m }, [m: m], sf_tok, InitializeMultisig2ClientAccounts, InitializeMultisig2CpiAccounts, { multisig: ms }, signers),
                Reference { ix: r, applicable: true },
            )
        }
        "tok.InitializeMint2" => {
            arity!(4);
            let (mint, d, ma, fa) = (k!(0), b!(1), k!(2), ok!(3));
            bumps.push(format!("opt:freeze_authority:{}", fa.is_some()));
            (
                both!(Token, sf_tok::InitializeMint2 { decimals: d, mint_authority: ma, freeze_authority: fa }, [decimals: d, mint_authority: ma, freeze_authority: fa], sf_tok, InitializeMint2ClientAccounts, InitializeMint2CpiAccounts, { mint: mint }),
                rf(tok_ref::initialize_mint2(&tok_id, &mint, &ma, fa.as_ref(), d).ok()?),
            )
        }
        "tok.GetAccountDataSize" => {
            arity!(1);
            let mint = k!(0);
            (
                both!(Token, sf_tok::GetAccountDataSize, [], sf_tok, GetAccountDataSizeClientAccounts, GetAccountDataSizeCpiAccounts, { mint: mint }),
                rf(tok_ref::get_account_data_size(&tok_id, &mint).ok()?),
            )
        }
        "tok.InitializeImmutableOwner" => {
            arity!(1);
            let acc = k!(0);
            (
                both!(Token, sf_tok::InitializeImmutableOwner, [], sf_tok, InitializeImmutableOwnerClientAccounts, InitializeImmutableOwnerCpiAccounts, { account: acc }),
                rf(tok_ref::initialize_immutable_owner(&tok_id, &acc).ok()?),
            )
        }
        "tok.AmountToUiAmount" => {
            arity!(2);
            let (mint, n) = (k!(0), n!(1));
            (
                both!(Token, sf_tok::AmountToUiAmount { amount: n }, [amount: n], sf_tok, AmountToUiAmountClientAccounts, AmountToUiAmountCpiAccounts, { mint: mint }),
                rf(tok_ref::amount_to_ui_amount(&tok_id, &mint, n).ok()?),
            )
        }
        // ------------------------------------------------------------------ ATA
        "ata.Create" | "ata.CreateIdempotent" => {
            arity!(6);
            let (f, ta, w, mint, sp, tp) = (k!(0), k!(1), k!(2), k!(3), ok!(4), ok!(5));
            bumps.push(format!("opt:token_program:{}", tp.is_some()));
            bumps.push(format!("opt:system_program:{}", sp.is_some()));
            let tpk = tp.unwrap_or(tok_id);
            if name == "ata.Create" {
                (
                    both!(AssociatedToken, sf_ata::Create, [], sf_ata, CreateClientAccounts, CreateCpiAccounts, { funder: f, token_account: ta, wallet: w, mint: mint, system_program: sp, token_program: tp }),
                    subst(pinned(rf(ata_ref::instruction::create_associated_token_account(&f, &w, &mint, &tpk)), 1, &ta), 4, sp),
                )
            } else {
                (
                    both!(AssociatedToken, sf_ata::CreateIdempotent, [], sf_ata, CreateClientAccounts, CreateCpiAccounts, { funder: f, token_account: ta, wallet: w, mint: mint, system_program: sp, token_program: tp }),
                    subst(
                        pinned(rf(ata_ref::instruction::create_associated_token_account_idempotent(&f, &w, &mint, &tpk)), 1, &ta),
                        4,
                        sp,
                    ),
                )
            }
        }
        "ata.RecoverNested" => {
            arity!(7);
            let (na, nm, da, oa, om, w, tp) = (k!(0), k!(1), k!(2), k!(3), k!(4), k!(5), ok!(6));
            bumps.push(format!("opt:token_program:{}", tp.is_some()));
            let tpk = tp.unwrap_or(tok_id);
            let r = rf(ata_ref::instruction::recover_nested(&w, &om, &nm, &tpk));
            (
                both!(AssociatedToken, sf_ata::RecoverNested, [], sf_ata, RecoverNestedClientAccounts, RecoverNestedCpiAccounts, { nested_ata: na, nested_mint: nm, destination_ata: da, owner_ata: oa, owner_mint: om, wallet: w, token_program: tp }),
                pinned(pinned(pinned(r, 0, &na), 2, &da), 3, &oa),
            )
        }
        _ => return None,
    })
}

/// Field-by-field comparison of two builds of the same instruction; failure classes `<prefix>_program:<name>`,
/// `<prefix>_data:<name>`, `<prefix>_metas:<name>`.
fn compare(prefix: &str, name: &str, what: (&str, &str), f: &Instruction, r: &Instruction, fails: &mut Vec<(String, String)>) {
    let (fname, rname) = what;
    if f.program_id != r.program_id {
        fails.push((
            format!("{prefix}_program:{name}"),
            format!("program id: {fname} {} {rname} {}", hex(f.program_id.as_ref()), hex(r.program_id.as_ref())),
        ));
    }
    if f.data != r.data {
        fails.push((format!("{prefix}_data:{name}"), format!("data: {fname} {} {rname} {}", hex(&f.data), hex(&r.data))));
    }
    if f.accounts != r.accounts {
        let first = f
            .accounts
            .iter()
            .zip(r.accounts.iter())
            .position(|(x, y)| x != y)
            .unwrap_or(f.accounts.len().min(r.accounts.len()));
        fails.push((
            format!("{prefix}_metas:{name}"),
            format!(
                "metas differ first at index {first}: {fname} {} {rname} {}",
                show_metas(&f.accounts),
                show_metas(&r.accounts)
            ),
        ));
    }
}

/// The framework side only (client build, CPI closure, discriminant, field probes) of `<name> <args…>`.
pub fn build_framework(name: &str, args: &[&str]) -> Option<Framework> {
    let mut bumps = vec![];
    build(name, args, &mut bumps).map(|b| b.0)
}

pub fn exec_ix(rest: &[&str]) -> Exec {
    let Some((name, args)) = rest.split_first() else { return Exec::bad() };
    let mut bumps = vec![format!("ix:{name}")];
    let Some((fw, reference)) = build(name, args, &mut bumps) else { return Exec::bad() };
    let fw = fw.client;
    let mut fails = vec![];
    let mut nontrivial = false;
    let answer = match &fw {
        Ok(ix) => format!("ok {} {} {}", hex(ix.program_id.as_ref()), hex(&ix.data), show_metas(&ix.accounts)),
        Err(_) => "err:client".to_string(),
    };
    match (&fw, &reference.ix) {
        (_, None) => bumps.push("ref:refused".into()),
        (_, Some(_)) if !reference.applicable => bumps.push("ref:inapplicable(client key differs from the key the reference fixes)".into()),
        (Err(_), Some(_)) => fails.push((format!("ix_build:{name}"), "framework client path failed where the reference builds".into())),
        (Ok(f), Some(r)) => {
            nontrivial = true;
            bumps.push("ref:compared".into());
            compare("ix", name, ("framework", "reference"), f, r, &mut fails);
        }
    }
    Exec { answer, fails, nontrivial, bumps }
}

/// Runtime privileges the supplied infos hold, relative to what each slot requires (the flags of the
/// client-built meta of that slot).
fn runtime_flags(mode: &str, required: (bool, bool)) -> Option<(bool, bool)> {
    Some(match mode {
        // exactly the required ones
        "exact" => required,
        // strictly more: every read-only non-signer slot is given a signer + writable info
        "more" => {
            if required == (false, false) {
                (true, true)
            } else {
                required
            }
        }
        // every info is a writable signer in the calling transaction
        "all" => (true, true),
        // no privileges at all (the metas are written before the runtime would refuse)
        "none" => (false, false),
        _ => return None,
    })
}

/// `cpi <mode> <prog>.<Variant> <args…>`: the same instruction built through the CPI path
/// (`Program::cpi(data, …CpiAccounts, None).invoke()`), captured by the `verif_hooks` CPI handler just before
/// the `invoke_signed` syscall, with native `AccountInfo`s whose runtime flags are chosen by `mode`.
/// Oracle: three-way — CPI build = client build = reference builder (program id, data, keys, order, flags).
pub fn exec_cpi(rest: &[&str]) -> Exec {
    use hx_native::{AcctSpec, World};
    use star_frame::verif_hooks::{CpiRecord, CPI_HANDLER};
    use std::{cell::RefCell, rc::Rc};
    let Some((mode, rest)) = rest.split_first() else { return Exec::bad() };
    let Some((name, args)) = rest.split_first() else { return Exec::bad() };
    if runtime_flags(mode, (false, false)).is_none() {
        return Exec::bad();
    }
    let mut bumps = vec![format!("cpi:{name}"), format!("cpi:mode:{mode}")];
    let Some((fw, reference)) = build(name, args, &mut bumps) else { return Exec::bad() };
    let mut fails = vec![];
    let client = fw.client.as_ref().ok();
    // one native info per slot
    let owner = Pubkey::new_from_array([5; 32]);
    let mut bare_readonly_upgraded = 0usize;
    let specs: Vec<AcctSpec> = fw
        .keys
        .iter()
        .enumerate()
        .map(|(j, k)| {
            let required = client
                .and_then(|c| {
                    c.accounts
                        .get(j)
                        .filter(|m| &m.pubkey == k)
                        .or_else(|| c.accounts.iter().find(|m| &m.pubkey == k))
                })
                .map(|m| (m.is_signer, m.is_writable))
                .unwrap_or((false, false));
            let (s, w) = runtime_flags(mode, required).unwrap();
            if required == (false, false) && (s || w) {
                bare_readonly_upgraded += 1;
            }
            AcctSpec::new(*k, owner).signer(s).writable(w).lamports(1_000_000)
        })
        .collect();
    if specs.len() > hx_native::MAX_ACCOUNTS {
        return Exec::bad();
    }
    let world = World::new(&specs);
    let rec: Rc<RefCell<Option<CpiRecord>>> = Rc::new(RefCell::new(None));
    let sink = rec.clone();
    CPI_HANDLER.with_borrow_mut(|h| {
        *h = Some(Box::new(move |r: &CpiRecord| {
            *sink.borrow_mut() = Some(r.clone());
            Some(Ok(()))
        }))
    });
    let res = hx_common::catch(|| (fw.cpi)(world.infos()));
    CPI_HANDLER.with_borrow_mut(|h| *h = None);
    let res = match res {
        Ok(r) => r,
        Err(_) => {
            return Exec {
                answer: "panic".into(),
                fails: vec![(format!("cpi_panic:{name}"), "the CPI build panicked".into())],
                nontrivial: true,
                bumps,
            }
        }
    };
    let got = rec.borrow_mut().take();
    let (answer, cpi_ix) = match (&res, got) {
        (Ok(()), Some(r)) => {
            let ix = Instruction {
                program_id: r.program_id,
                data: r.data.clone(),
                accounts: r.metas.iter().map(|(k, s, w)| AccountMeta { pubkey: *k, is_signer: *s, is_writable: *w }).collect(),
            };
            // the infos handed to the runtime are the supplied ones, in meta order
            let info_keys: Vec<Pubkey> = r.infos.iter().map(|i| Pubkey::new_from_array(*i.key())).collect();
            if info_keys != ix.accounts.iter().map(|m| m.pubkey).collect::<Vec<_>>() {
                fails.push((format!("cpi_infos:{name}"), "the account infos handed to the runtime are not in meta order".into()));
            }
            (format!("ok {} {} {}", hex(ix.program_id.as_ref()), hex(&ix.data), show_metas(&ix.accounts)), Some(ix))
        }
        (Ok(()), None) => ("err:no-cpi".to_string(), None),
        (Err(_), _) => ("err:cpi".to_string(), None),
    };
    let mut nontrivial = false;
    if bare_readonly_upgraded > 0 {
        bumps.push("cpi:read-only slot given a signer+writable info".into());
    }
    match (&cpi_ix, client) {
        (Some(c), Some(cl)) => {
            nontrivial = true;
            bumps.push("cpi:compared-with-client".into());
            compare("cpi_vs_client", name, ("cpi", "client"), c, cl, &mut fails);
        }
        (None, Some(_)) => fails.push((format!("cpi_build:{name}"), format!("the CPI path answered {answer} where the client path builds"))),
        _ => {}
    }
    match (&cpi_ix, &reference.ix) {
        (_, None) => bumps.push("cpi:ref:refused".into()),
        (_, Some(_)) if !reference.applicable => bumps.push("cpi:ref:inapplicable".into()),
        (Some(c), Some(r)) => {
            bumps.push("cpi:compared-with-reference".into());
            compare("cpi_vs_ref", name, ("cpi", "reference"), c, r, &mut fails);
        }
        (None, Some(_)) => {}
    }
    Exec { answer, fails, nontrivial, bumps }
}
