//! `mint` / `token` image ops (framework zero-copy view vs reference `Pack::unpack`) and `ata` ops.
use crate::{ixs::p_key, Exec};
use hx_common::{hex, unhex};
use hx_native::{AcctSpec, World};
use solana_program_option::COption;
use solana_program_pack::Pack;
use solana_pubkey::Pubkey;
use spl_token_interface::state as ref_state;
use star_frame::{
    account_set::{AccountSetDecode, AccountSetValidate},
    context::Context,
    data_types::KeyFor,
    program::StarFrameProgram,
};
use star_frame_spl::{
    associated_token::AssociatedToken,
    token::{
        state::{FreezeAuthority, MintAccount, TokenAccount, ValidateMint, ValidateToken},
        Token,
    },
};

/// Canonical error class: `hx_native::err_class`, with the framework's custom code for
/// `bytemuck::checked::CheckedCastError` named (the code is read from the framework's own `ErrorCode`).
fn err_class(e: star_frame::errors::Error) -> String {
    use star_frame::errors::{ErrorCode, StarFrameError};
    let c = hx_native::err_class(e);
    if c == format!("err:Custom{}", ErrorCode::CheckedCastError.code()) {
        "err:CheckedCastError".into()
    } else {
        c
    }
}

static PROGRAM_ID: Pubkey = Pubkey::new_from_array([9; 32]);

fn opt_key(o: Option<Pubkey>) -> String {
    match o {
        Some(k) => hex(k.as_ref()),
        None => "none".into(),
    }
}
fn copt_key(o: COption<Pubkey>) -> Option<Pubkey> {
    match o {
        COption::Some(k) => Some(k),
        COption::None => None,
    }
}

#[derive(PartialEq, Eq, Debug)]
struct MintFields {
    ma: Option<Pubkey>,
    supply: u64,
    dec: u8,
    init: bool,
    fa: Option<Pubkey>,
}
impl MintFields {
    fn show(&self) -> String {
        format!(
            "ok ma={} supply={} dec={} init={} fa={}",
            opt_key(self.ma),
            self.supply,
            self.dec,
            self.init as u8,
            opt_key(self.fa)
        )
    }
}

#[derive(PartialEq, Eq, Debug)]
struct TokenFields {
    mint: Pubkey,
    owner: Pubkey,
    amount: u64,
    delegate: Option<Pubkey>,
    state: u8,
    native: Option<u64>,
    delegated: u64,
    close: Option<Pubkey>,
}
impl TokenFields {
    fn show(&self) -> String {
        format!(
            "ok mint={} owner={} amount={} delegate={} state={} native={} delegated={} close={}",
            hex(self.mint.as_ref()),
            hex(self.owner.as_ref()),
            self.amount,
            opt_key(self.delegate),
            self.state,
            self.native.map(|n| n.to_string()).unwrap_or("none".into()),
            self.delegated,
            opt_key(self.close)
        )
    }
}

/// The framework's view of a mint image: `validate_accounts` (owner, length, checked cast,
/// initialized) then the fields through `data()`.
fn fw_mint(owner: &Pubkey, image: &[u8]) -> Result<MintFields, String> {
    let key = Pubkey::new_from_array([3; 32]);
    let world = World::new(&[AcctSpec::new(key, *owner).data(image.to_vec())]);
    let mut ctx = Context::new(&PROGRAM_ID);
    let mut accs = world.infos();
    let mut set = MintAccount::decode_accounts(&mut accs, (), &mut ctx).map_err(err_class)?;
    set.validate_accounts((), &mut ctx).map_err(err_class)?;
    let d = set.data().map_err(err_class)?;
    Ok(MintFields {
        ma: d.mint_authority.into_option(),
        supply: { d.supply },
        dec: d.decimals,
        init: d.is_initialized,
        fa: d.freeze_authority.into_option(),
    })
}

fn fw_token(owner: &Pubkey, image: &[u8]) -> Result<TokenFields, String> {
    let key = Pubkey::new_from_array([3; 32]);
    let world = World::new(&[AcctSpec::new(key, *owner).data(image.to_vec())]);
    let mut ctx = Context::new(&PROGRAM_ID);
    let mut accs = world.infos();
    let mut set = TokenAccount::decode_accounts(&mut accs, (), &mut ctx).map_err(err_class)?;
    set.validate_accounts((), &mut ctx).map_err(err_class)?;
    let d = set.data().map_err(err_class)?;
    let mint: KeyFor<MintAccount> = { d.mint };
    Ok(TokenFields {
        mint: *mint.pubkey(),
        owner: { d.owner },
        amount: { d.amount },
        delegate: d.delegate.into_option(),
        state: d.state as u8,
        native: d.is_native.into_option(),
        delegated: { d.delegated_amount },
        close: d.close_authority.into_option(),
    })
}

fn p_any_key(s: &str) -> Option<Option<Pubkey>> {
    if s == "any" {
        Some(None)
    } else {
        p_key(s).map(Some)
    }
}

/// `vmint`: the `validate_mint` validation id (`validate()?; validate_mint(arg)`).
pub fn exec_vmint(owner: &str, image: &str, d: &str, au: &str, fr: &str) -> Exec {
    let (Some(owner), Some(image)) = (p_key(owner), unhex(image)) else { return Exec::bad() };
    let dec: Option<u8> = if d == "any" {
        None
    } else if !d.is_empty() && d.bytes().all(|c| c.is_ascii_digit()) {
        match d.parse::<u8>() {
            Ok(v) => Some(v),
            Err(_) => return Exec::bad(),
        }
    } else {
        return Exec::bad();
    };
    let Some(auth) = p_any_key(au) else { return Exec::bad() };
    #[derive(Clone, Copy)]
    enum Fr {
        Any,
        None,
        Some(Pubkey),
    }
    let fr = match fr {
        "any" => Fr::Any,
        "none" => Fr::None,
        k => match p_key(k) {
            Some(k) => Fr::Some(k),
            None => return Exec::bad(),
        },
    };
    let run = || -> Result<(), String> {
        let key = Pubkey::new_from_array([3; 32]);
        let world = World::new(&[AcctSpec::new(key, owner).data(image.clone())]);
        let mut ctx = Context::new(&PROGRAM_ID);
        let mut accs = world.infos();
        let mut set = MintAccount::decode_accounts(&mut accs, (), &mut ctx).map_err(err_class)?;
        let arg = ValidateMint {
            decimals: dec,
            authority: auth.as_ref(),
            freeze_authority: match &fr {
                Fr::Any => FreezeAuthority::Any,
                Fr::None => FreezeAuthority::None,
                Fr::Some(k) => FreezeAuthority::Some(k),
            },
        };
        set.validate_accounts(arg, &mut ctx).map_err(err_class)
    };
    let fw = run();
    let answer = match &fw {
        Ok(()) => "ok".to_string(),
        Err(e) => e.clone(),
    };
    let mut bumps = vec![
        "validate:mint".to_string(),
        format!("vmint:fw:{answer}"),
        format!("vmint:arg:decimals:{}", if dec.is_some() { "some" } else { "any" }),
        format!("vmint:arg:authority:{}", if auth.is_some() { "some" } else { "any" }),
        format!("vmint:arg:freeze:{}", match fr { Fr::Any => "any", Fr::None => "none", Fr::Some(_) => "some" }),
    ];
    let mut fails = vec![];
    let mut nontrivial = false;
    if owner == Token::ID {
        if let Ok(m) = ref_state::Mint::unpack(&image) {
            nontrivial = true;
            let (ma, fa) = (copt_key(m.mint_authority), copt_key(m.freeze_authority));
            let want = dec.map_or(true, |d| m.decimals == d)
                && auth.map_or(true, |a| ma == Some(a))
                && match fr {
                    Fr::Any => true,
                    Fr::None => fa.is_none(),
                    Fr::Some(k) => fa == Some(k),
                };
            bumps.push(format!("vmint:ref-predicate:{want}"));
            if stale_payload(&image, &[(0, 32), (46, 32)]) {
                bumps.push("vmint:image-has-NONE-tag-over-stale-payload".into());
            }
            match (want, &fw) {
                (true, Err(e)) => fails.push((
                    "validate_mint_rejects_valid".into(),
                    format!("the predicate holds on the reference-unpacked fields, validate_mint answers {e}"),
                )),
                (false, Ok(())) => fails.push((
                    "validate_mint_accepts_invalid".into(),
                    "the predicate fails on the reference-unpacked fields, validate_mint accepts".into(),
                )),
                (false, Err(e)) if e != "err:InvalidAccountData" => fails.push((
                    "validate_mint_error_class".into(),
                    format!("expected err:InvalidAccountData, got {e}"),
                )),
                _ => {}
            }
        }
    }
    Exec { answer, fails, nontrivial, bumps }
}

/// true if some COption cell (tag offset, payload length) has tag NONE and a non-zero payload
fn stale_payload(image: &[u8], cells: &[(usize, usize)]) -> bool {
    cells.iter().any(|&(t, n)| {
        image.len() >= t + 4 + n && image[t..t + 4] == [0, 0, 0, 0] && image[t + 4..t + 4 + n].iter().any(|&b| b != 0)
    })
}

/// `vtoken`: the `validate_token` validation id.
pub fn exec_vtoken(owner: &str, image: &str, mint: &str, own: &str) -> Exec {
    let (Some(owner), Some(image)) = (p_key(owner), unhex(image)) else { return Exec::bad() };
    let (Some(mint), Some(own)) = (p_any_key(mint), p_any_key(own)) else { return Exec::bad() };
    let run = || -> Result<(), String> {
        let key = Pubkey::new_from_array([3; 32]);
        let world = World::new(&[AcctSpec::new(key, owner).data(image.clone())]);
        let mut ctx = Context::new(&PROGRAM_ID);
        let mut accs = world.infos();
        let mut set = TokenAccount::decode_accounts(&mut accs, (), &mut ctx).map_err(err_class)?;
        let arg = ValidateToken { mint: mint.map(KeyFor::new), owner: own };
        set.validate_accounts(arg, &mut ctx).map_err(err_class)
    };
    let fw = run();
    let answer = match &fw {
        Ok(()) => "ok".to_string(),
        Err(e) => e.clone(),
    };
    let mut bumps = vec![
        "validate:token".to_string(),
        format!("vtoken:fw:{answer}"),
        format!("vtoken:arg:mint:{}", if mint.is_some() { "some" } else { "any" }),
        format!("vtoken:arg:owner:{}", if own.is_some() { "some" } else { "any" }),
    ];
    let mut fails = vec![];
    let mut nontrivial = false;
    if owner == Token::ID {
        if let Ok(a) = ref_state::Account::unpack(&image) {
            nontrivial = true;
            let want: Result<(), &str> = if mint.map_or(false, |m| a.mint != m) {
                Err("err:InvalidAccountData")
            } else if own.map_or(false, |o| a.owner != o) {
                Err("err:IncorrectAuthority")
            } else {
                Ok(())
            };
            bumps.push(format!("vtoken:ref-predicate:{}", want.is_ok()));
            if stale_payload(&image, &[(72, 32), (109, 8), (129, 32)]) {
                bumps.push("vtoken:image-has-NONE-tag-over-stale-payload".into());
            }
            match (want, &fw) {
                (Ok(()), Err(e)) => fails.push((
                    "validate_token_rejects_valid".into(),
                    format!("the predicate holds on the reference-unpacked fields, validate_token answers {e}"),
                )),
                (Err(_), Ok(())) => fails.push((
                    "validate_token_accepts_invalid".into(),
                    "the predicate fails on the reference-unpacked fields, validate_token accepts".into(),
                )),
                (Err(w), Err(e)) if w != e => {
                    fails.push(("validate_token_error_class".into(), format!("expected {w}, got {e}")))
                }
                _ => {}
            }
        }
    }
    Exec { answer, fails, nontrivial, bumps }
}

pub fn exec_mint(owner: &str, image: &str) -> Exec {
    let (Some(owner), Some(image)) = (p_key(owner), unhex(image)) else { return Exec::bad() };
    let fw = fw_mint(&owner, &image);
    let mut bumps = vec!["image:mint".to_string(), format!("image:mint:len{}", if image.len() == 82 { "=82" } else { "!=82" })];
    let mut fails = vec![];
    let answer = match &fw {
        Ok(f) => f.show(),
        Err(e) => e.clone(),
    };
    bumps.push(format!("mint:fw:{}", if fw.is_ok() { "accept" } else { answer.as_str() }));
    let reference = ref_state::Mint::unpack(&image);
    bumps.push(format!("mint:ref:{}", if reference.is_ok() { "accept".to_string() } else { format!("{:?}", reference.as_ref().err().unwrap()) }));
    let mut nontrivial = reference.is_err() || fw.is_err();
    if owner == Token::ID {
        match (&reference, &fw) {
            (Ok(m), Ok(f)) => {
                let want = MintFields {
                    ma: copt_key(m.mint_authority),
                    supply: m.supply,
                    dec: m.decimals,
                    init: m.is_initialized,
                    fa: copt_key(m.freeze_authority),
                };
                nontrivial |= want.ma.is_some() || want.fa.is_some();
                if stale_payload(&image, &[(0, 32), (46, 32)]) {
                    bumps.push("mint:NONE-tag-over-stale-payload".into());
                }
                if &want != f {
                    fails.push(("mint_view_fields".into(), format!("reference {} framework {}", want.show(), f.show())));
                }
            }
            (Ok(_), Err(e)) => fails.push((
                "mint_view_rejects_valid".into(),
                format!("the reference unpacker accepts the image, the framework view answers {e}"),
            )),
            (Err(_), Ok(_)) => bumps.push("mint:fw-accepts-ref-rejects(not part of the property)".into()),
            (Err(_), Err(_)) => {}
        }
    } else {
        bumps.push("mint:foreign-owner".into());
    }
    Exec { answer, fails, nontrivial, bumps }
}

pub fn exec_token(owner: &str, image: &str) -> Exec {
    let (Some(owner), Some(image)) = (p_key(owner), unhex(image)) else { return Exec::bad() };
    let fw = fw_token(&owner, &image);
    let mut bumps = vec!["image:token".to_string(), format!("image:token:len{}", if image.len() == 165 { "=165" } else { "!=165" })];
    let mut fails = vec![];
    let answer = match &fw {
        Ok(f) => f.show(),
        Err(e) => e.clone(),
    };
    bumps.push(format!("token:fw:{}", if fw.is_ok() { "accept" } else { answer.as_str() }));
    let reference = ref_state::Account::unpack(&image);
    bumps.push(format!("token:ref:{}", if reference.is_ok() { "accept".to_string() } else { format!("{:?}", reference.as_ref().err().unwrap()) }));
    let mut nontrivial = reference.is_err() || fw.is_err();
    if owner == Token::ID {
        match (&reference, &fw) {
            (Ok(a), Ok(f)) => {
                let want = TokenFields {
                    mint: a.mint,
                    owner: a.owner,
                    amount: a.amount,
                    delegate: copt_key(a.delegate),
                    state: a.state as u8,
                    native: match a.is_native {
                        COption::Some(n) => Some(n),
                        COption::None => None,
                    },
                    delegated: a.delegated_amount,
                    close: copt_key(a.close_authority),
                };
                nontrivial |= want.delegate.is_some() || want.native.is_some() || want.close.is_some();
                if stale_payload(&image, &[(72, 32), (109, 8), (129, 32)]) {
                    bumps.push("token:NONE-tag-over-stale-payload".into());
                }
                if &want != f {
                    fails.push(("token_view_fields".into(), format!("reference {} framework {}", want.show(), f.show())));
                }
            }
            (Ok(_), Err(e)) => fails.push((
                "token_view_rejects_valid".into(),
                format!("the reference unpacker accepts the image, the framework view answers {e}"),
            )),
            (Err(_), Ok(_)) => bumps.push("token:fw-accepts-ref-rejects(not part of the property)".into()),
            (Err(_), Err(_)) => {}
        }
    } else {
        bumps.push("token:foreign-owner".into());
    }
    Exec { answer, fails, nontrivial, bumps }
}

/// Identify, by search over a candidate space, the `find_program_address` input that reproduces the
/// framework's (address, bump): ordered triples over {wallet, mint, Token, ATA, System ids} and the
/// three program ids; the expected candidate is tried first.
fn preimage(wallet: &Pubkey, mint: &Pubkey, addr: &Pubkey, bump: u8) -> Option<(Vec<Pubkey>, Pubkey)> {
    let ata = spl_associated_token_account_interface::program::ID;
    let tok = spl_token_interface::ID;
    let sys = solana_system_interface::program::ID;
    let pool = [*wallet, tok, *mint, ata, sys];
    let progs = [ata, tok, sys];
    let hit = |seeds: &[Pubkey], p: &Pubkey| {
        let s: Vec<&[u8]> = seeds.iter().map(|k| k.as_ref()).collect();
        Pubkey::find_program_address(&s, p) == (*addr, bump)
    };
    for p in &progs {
        // triples
        for i in 0..pool.len() {
            for j in 0..pool.len() {
                for k in 0..pool.len() {
                    if i == j || j == k || i == k {
                        continue;
                    }
                    let seeds = [pool[i], pool[j], pool[k]];
                    if hit(&seeds, p) {
                        return Some((seeds.to_vec(), *p));
                    }
                }
            }
        }
        // pairs
        for i in 0..pool.len() {
            for j in 0..pool.len() {
                if i != j && hit(&[pool[i], pool[j]], p) {
                    return Some((vec![pool[i], pool[j]], *p));
                }
            }
        }
    }
    None
}

pub fn exec_ata(wallet: &str, mint: &str) -> Exec {
    let (Some(wallet), Some(mint)) = (p_key(wallet), p_key(mint)) else { return Exec::bad() };
    let mut bumps = vec!["ata".to_string()];
    let mut fails = vec![];
    let (addr, bump) = AssociatedToken::find_address_with_bump(&wallet, &KeyFor::new(mint));
    let addr_only = AssociatedToken::find_address(&wallet, &KeyFor::new(mint));
    let pre = preimage(&wallet, &mint, &addr, bump);
    let answer = match &pre {
        Some((seeds, prog)) => format!(
            "ok {} {}",
            seeds.iter().map(|k| hex(k.as_ref())).collect::<Vec<_>>().join("|"),
            hex(prog.as_ref())
        ),
        None => "ok unknown".to_string(),
    };
    bumps.push(format!("ata:bump:{}", if bump == 255 { "255" } else { "<255" }));
    // reference derivation
    let (raddr, rbump) = spl_associated_token_account_interface::address::get_associated_token_address_and_bump_seed(
        &wallet,
        &mint,
        &spl_associated_token_account_interface::program::ID,
        &spl_token_interface::ID,
    );
    let raddr2 = spl_associated_token_account_interface::address::get_associated_token_address(&wallet, &mint);
    if (addr, bump) != (raddr, rbump) || addr_only != raddr2 {
        fails.push((
            "ata_address".into(),
            format!(
                "framework {}/{} (find_address {}) reference {}/{} ({})",
                hex(addr.as_ref()),
                bump,
                hex(addr_only.as_ref()),
                hex(raddr.as_ref()),
                rbump,
                hex(raddr2.as_ref())
            ),
        ));
    }
    Exec { answer, fails, nontrivial: pre.is_some(), bumps }
}
