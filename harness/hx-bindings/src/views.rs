//! `mint` / `token` image ops (framework zero-copy view vs reference `Pack::unpack`) and `ata` ops.
use crate::{ixs::p_key, Exec};
use hx_common::{hex, unhex};
use hx_native::{AcctSpec, World};
use solana_program_option::COption;
use solana_program_pack::Pack;
use solana_pubkey::Pubkey;
use spl_token_interface::state as ref_state;
use star_frame::{
    account_set::{
        modifiers::{CanInitAccount, Mut, Signer},
        AccountSetDecode, AccountSetValidate,
    },
    pinocchio::account_info::AccountInfo,
    program::system::System,
    context::Context,
    data_types::KeyFor,
    program::StarFrameProgram,
};
use star_frame_spl::{
    associated_token::AssociatedToken,
    token::{
        state::{
            FreezeAuthority, InitMint, InitToken, MintAccount, MintAccountData, TokenAccount, TokenAccountData, ValidateMint,
            ValidateToken,
        },
        Token,
    },
};

/// Canonical error class: `hx_native::err_class`, with the framework's custom code for
/// `bytemuck::checked::CheckedCastError` named (the code is read from the framework's own `ErrorCode`).
fn err_class(e: star_frame::errors::Error) -> String {
    use star_frame::errors::{ErrorCode, StarFrameError};
    let c = hx_native::err_class(e);
    if c == format!("err:Custom{}", ErrorCode::CheckedCastError.code()) {
        "err:CheckedCastError".into()
    } else {
        c
    }
}

static PROGRAM_ID: Pubkey = Pubkey::new_from_array([9; 32]);

fn opt_key(o: Option<Pubkey>) -> String {
    match o {
        Some(k) => hex(k.as_ref()),
        None => "none".into(),
    }
}
fn copt_key(o: COption<Pubkey>) -> Option<Pubkey> {
    match o {
        COption::Some(k) => Some(k),
        COption::None => None,
    }
}

#[derive(PartialEq, Eq, Debug)]
struct MintFields {
    ma: Option<Pubkey>,
    supply: u64,
    dec: u8,
    init: bool,
    fa: Option<Pubkey>,
}
impl MintFields {
    fn show(&self) -> String {
        format!(
            "ok ma={} supply={} dec={} init={} fa={}",
            opt_key(self.ma),
            self.supply,
            self.dec,
            self.init as u8,
            opt_key(self.fa)
        )
    }
}

#[derive(PartialEq, Eq, Debug)]
struct TokenFields {
    mint: Pubkey,
    owner: Pubkey,
    amount: u64,
    delegate: Option<Pubkey>,
    state: u8,
    native: Option<u64>,
    delegated: u64,
    close: Option<Pubkey>,
}
impl TokenFields {
    fn show(&self) -> String {
        format!(
            "ok mint={} owner={} amount={} delegate={} state={} native={} delegated={} close={}",
            hex(self.mint.as_ref()),
            hex(self.owner.as_ref()),
            self.amount,
            opt_key(self.delegate),
            self.state,
            self.native.map(|n| n.to_string()).unwrap_or("none".into()),
            self.delegated,
            opt_key(self.close)
        )
    }
}

fn p_any_key(s: &str) -> Option<Option<Pubkey>> {
    if s == "any" {
        Some(None)
    } else {
        p_key(s).map(Some)
    }
}
fn p_u8(s: &str) -> Option<u8> {
    if s.is_empty() || !s.bytes().all(|c| c.is_ascii_digit()) {
        return None;
    }
    s.parse::<u8>().ok()
}

/// true if some COption cell (tag offset, payload length) has tag NONE and a non-zero payload
fn stale_payload(image: &[u8], cells: &[(usize, usize)]) -> bool {
    cells.iter().any(|&(t, n)| {
        image.len() >= t + 4 + n && image[t..t + 4] == [0, 0, 0, 0] && image[t + 4..t + 4 + n].iter().any(|&b| b != 0)
    })
}

/// Runtime flags of the `AccountInfo` the image sits behind: `w<0|1>s<0|1>`.
#[derive(Clone, Copy)]
struct Flags {
    w: bool,
    s: bool,
}
fn p_flags(s: &str) -> Option<Flags> {
    Some(match s {
        "w0s0" => Flags { w: false, s: false },
        "w0s1" => Flags { w: false, s: true },
        "w1s0" => Flags { w: true, s: false },
        "w1s1" => Flags { w: true, s: true },
        _ => return None,
    })
}

#[derive(Clone, Copy)]
enum Fr {
    Any,
    None,
    Some(Pubkey),
}

/// arguments of the paths that take some
#[derive(Clone, Copy)]
enum MintArg {
    No,
    Validate { dec: Option<u8>, auth: Option<Pubkey>, fr: Fr },
    Init { dec: u8, auth: Pubkey, fr: Option<Pubkey> },
}
#[derive(Clone, Copy)]
enum TokenArg {
    No,
    Validate { mint: Option<Pubkey>, owner: Option<Pubkey> },
    Init { mint: Pubkey, owner: Pubkey },
}

enum Got<F> {
    Fields(F),
    Unit,
    Init(bool),
}

type Funder = Mut<Signer<AccountInfo>>;

fn validate_mint_arg<'a>(dec: Option<u8>, auth: &'a Option<Pubkey>, fr: &'a Fr) -> ValidateMint<'a> {
    ValidateMint {
        decimals: dec,
        authority: auth.as_ref(),
        freeze_authority: match fr {
            Fr::Any => FreezeAuthority::Any,
            Fr::None => FreezeAuthority::None,
            Fr::Some(k) => FreezeAuthority::Some(k),
        },
    }
}

/// One access path of `MintAccount` on `image` behind an info with the given runtime flags.
fn run_mint(path: &str, f: Flags, owner: &Pubkey, image: &[u8], arg: MintArg) -> Option<Result<Got<MintFields>, String>> {
    let key = Pubkey::new_from_array([3; 32]);
    let world = World::new(&[
        AcctSpec::new(key, *owner).data(image.to_vec()).writable(f.w).signer(f.s),
        AcctSpec::new(Pubkey::new_from_array([4; 32]), System::ID).signer(true).writable(true).lamports(1_000_000_000),
    ]);
    let mut ctx = Context::new(&PROGRAM_ID);
    let mut accs = &world.infos()[..1];
    let mut set = match MintAccount::decode_accounts(&mut accs, (), &mut ctx) {
        Ok(s) => s,
        Err(e) => return Some(Err(err_class(e))),
    };
    let fields = |d: &MintAccountData| MintFields {
        ma: d.mint_authority.into_option(),
        supply: { d.supply },
        dec: d.decimals,
        init: d.is_initialized,
        fa: d.freeze_authority.into_option(),
    };
    let vm = validate_mint_arg;
    Some(match (path, arg) {
        ("unchecked", MintArg::No) => set.data_unchecked().map(|d| Got::Fields(fields(&d))).map_err(err_class),
        ("data", MintArg::No) => set.data().map(|d| Got::Fields(fields(&d))).map_err(err_class),
        ("validate", MintArg::No) => set.validate().map(|_| Got::Unit).map_err(err_class),
        ("set", MintArg::No) => (|| {
            set.validate_accounts((), &mut ctx).map_err(err_class)?;
            let d = set.data().map_err(err_class)?;
            Ok(Got::Fields(fields(&d)))
        })(),
        ("vset", MintArg::Validate { dec, auth, fr }) => {
            set.validate_accounts(vm(dec, &auth, &fr), &mut ctx).map(|_| Got::Unit).map_err(err_class)
        }
        ("vdirect", MintArg::Validate { dec, auth, fr }) => {
            set.validate_mint(vm(dec, &auth, &fr)).map(|_| Got::Unit).map_err(err_class)
        }
        ("init", MintArg::Init { dec, auth, fr }) => (|| {
            let mut faccs = &world.infos()[1..2];
            let funder = Funder::decode_accounts(&mut faccs, (), &mut ctx).map_err(err_class)?;
            let init = InitMint { decimals: dec, mint_authority: &auth, freeze_authority: fr.as_ref() };
            set.init_account::<true>((init, &funder), None, &ctx).map(Got::Init).map_err(err_class)
        })(),
        _ => return None,
    })
}

fn run_token(path: &str, f: Flags, owner: &Pubkey, image: &[u8], arg: TokenArg) -> Option<Result<Got<TokenFields>, String>> {
    let key = Pubkey::new_from_array([3; 32]);
    let mint_key = match arg {
        TokenArg::Init { mint, .. } => mint,
        _ => Pubkey::new_from_array([6; 32]),
    };
    let world = World::new(&[
        AcctSpec::new(key, *owner).data(image.to_vec()).writable(f.w).signer(f.s),
        AcctSpec::new(Pubkey::new_from_array([4; 32]), System::ID).signer(true).writable(true).lamports(1_000_000_000),
        AcctSpec::new(mint_key, Token::ID),
    ]);
    let mut ctx = Context::new(&PROGRAM_ID);
    let mut accs = &world.infos()[..1];
    let mut set = match TokenAccount::decode_accounts(&mut accs, (), &mut ctx) {
        Ok(s) => s,
        Err(e) => return Some(Err(err_class(e))),
    };
    let fields = |d: &TokenAccountData| {
        let mint: KeyFor<MintAccount> = { d.mint };
        TokenFields {
            mint: *mint.pubkey(),
            owner: { d.owner },
            amount: { d.amount },
            delegate: d.delegate.into_option(),
            state: d.state as u8,
            native: d.is_native.into_option(),
            delegated: { d.delegated_amount },
            close: d.close_authority.into_option(),
        }
    };
    Some(match (path, arg) {
        ("unchecked", TokenArg::No) => set.data_unchecked().map(|d| Got::Fields(fields(&d))).map_err(err_class),
        ("data", TokenArg::No) => set.data().map(|d| Got::Fields(fields(&d))).map_err(err_class),
        ("validate", TokenArg::No) => set.validate().map(|_| Got::Unit).map_err(err_class),
        ("set", TokenArg::No) => (|| {
            set.validate_accounts((), &mut ctx).map_err(err_class)?;
            let d = set.data().map_err(err_class)?;
            Ok(Got::Fields(fields(&d)))
        })(),
        ("vset", TokenArg::Validate { mint, owner: own }) => set
            .validate_accounts(ValidateToken { mint: mint.map(KeyFor::new), owner: own }, &mut ctx)
            .map(|_| Got::Unit)
            .map_err(err_class),
        ("vdirect", TokenArg::Validate { mint, owner: own }) => {
            set.validate_token(ValidateToken { mint: mint.map(KeyFor::new), owner: own }).map(|_| Got::Unit).map_err(err_class)
        }
        ("init", TokenArg::Init { owner: own, .. }) => (|| {
            let mut faccs = &world.infos()[1..2];
            let funder = Funder::decode_accounts(&mut faccs, (), &mut ctx).map_err(err_class)?;
            let mint_info = world.infos()[2];
            let init = InitToken { owner: own, mint: &mint_info };
            set.init_account::<true>((init, &funder), None, &ctx).map(Got::Init).map_err(err_class)
        })(),
        _ => return None,
    })
}

fn want_mint(m: &ref_state::Mint) -> MintFields {
    MintFields {
        ma: copt_key(m.mint_authority),
        supply: m.supply,
        dec: m.decimals,
        init: m.is_initialized,
        fa: copt_key(m.freeze_authority),
    }
}
fn want_token(a: &ref_state::Account) -> TokenFields {
    TokenFields {
        mint: a.mint,
        owner: a.owner,
        amount: a.amount,
        delegate: copt_key(a.delegate),
        state: a.state as u8,
        native: match a.is_native {
            COption::Some(n) => Some(n),
            COption::None => None,
        },
        delegated: a.delegated_amount,
        close: copt_key(a.close_authority),
    }
}

/// failure-class stem: the historical names for the account-set paths, `<kind>_<path>` otherwise
fn stem(kind: &str, path: &str) -> String {
    match path {
        "set" => format!("{kind}_view"),
        "vset" => format!("validate_{kind}"),
        "vdirect" => format!("validate_{kind}_direct"),
        "init" => format!("init_{kind}_if_needed"),
        p => format!("{kind}_{p}"),
    }
}

/// `view mint <path> <flags> <owner> <image> [args]`
fn view_mint(path: &str, flags: &str, owner: &str, image: &str, args: &[&str]) -> Exec {
    let (Some(f), Some(owner), Some(image)) = (p_flags(flags), p_key(owner), unhex(image)) else { return Exec::bad() };
    let arg = match (path, args) {
        ("unchecked" | "data" | "validate" | "set", []) => MintArg::No,
        ("vset" | "vdirect", [d, au, fr]) => {
            let dec = if *d == "any" {
                None
            } else {
                match p_u8(d) {
                    Some(v) => Some(v),
                    None => return Exec::bad(),
                }
            };
            let Some(auth) = p_any_key(au) else { return Exec::bad() };
            let fr = match *fr {
                "any" => Fr::Any,
                "none" => Fr::None,
                k => match p_key(k) {
                    Some(k) => Fr::Some(k),
                    None => return Exec::bad(),
                },
            };
            MintArg::Validate { dec, auth, fr }
        }
        ("init", [d, au, fr]) => {
            let (Some(dec), Some(auth)) = (p_u8(d), p_key(au)) else { return Exec::bad() };
            let fr = if *fr == "none" {
                None
            } else {
                match p_key(fr) {
                    Some(k) => Some(k),
                    None => return Exec::bad(),
                }
            };
            if owner != Token::ID {
                return Exec::bad(); // the create path would run: not an access path of an existing image
            }
            MintArg::Init { dec, auth, fr }
        }
        _ => return Exec::bad(),
    };
    let Some(fw) = run_mint(path, f, &owner, &image, arg) else { return Exec::bad() };
    let answer = match &fw {
        Ok(Got::Fields(x)) => x.show(),
        Ok(Got::Unit) => "ok".to_string(),
        Ok(Got::Init(b)) => format!("ok {b}"),
        Err(e) => e.clone(),
    };
    let mut bumps = vec![
        "image:mint".to_string(),
        format!("view:mint:{path}"),
        format!("view:flags:{flags}"),
        format!("image:mint:len{}", if image.len() == 82 { "=82" } else { "!=82" }),
        format!("mint:{path}:fw:{}", if fw.is_ok() { "accept" } else { answer.as_str() }),
    ];
    let mut fails = vec![];
    let reference = ref_state::Mint::unpack(&image);
    bumps.push(format!("mint:ref:{}", match &reference { Ok(_) => "accept".to_string(), Err(e) => format!("{e:?}") }));
    let mut nontrivial = reference.is_err() || fw.is_err();
    let st = stem("mint", path);
    if owner != Token::ID {
        bumps.push("mint:foreign-owner".into());
    } else if let Ok(m) = &reference {
        let want = want_mint(m);
        bumps.push(format!("mint:ref-accepts:writable={}", f.w));
        if stale_payload(&image, &[(0, 32), (46, 32)]) {
            bumps.push("mint:NONE-tag-over-stale-payload".into());
        }
        nontrivial |= want.ma.is_some() || want.fa.is_some() || f.w || f.s;
        match arg {
            MintArg::No => match &fw {
                Ok(Got::Fields(x)) if x != &want => {
                    fails.push((format!("{st}_fields"), format!("reference {} framework {}", want.show(), x.show())))
                }
                Err(e) => fails.push((
                    format!("{st}_rejects_valid"),
                    format!("the reference unpacker accepts the image, `{path}` behind a {flags} info answers {e}"),
                )),
                _ => {}
            },
            MintArg::Validate { .. } | MintArg::Init { .. } => {
                let (dec, auth, fr) = match arg {
                    MintArg::Validate { dec, auth, fr } => (dec, auth, fr),
                    MintArg::Init { dec, auth, fr } => (Some(dec), Some(auth), fr.map_or(Fr::None, Fr::Some)),
                    MintArg::No => unreachable!(),
                };
                let pred = dec.map_or(true, |d| want.dec == d)
                    && auth.map_or(true, |a| want.ma == Some(a))
                    && match fr {
                        Fr::Any => true,
                        Fr::None => want.fa.is_none(),
                        Fr::Some(k) => want.fa == Some(k),
                    };
                bumps.push(format!("mint:{path}:ref-predicate:{pred}"));
                match (pred, &fw) {
                    (true, Err(e)) => fails.push((
                        format!("{st}_rejects_valid"),
                        format!("the predicate holds on the reference-unpacked fields, `{path}` behind a {flags} info answers {e}"),
                    )),
                    (true, Ok(Got::Init(true))) => fails.push((format!("{st}_reinitialises"), "init_if_needed reports a fresh initialisation of an existing account".into())),
                    (false, Ok(_)) => fails.push((
                        format!("{st}_accepts_invalid"),
                        format!("the predicate fails on the reference-unpacked fields, `{path}` accepts"),
                    )),
                    (false, Err(e)) if e != "err:InvalidAccountData" => {
                        fails.push((format!("{st}_error_class"), format!("expected err:InvalidAccountData, got {e}")))
                    }
                    _ => {}
                }
            }
        }
    } else if fw.is_ok() {
        bumps.push("mint:fw-accepts-ref-rejects(not part of the property)".into());
    }
    Exec { answer, fails, nontrivial, bumps }
}

/// `view token <path> <flags> <owner> <image> [args]`
fn view_token(path: &str, flags: &str, owner: &str, image: &str, args: &[&str]) -> Exec {
    let (Some(f), Some(owner), Some(image)) = (p_flags(flags), p_key(owner), unhex(image)) else { return Exec::bad() };
    let arg = match (path, args) {
        ("unchecked" | "data" | "validate" | "set", []) => TokenArg::No,
        ("vset" | "vdirect", [m, o]) => {
            let (Some(mint), Some(own)) = (p_any_key(m), p_any_key(o)) else { return Exec::bad() };
            TokenArg::Validate { mint, owner: own }
        }
        ("init", [m, o]) => {
            let (Some(mint), Some(own)) = (p_key(m), p_key(o)) else { return Exec::bad() };
            if owner != Token::ID {
                return Exec::bad();
            }
            TokenArg::Init { mint, owner: own }
        }
        _ => return Exec::bad(),
    };
    let Some(fw) = run_token(path, f, &owner, &image, arg) else { return Exec::bad() };
    let answer = match &fw {
        Ok(Got::Fields(x)) => x.show(),
        Ok(Got::Unit) => "ok".to_string(),
        Ok(Got::Init(b)) => format!("ok {b}"),
        Err(e) => e.clone(),
    };
    let mut bumps = vec![
        "image:token".to_string(),
        format!("view:token:{path}"),
        format!("view:flags:{flags}"),
        format!("image:token:len{}", if image.len() == 165 { "=165" } else { "!=165" }),
        format!("token:{path}:fw:{}", if fw.is_ok() { "accept" } else { answer.as_str() }),
    ];
    let mut fails = vec![];
    let reference = ref_state::Account::unpack(&image);
    bumps.push(format!("token:ref:{}", match &reference { Ok(_) => "accept".to_string(), Err(e) => format!("{e:?}") }));
    let mut nontrivial = reference.is_err() || fw.is_err();
    let st = stem("token", path);
    if owner != Token::ID {
        bumps.push("token:foreign-owner".into());
    } else if let Ok(a) = &reference {
        let want = want_token(a);
        bumps.push(format!("token:ref-accepts:state={}:writable={}", want.state, f.w));
        if stale_payload(&image, &[(72, 32), (109, 8), (129, 32)]) {
            bumps.push("token:NONE-tag-over-stale-payload".into());
        }
        nontrivial |= want.delegate.is_some() || want.native.is_some() || want.close.is_some() || f.w || f.s || want.state == 2;
        match arg {
            TokenArg::No => match &fw {
                Ok(Got::Fields(x)) if x != &want => {
                    fails.push((format!("{st}_fields"), format!("reference {} framework {}", want.show(), x.show())))
                }
                Err(e) => fails.push((
                    format!("{st}_rejects_valid"),
                    format!(
                        "the reference unpacker accepts the image (state {}), `{path}` behind a {flags} info answers {e}",
                        want.state
                    ),
                )),
                _ => {}
            },
            TokenArg::Validate { .. } | TokenArg::Init { .. } => {
                let (mint, own) = match arg {
                    TokenArg::Validate { mint, owner } => (mint, owner),
                    TokenArg::Init { mint, owner } => (Some(mint), Some(owner)),
                    TokenArg::No => unreachable!(),
                };
                let pred: Result<(), &str> = if mint.map_or(false, |m| want.mint != m) {
                    Err("err:InvalidAccountData")
                } else if own.map_or(false, |o| want.owner != o) {
                    Err("err:IncorrectAuthority")
                } else {
                    Ok(())
                };
                bumps.push(format!("token:{path}:ref-predicate:{}", pred.is_ok()));
                match (pred, &fw) {
                    (Ok(()), Err(e)) => fails.push((
                        format!("{st}_rejects_valid"),
                        format!(
                            "the predicate holds on the reference-unpacked fields (state {}), `{path}` behind a {flags} info answers {e}",
                            want.state
                        ),
                    )),
                    (Ok(()), Ok(Got::Init(true))) => fails.push((format!("{st}_reinitialises"), "init_if_needed reports a fresh initialisation of an existing account".into())),
                    (Err(_), Ok(_)) => fails.push((
                        format!("{st}_accepts_invalid"),
                        format!("the predicate fails on the reference-unpacked fields, `{path}` accepts"),
                    )),
                    (Err(w), Err(e)) if w != e => fails.push((format!("{st}_error_class"), format!("expected {w}, got {e}"))),
                    _ => {}
                }
            }
        }
    } else if fw.is_ok() {
        bumps.push("token:fw-accepts-ref-rejects(not part of the property)".into());
    }
    Exec { answer, fails, nontrivial, bumps }
}

/// `view <mint|token> <path> <flags> <owner> <image> [args]`: every access path of the zero-copy views
/// (`data_unchecked`, `data`, `validate`, account set + `data`, `validate_accounts(Validate…)`, `validate_*`
/// alone, `init_account::<IF_NEEDED>` on the existing account) behind an `AccountInfo` with the given runtime
/// writable / signer flags. Oracle: the reference unpacker (fields / the same predicate on its fields).
pub fn exec_view(rest: &[&str]) -> Exec {
    match rest {
        ["mint", path, flags, owner, image, args @ ..] => view_mint(path, flags, owner, image, args),
        ["token", path, flags, owner, image, args @ ..] => view_token(path, flags, owner, image, args),
        _ => Exec::bad(),
    }
}

// the original ops: the account-set paths behind a read-only, non-signer info
pub fn exec_mint(owner: &str, image: &str) -> Exec {
    view_mint("set", "w0s0", owner, image, &[])
}
pub fn exec_token(owner: &str, image: &str) -> Exec {
    view_token("set", "w0s0", owner, image, &[])
}
pub fn exec_vmint(owner: &str, image: &str, d: &str, au: &str, fr: &str) -> Exec {
    view_mint("vset", "w0s0", owner, image, &[d, au, fr])
}
pub fn exec_vtoken(owner: &str, image: &str, mint: &str, own: &str) -> Exec {
    view_token("vset", "w0s0", owner, image, &[mint, own])
}

/// Identify, by search over a candidate space, the `find_program_address` input that reproduces the
/// framework's (address, bump): ordered triples over {wallet, mint, Token, ATA, System ids} and the
/// three program ids; the expected candidate is tried first.
fn preimage(wallet: &Pubkey, mint: &Pubkey, addr: &Pubkey, bump: u8) -> Option<(Vec<Pubkey>, Pubkey)> {
    let ata = spl_associated_token_account_interface::program::ID;
    let tok = spl_token_interface::ID;
    let sys = solana_system_interface::program::ID;
    let pool = [*wallet, tok, *mint, ata, sys];
    let progs = [ata, tok, sys];
    let hit = |seeds: &[Pubkey], p: &Pubkey| {
        let s: Vec<&[u8]> = seeds.iter().map(|k| k.as_ref()).collect();
        Pubkey::find_program_address(&s, p) == (*addr, bump)
    };
    for p in &progs {
        // triples
        for i in 0..pool.len() {
            for j in 0..pool.len() {
                for k in 0..pool.len() {
                    if i == j || j == k || i == k {
                        continue;
                    }
                    let seeds = [pool[i], pool[j], pool[k]];
                    if hit(&seeds, p) {
                        return Some((seeds.to_vec(), *p));
                    }
                }
            }
        }
        // pairs
        for i in 0..pool.len() {
            for j in 0..pool.len() {
                if i != j && hit(&[pool[i], pool[j]], p) {
                    return Some((vec![pool[i], pool[j]], *p));
                }
            }
        }
    }
    None
}

pub fn exec_ata(wallet: &str, mint: &str) -> Exec {
    let (Some(wallet), Some(mint)) = (p_key(wallet), p_key(mint)) else { return Exec::bad() };
    let mut bumps = vec!["ata".to_string()];
    let mut fails = vec![];
    let (addr, bump) = AssociatedToken::find_address_with_bump(&wallet, &KeyFor::new(mint));
    let addr_only = AssociatedToken::find_address(&wallet, &KeyFor::new(mint));
    let pre = preimage(&wallet, &mint, &addr, bump);
    let answer = match &pre {
        Some((seeds, prog)) => format!(
            "ok {} {}",
            seeds.iter().map(|k| hex(k.as_ref())).collect::<Vec<_>>().join("|"),
            hex(prog.as_ref())
        ),
        None => "ok unknown".to_string(),
    };
    bumps.push(format!("ata:bump:{}", if bump == 255 { "255" } else { "<255" }));
    // reference derivation
    let (raddr, rbump) = spl_associated_token_account_interface::address::get_associated_token_address_and_bump_seed(
        &wallet,
        &mint,
        &spl_associated_token_account_interface::program::ID,
        &spl_token_interface::ID,
    );
    let raddr2 = spl_associated_token_account_interface::address::get_associated_token_address(&wallet, &mint);
    if (addr, bump) != (raddr, rbump) || addr_only != raddr2 {
        fails.push((
            "ata_address".into(),
            format!(
                "framework {}/{} (find_address {}) reference {}/{} ({})",
                hex(addr.as_ref()),
                bump,
                hex(addr_only.as_ref()),
                hex(raddr.as_ref()),
                rbump,
                hex(raddr2.as_ref())
            ),
        ));
    }
    Exec { answer, fails, nontrivial: pre.is_some(), bumps }
}
