//! hx-bindings — correspondence harness for C16 (System / SPL Token / ATA bindings).
//!
//! Interpreter of op lines (see `lean/Spl/Spl/Driver/C16.lean` for the grammar):
//!   * `ix <prog>.<Variant> …`  builds the instruction through the framework's client path
//!     (`MakeInstruction::instruction` with the `…ClientAccounts` struct) and answers
//!     `ok <program> <data> <metas>` as the framework produced them; the property oracle builds the same
//!     instruction through the reference crate and compares program id, data and metas.
//!   * `cpi <exact|more|all|none> <prog>.<Variant> …`  builds the same instruction through the CPI path
//!     (`Program::cpi(..).invoke()`), captured by the `verif_hooks` CPI handler, with native infos whose runtime
//!     signer/writable flags are exactly the required ones / strictly more / all / none; oracle: CPI build =
//!     client build = reference builder.
//!   * `table <id|ix|struct|pod|state|authority> …`  one entry of the generated tables as the COMPILED code has it
//!     (program ids, `DISCRIMINANT` bytes, borsh layout probe, meta layout probe, `offset_of!`/`size_of` of the
//!     packed structs, `PodOption` layout and tags, enum encodings); the model answers from the generated table.
//!   * `mint|token <owner> <image>`  puts the image into a native `AccountInfo`, runs the framework's
//!     view (`validate_accounts` + `data()`), answers accept/reject + fields; oracle = `Pack::unpack`.
//!   * `view <mint|token> <unchecked|data|validate|set|vset|vdirect|init> <w?s?> <owner> <image> [args]`  every access
//!     path of the zero-copy views behind an info with the given runtime writable/signer flags (`mint`/`token`/
//!     `vmint`/`vtoken` are the `set`/`vset` paths behind a read-only non-signer info).
//!   * `vmint|vtoken <owner> <image> <args>`  runs the `validate_mint` / `validate_token` validation ids
//!     (`validate()?; validate_mint(arg)`), answers `ok` / `err:<class>`; oracle = the same predicate on the
//!     fields the reference unpacker reports.
//!   * `ata <wallet> <mint>`  runs `AssociatedToken::find_address_with_bump`; answers the PDA preimage
//!     (seed list + program) that reproduces the framework's address and bump under the real
//!     `find_program_address`; oracle = the reference derivation.
mod gen;
mod ixs;
mod tables;
mod views;

use hx_common::{Args, Recorder};

/// What executing one op line yields.
pub struct Exec {
    pub answer: String,
    /// property-oracle failures on the implementation: (class, detail)
    pub fails: Vec<(String, String)>,
    pub nontrivial: bool,
    pub bumps: Vec<String>,
}

impl Exec {
    pub fn bad() -> Exec {
        Exec { answer: "bad-op".into(), fails: vec![], nontrivial: false, bumps: vec!["bad-op".into()] }
    }
}

pub fn exec_line(line: &str) -> Exec {
    let toks: Vec<&str> = line.split(' ').filter(|t| !t.is_empty()).collect();
    let r = hx_common::catch(|| match toks.as_slice() {
        ["ix", rest @ ..] => ixs::exec_ix(rest),
        ["cpi", rest @ ..] => ixs::exec_cpi(rest),
        ["table", rest @ ..] => tables::exec_table(rest),
        ["view", rest @ ..] => views::exec_view(rest),
        ["mint", owner, image] => views::exec_mint(owner, image),
        ["token", owner, image] => views::exec_token(owner, image),
        ["vmint", owner, image, d, au, fr] => views::exec_vmint(owner, image, d, au, fr),
        ["vtoken", owner, image, mint, own] => views::exec_vtoken(owner, image, mint, own),
        ["ata", wallet, mint] => views::exec_ata(wallet, mint),
        _ => Exec::bad(),
    });
    match r {
        Ok(e) => e,
        Err(_) => Exec {
            answer: "panic".into(),
            fails: vec![("panic".into(), format!("the binding panicked on `{line}`"))],
            nontrivial: true,
            bumps: vec!["panic".into()],
        },
    }
}

fn run_case(rec: &mut Recorder, lines: &[String]) {
    rec.case(&lines[0]);
    let mut nontrivial = false;
    for l in &lines[1..] {
        let e = exec_line(l);
        rec.op(l, &e.answer);
        for b in &e.bumps {
            rec.bump(b);
        }
        for (class, detail) in &e.fails {
            rec.fail(class, detail);
        }
        nontrivial |= e.nontrivial;
    }
    if nontrivial {
        rec.mark_nontrivial();
    }
}

fn main() {
    // `hx-bindings --dump-tables`: every table entry as the COMPILED code has it (one `op -> answer` per line)
    if std::env::args().nth(1).as_deref() == Some("--dump-tables") {
        hx_common::quiet_panics();
        for op in tables::table_ops() {
            println!("{op} -> {}", exec_line(&op).answer);
        }
        return;
    }
    let args = Args::parse();
    if args.prop != "C16" {
        eprintln!("hx-bindings: unknown property {}", args.prop);
        std::process::exit(2);
    }
    hx_common::quiet_panics();
    let mut rec = Recorder::new(
        "ix: the reference builder produced an instruction and it was compared with the framework's \
         (program id, data, every meta); cpi: the CPI build was captured and compared with the client build; image: the image carries a `Some` option or takes a reject \
         branch in the reference or the framework; validation: the reference accepts the image and the predicate was compared; ata: the PDA preimage of the framework's address was identified",
    );
    let cases: Vec<Vec<String>> = match args.replay_cases() {
        Some(c) => c,
        None => {
            let mut c = gen::corpus_cases();
            c.extend(gen::generate(&args));
            c
        }
    };
    for (i, c) in cases.iter().enumerate() {
        if c.is_empty() || !c[0].starts_with("case") {
            // a replay file whose first line is not a header: give it one
            let mut v = vec![format!("case r{i} replay")];
            v.extend(c.iter().cloned());
            run_case(&mut rec, &v);
        } else {
            run_case(&mut rec, c);
        }
        if i % 97 == 0 {
            rec.sample_current(5);
        }
    }
    rec.finish(&args);
}
