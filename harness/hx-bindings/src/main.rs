fn main() {}
