//! `table …` ops: every entry of the translator's tables, read from the COMPILED code.
//!
//! The translator (`bin/gen_spl_tables.py`) gets the tables from the source text; these ops get the same
//! entries from the built crates, and the model driver answers them from `Spl.Generated.*`. A difference is a
//! correspondence failure whose failing input is the table entry. Field NAMES come from the harness code,
//! which is compiled against the structs (a renamed field does not build).
use crate::{
    gen::{A, ATA_SPECS, SPECS},
    ixs, Exec,
};
use hx_common::hex;
use solana_pubkey::Pubkey;
use star_frame::{bytemuck, program::StarFrameProgram};
use star_frame_spl::{
    associated_token::AssociatedToken,
    pod::PodOption,
    token::{
        instructions::AuthorityType,
        state::{AccountState, MintAccount, MintAccountData, TokenAccount, TokenAccountData},
        Token,
    },
};
use std::mem::{offset_of, size_of};

pub fn table_ops() -> Vec<String> {
    let mut v: Vec<String> = ["system", "token", "ata", "rent"].iter().map(|p| format!("table id {p}")).collect();
    for (name, _) in SPECS.iter().chain(ATA_SPECS.iter()) {
        v.push(format!("table ix {name}"));
    }
    for t in ["struct mint", "struct token", "pod", "state", "authority"] {
        v.push(format!("table {t}"));
    }
    v
}

fn ok(answer: String) -> Exec {
    Exec { answer, fails: vec![], nontrivial: true, bumps: vec!["table".into()] }
}

/// Distinctive probe arguments: keys `[0x40+i; 32]`, u64 `0x9192…98 + i·0x0101…01`, u8 `0xE1+i`, authority type
/// `AccountOwner`, two signers; optional accounts present (`some = true`) or absent.
fn probe_args(spec: &[A], some: bool) -> Vec<String> {
    let mut i = 0u8;
    let key = |i: &mut u8| {
        *i += 1;
        hex(&[0x40 + *i; 32])
    };
    let mut out = vec![];
    for a in spec {
        out.push(match a {
            A::Key | A::Rb => key(&mut i),
            A::OptRent | A::OptTok => {
                if some {
                    key(&mut i)
                } else {
                    i += 1;
                    "none".into()
                }
            }
            A::Keys => format!("{},{}", key(&mut i), key(&mut i)),
            A::U64 => {
                i += 1;
                (0x9192_9394_9596_9798u64 + (i as u64) * 0x0101_0101_0101_0101).to_string()
            }
            A::U8 | A::M => {
                i += 1;
                (0xE0 + i).to_string()
            }
            A::Auth => "AccountOwner".into(),
        });
    }
    out
}

fn positions(hay: &[u8], needle: &[u8]) -> Vec<usize> {
    if needle.is_empty() || needle.len() > hay.len() {
        return vec![];
    }
    (0..=hay.len() - needle.len()).filter(|&i| &hay[i..i + needle.len()] == needle).collect()
}

fn table_ix(name: &str) -> Exec {
    let Some((_, spec)) = SPECS.iter().chain(ATA_SPECS.iter()).find(|(n, _)| *n == name) else { return Exec::bad() };
    let build = |some: bool| {
        let args = probe_args(spec, some);
        let refs: Vec<&str> = args.iter().map(|s| s.as_str()).collect();
        ixs::build_framework(name, &refs)
    };
    let (Some(a), Some(b)) = (build(true), build(false)) else { return Exec::bad() };
    let (Ok(ca), Ok(cb)) = (&a.client, &b.client) else { return ok("err:client".into()) };
    // borsh layout probe: where does each field's own encoding sit in the payload
    let payload = ca.data.get(a.disc.len()..).unwrap_or(&[]);
    let mut args: Vec<(usize, String)> = vec![];
    let mut unknown = vec![];
    for (fname, bytes) in &a.arg_fields {
        match positions(payload, bytes).as_slice() {
            [p] => args.push((*p, format!("{fname}@{p}+{}", bytes.len()))),
            _ => unknown.push(format!("{fname}@?")),
        }
    }
    args.sort();
    let mut arg_s: Vec<String> = args.into_iter().map(|x| x.1).collect();
    arg_s.extend(unknown);
    // meta layout probe: where does each account field's key sit in the metas, with which flags, and what
    // does an absent optional account default to
    let mut accts: Vec<(usize, String)> = vec![];
    let mut j = 0usize;
    for (fname, count) in &a.acct_fields {
        if *count == 0 {
            continue;
        }
        let key = a.keys[j];
        let idx = ca.accounts.iter().position(|m| m.pubkey == key);
        match idx {
            Some(idx) => {
                let m = &ca.accounts[idx];
                let mut s = if *count > 1 || *fname == "signers" {
                    format!("{fname}@{idx}+{count}:{}:{}", m.is_signer as u8, m.is_writable as u8)
                } else {
                    format!("{fname}@{idx}:{}:{}", m.is_signer as u8, m.is_writable as u8)
                };
                if let Some(mb) = cb.accounts.get(idx) {
                    if mb.pubkey != m.pubkey {
                        s.push_str(&format!("={}", hex(mb.pubkey.as_ref())));
                    }
                }
                accts.push((idx, s));
            }
            None => accts.push((usize::MAX, format!("{fname}@?"))),
        }
        j += count;
    }
    accts.sort();
    let acct_s: Vec<String> = accts.into_iter().map(|x| x.1).collect();
    let join = |v: Vec<String>| if v.is_empty() { "-".to_string() } else { v.join(",") };
    ok(format!(
        "ok program={} disc={} datalen={} args={} metas={} accts={}",
        hex(ca.program_id.as_ref()),
        hex(&a.disc),
        ca.data.len(),
        join(arg_s),
        ca.accounts.len(),
        join(acct_s)
    ))
}

fn fields_string(mut f: Vec<(usize, &'static str)>, size: usize) -> String {
    f.sort();
    let mut out = vec![];
    for (i, (off, name)) in f.iter().enumerate() {
        let end = f.get(i + 1).map(|x| x.0).unwrap_or(size);
        out.push(format!("{name}@{off}+{}", end - off));
    }
    out.join(",")
}

pub fn exec_table(rest: &[&str]) -> Exec {
    match rest {
        ["id", "system"] => ok(format!("ok {}", hex(star_frame::program::system::System::ID.as_ref()))),
        ["id", "token"] => ok(format!("ok {}", hex(Token::ID.as_ref()))),
        ["id", "ata"] => ok(format!("ok {}", hex(AssociatedToken::ID.as_ref()))),
        ["id", "rent"] => {
            // what the client path puts in a `Sysvar<Rent>` slot left out by the client
            let k = hex(&[0x41; 32]);
            match ixs::build_framework("tok.InitializeMint", &[&k, "none", "0", &k, "none"]).map(|f| f.client) {
                Some(Ok(ix)) if ix.accounts.len() == 2 => ok(format!("ok {}", hex(ix.accounts[1].pubkey.as_ref()))),
                _ => ok("err:client".into()),
            }
        }
        ["ix", name] => table_ix(name),
        ["struct", "mint"] => ok(format!(
            "ok size={} len={} fields={}",
            size_of::<MintAccountData>(),
            MintAccount::LEN,
            fields_string(
                vec![
                    (offset_of!(MintAccountData, mint_authority), "mint_authority"),
                    (offset_of!(MintAccountData, supply), "supply"),
                    (offset_of!(MintAccountData, decimals), "decimals"),
                    (offset_of!(MintAccountData, is_initialized), "is_initialized"),
                    (offset_of!(MintAccountData, freeze_authority), "freeze_authority"),
                ],
                size_of::<MintAccountData>()
            )
        )),
        ["struct", "token"] => ok(format!(
            "ok size={} len={} fields={}",
            size_of::<TokenAccountData>(),
            TokenAccount::LEN,
            fields_string(
                vec![
                    (offset_of!(TokenAccountData, mint), "mint"),
                    (offset_of!(TokenAccountData, owner), "owner"),
                    (offset_of!(TokenAccountData, amount), "amount"),
                    (offset_of!(TokenAccountData, delegate), "delegate"),
                    (offset_of!(TokenAccountData, state), "state"),
                    (offset_of!(TokenAccountData, is_native), "is_native"),
                    (offset_of!(TokenAccountData, delegated_amount), "delegated_amount"),
                    (offset_of!(TokenAccountData, close_authority), "close_authority"),
                ],
                size_of::<TokenAccountData>()
            )
        )),
        ["pod"] => {
            // layout by writing distinctive bytes through the type: where does the value land, where the tag
            let k = Pubkey::new_from_array([0x5A; 32]);
            let some = PodOption::<Pubkey>::some(k);
            let b = bytemuck::bytes_of(&some).to_vec();
            let value_at = positions(&b, k.as_ref());
            let tag_w = PodOption::<Pubkey>::SOME.len();
            let (val, tag) = match value_at.as_slice() {
                [v] => (*v as i64, if *v == 0 { 32i64 } else { 0 }),
                _ => (-1, -1),
            };
            let tag_ok = tag >= 0 && b.get(tag as usize..tag as usize + tag_w) == Some(&PodOption::<Pubkey>::SOME[..]);
            ok(format!(
                "ok size32={} size8={} tag@{}+{} value@{} none={} some={}",
                size_of::<PodOption<Pubkey>>(),
                size_of::<PodOption<u64>>(),
                if tag_ok { tag } else { -1 },
                tag_w,
                val,
                hex(&PodOption::<Pubkey>::NONE),
                hex(&PodOption::<Pubkey>::SOME)
            ))
        }
        ["state"] => {
            // entries by name: declaration order is not a table value
            let mut v = vec![
                format!("Uninitialized={}", AccountState::Uninitialized as u8),
                format!("Initialized={}", AccountState::Initialized as u8),
                format!("Frozen={}", AccountState::Frozen as u8),
            ];
            v.sort();
            ok(format!("ok {}", v.join(",")))
        }
        ["authority"] => {
            let enc = |a: AuthorityType| hex(&borsh::to_vec(&a).expect("borsh"));
            let mut v = vec![
                format!("MintTokens={}", enc(AuthorityType::MintTokens)),
                format!("FreezeAccount={}", enc(AuthorityType::FreezeAccount)),
                format!("AccountOwner={}", enc(AuthorityType::AccountOwner)),
                format!("CloseAccount={}", enc(AuthorityType::CloseAccount)),
            ];
            v.sort();
            ok(format!("ok {}", v.join(",")))
        }
        _ => Exec::bad(),
    }
}
