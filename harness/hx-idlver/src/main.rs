//! hx-idlver C18: correspondence + property oracle for the IDL verifier
//! (`star_frame_idl::verifier`, cargo feature `verifier`).
//!
//! The harness is an interpreter of op lines (grammar in `lean/Idl/Idl/Driver/C18.lean`): a case
//! builds a definition set line by line, `verify c|s [perm]` runs the REAL verifier and prints
//! `ok` / `err SFIDLnnn`.  Independently of the Lean model, every `verify` is checked against the
//! declarative oracle of `oracle.rs` and against the permutation-invariance oracle.

mod ast;
mod encode;
mod gen;
mod oracle;
mod real;

use ast::*;
use hx_common::{Args, Recorder, Rng};
use star_frame_idl::IdlDefinition;
use std::{fs, path::PathBuf};

fn fnv(s: &str) -> u64 {
    let mut h = 0xcbf29ce484222325u64;
    for b in s.bytes() {
        h = (h ^ b as u64).wrapping_mul(0x100000001b3);
    }
    h
}

fn permutations(n: usize) -> Vec<Vec<usize>> {
    fn go(cur: &mut Vec<usize>, used: &mut Vec<bool>, n: usize, out: &mut Vec<Vec<usize>>) {
        if cur.len() == n {
            out.push(cur.clone());
            return;
        }
        for i in 0..n {
            if !used[i] {
                used[i] = true;
                cur.push(i);
                go(cur, used, n, out);
                cur.pop();
                used[i] = false;
            }
        }
    }
    let mut out = vec![];
    go(&mut vec![], &mut vec![false; n], n, &mut out);
    out
}

fn min_rule(v: &std::collections::BTreeSet<&'static str>) -> &'static str {
    v.iter().next().copied().unwrap_or("-")
}

/// The property oracle on one `verify` line. Returns whether the line is "non-trivial".
fn check_verify(rec: &mut Recorder, defs: &[&IdlDefinition], mode: Mode, answer: &str, rng: &mut Rng, all_perms: bool) -> bool {
    let views: Vec<oracle::DefView> = defs.iter().map(|d| oracle::DefView::new(d)).collect();
    let violated = oracle::violated(&views, mode);
    let items = oracle::item_count(&views);
    rec.bump(&format!("answer:{answer}"));
    rec.bump(&format!("oracle_violated_rules:{}", violated.len().min(4)));
    rec.bump(&format!("defs:{}", defs.len().min(6)));
    rec.bump(&format!(
        "items:{}",
        match items {
            0 => "0",
            1..=3 => "1-3",
            4..=10 => "4-10",
            11..=40 => "11-40",
            _ => "41+",
        }
    ));
    let mname = if mode == Mode::Compat { "compat" } else { "strict" };
    match answer {
        "ok" => {
            if !violated.is_empty() {
                rec.fail(
                    &format!("accepts_unsound:{}", min_rule(&violated)),
                    &format!("{mname}: verifier accepted, but the graph violates {violated:?}"),
                );
            }
        }
        a if a.starts_with("err SFIDL") => {
            let r = &a[4..];
            if violated.is_empty() {
                rec.fail(&format!("rejects_sound:{r}"), &format!("{mname}: verifier reported {r}, but the graph is structurally sound"));
            } else if !violated.contains(r) {
                rec.fail(&format!("wrong_rule:{r}"), &format!("{mname}: verifier reported {r}; rules actually violated: {violated:?}"));
            }
        }
        other => rec.fail("unexpected_error", &format!("{mname}: verifier answered `{other}`")),
    }
    // the three public entry points agree
    let wm = real::run_verify_with_mode(defs, mode);
    if wm != answer {
        rec.fail("entrypoints_disagree", &format!("{mname}: wrapper says `{answer}`, verify_idl_definitions_with_mode says `{wm}`"));
    }
    // acceptance is independent of the order of the definitions
    if all_perms && defs.len() >= 2 {
        let n = defs.len();
        let perms: Vec<Vec<usize>> = if n <= 4 {
            permutations(n)
        } else {
            (0..8)
                .map(|_| {
                    let mut v: Vec<usize> = (0..n).collect();
                    for i in (1..n).rev() {
                        v.swap(i, rng.below(i as u64 + 1) as usize);
                    }
                    v
                })
                .collect()
        };
        for p in perms {
            let shuffled: Vec<&IdlDefinition> = p.iter().map(|&i| defs[i]).collect();
            let a2 = real::run_verify(&shuffled, mode);
            if (a2 == "ok") != (answer == "ok") {
                rec.fail("order_dependent", &format!("{mname}: order identity -> `{answer}`, order {p:?} -> `{a2}`"));
                break;
            }
            if a2 != answer {
                rec.bump("order_changes_reported_rule");
            }
        }
    }
    // informational: strict accepted but compatibility mode rejects (design expectation
    // `strict_implies_compat` is false of the code; see notes/C18.md and Props/C18.lean)
    if mode == Mode::Strict && answer == "ok" {
        let c = real::run_verify(defs, Mode::Compat);
        if c != "ok" {
            rec.bump(&format!("strict_ok_but_compat:{c}"));
        }
    }
    answer != "ok" || items > 0
}

fn run_case(rec: &mut Recorder, header: &str, lines: &[String]) {
    rec.case(header);
    let mut filler = real::Filler(Rng::new(fnv(&lines.join("\n"))));
    let mut defs: Vec<IdlDefinition> = vec![];
    let mut nontrivial = false;
    for line in lines {
        let Some(parsed) = parse_line(line, defs.len()) else {
            rec.op(line, "bad-op");
            rec.bump("answer:bad-op");
            continue;
        };
        match &parsed {
            Line::Verify { mode, perm } => {
                let order: Vec<usize> = perm.clone().unwrap_or_else(|| (0..defs.len()).collect());
                let refs: Vec<&IdlDefinition> = order.iter().map(|&i| &defs[i]).collect();
                let ans = real::run_verify(&refs, *mode);
                nontrivial |= check_verify(rec, &refs, *mode, &ans, &mut filler.0, perm.is_none());
                rec.op(line, &ans);
            }
            Line::Trim(n) => {
                rec.op(line, &format!("ok {}", show_name(n.trim())));
                nontrivial |= n.trim() != n;
            }
            build => {
                let ok = real::apply(&mut defs, build, &mut filler);
                rec.op(line, if ok { "ok" } else { "bad-op" });
            }
        }
    }
    if nontrivial {
        rec.mark_nontrivial();
    }
}

/// The `variant` family must cover every variant of the REAL enums (names via the exhaustive
/// matches of `encode.rs`): every variant at least once, every reference-holding variant with a
/// dangling reference nested in it. A gap is reported as an oracle failure (`variant_coverage_gap`).
fn variant_coverage_selfcheck(rec: &mut Recorder) {
    use std::collections::BTreeSet;
    let mut f = real::Filler(Rng::new(11));
    let (mut seen_td, mut dangling_td, mut seen_sd, mut dangling_sd) = (BTreeSet::new(), BTreeSet::new(), BTreeSet::new(), BTreeSet::new());
    let mut problems = vec![];
    for pr in gen::variant_probes() {
        if let Some(t) = &pr.td {
            let name = encode::td_variant_name(&f.td(t));
            if name != pr.variant {
                problems.push(format!("probe labelled IdlTypeDef::{} builds IdlTypeDef::{name}", pr.variant));
            }
            seen_td.insert(name);
            if pr.dangling {
                dangling_td.insert(name);
            }
        }
        if let Some(s) = &pr.sd {
            let name = encode::sd_variant_name(&f.sd(s));
            if name != pr.variant {
                problems.push(format!("probe labelled IdlAccountSetDef::{} builds IdlAccountSetDef::{name}", pr.variant));
            }
            seen_sd.insert(name);
            if pr.dangling {
                dangling_sd.insert(name);
            }
        }
    }
    for (v, holder) in encode::TD_VARIANTS {
        if !seen_td.contains(v) || (holder && !dangling_td.contains(v)) {
            problems.push(format!("IdlTypeDef::{v} not exercised by the variant family"));
        }
    }
    for (v, holder) in encode::SD_VARIANTS {
        if !seen_sd.contains(v) || (holder && !dangling_sd.contains(v)) {
            problems.push(format!("IdlAccountSetDef::{v} not exercised by the variant family"));
        }
    }
    rec.extra.insert(
        "variant_family".into(),
        serde_json::json!({"IdlTypeDef_variants": seen_td.len(), "IdlTypeDef_with_dangling_ref": dangling_td.len(),
            "IdlAccountSetDef_variants": seen_sd.len(), "IdlAccountSetDef_with_dangling_ref": dangling_sd.len()}),
    );
    if !problems.is_empty() {
        rec.case("case variant_coverage_selfcheck");
        rec.fail("variant_coverage_gap", &problems.join("; "));
    }
}

fn corpus_cases(dir: &PathBuf) -> Vec<(String, Vec<String>)> {
    let mut out = vec![];
    let Ok(rd) = fs::read_dir(dir) else { return out };
    let mut files: Vec<PathBuf> = rd.filter_map(|e| e.ok()).map(|e| e.path()).filter(|p| p.extension().is_some_and(|x| x == "replay")).collect();
    files.sort();
    for f in files {
        let text = fs::read_to_string(&f).unwrap_or_default();
        let mut cur: Option<(String, Vec<String>)> = None;
        for l in text.lines() {
            let l = l.trim_end();
            if l.is_empty() || l.starts_with('#') {
                continue;
            }
            if l.starts_with("case") {
                if let Some(c) = cur.take() {
                    out.push(c);
                }
                cur = Some((l.to_string(), vec![]));
            } else {
                cur.get_or_insert_with(|| ("case corpus".to_string(), vec![])).1.push(l.to_string());
            }
        }
        if let Some(c) = cur.take() {
            out.push(c);
        }
    }
    out
}

fn c18(args: &Args) {
    hx_common::quiet_panics();
    let mut rec = Recorder::new(
        "a case is non-trivial if one of its verify lines was rejected, or accepted a graph that contains at least one \
         reference / Many / Or item (i.e. resolution or a shape rule actually ran); trim cases: the name had whitespace to strip",
    );
    if let Some(cases) = args.replay_cases() {
        for c in cases {
            let (h, body) = if c[0].starts_with("case") { (c[0].clone(), c[1..].to_vec()) } else { ("case replay".to_string(), c.clone()) };
            run_case(&mut rec, &h, &body);
            rec.sample_current(5);
        }
        rec.finish(args);
        return;
    }
    let verif_dir = std::env::var("VERIF_DIR").unwrap_or_else(|_| "/verif".into());
    let mut id = 0u64;
    // 0. corpus
    for (h, body) in corpus_cases(&PathBuf::from(&verif_dir).join("corpus").join("C18")) {
        run_case(&mut rec, &h, &body);
        rec.bump("kind:corpus");
        rec.sample_current(1);
    }
    // 1. exhaustive bounded universe
    let thorough = args.thorough();
    let mut cases: Vec<gen::Case> = vec![];
    gen::namespace_cases(&mut cases);
    gen::type_position_cases(&mut cases, thorough);
    gen::set_position_cases(&mut cases, thorough);
    gen::precedence_cases(&mut cases);
    gen::map_order_cases(&mut cases);
    gen::trim_cases(&mut cases, thorough);
    gen::variant_cases(&mut cases);
    gen::boundary_cases(&mut cases);
    variant_coverage_selfcheck(&mut rec);
    let exhaustive_n = cases.len();
    // 2./3. seeded random graphs and single-edit mutants
    let mut rng = Rng::new(args.seed);
    let (n_random, n_bases, per_base) = if thorough { (100_000, 1_000, 60) } else { (30_000, 300, 40) };
    gen::random_cases(&mut cases, &mut rng, n_random);
    let is_sound = |lines: &[Line]| -> bool {
        let mut f = real::Filler(Rng::new(7));
        let mut defs: Vec<IdlDefinition> = vec![];
        for l in lines {
            real::apply(&mut defs, l, &mut f);
        }
        let views: Vec<oracle::DefView> = defs.iter().map(oracle::DefView::new).collect();
        oracle::violated(&views, Mode::Compat).is_empty() && oracle::violated(&views, Mode::Strict).is_empty()
    };
    // real IDLs (System program, shipped example programs) as additional mutation bases
    let real_bases: Vec<(String, Vec<Line>)> = encode::real_idls()
        .into_iter()
        .map(|(n, ds)| (format!("real:{n}"), ds.iter().flat_map(encode::lines).collect::<Vec<Line>>()))
        .collect();
    rec.extra.insert("real_idls".into(), serde_json::json!(real_bases.iter().map(|(n, l)| format!("{n} ({} lines)", l.len())).collect::<Vec<_>>()));
    let per_real = if thorough { 1500 } else { 300 };
    gen::mutant_cases(&mut cases, &mut rng, 0, per_real, &real_bases, &is_sound);
    gen::mutant_cases(&mut cases, &mut rng, n_bases, per_base, &[], &is_sound);
    let mut sampled_kinds = std::collections::BTreeSet::new();
    for c in &cases {
        id += 1;
        let fam = c.kind.split(' ').next().unwrap_or("?").to_string();
        run_case(&mut rec, &format!("case {id} {}", c.kind.replace(' ', "_")), &c.lines);
        rec.bump(&format!("kind:{fam}"));
        if sampled_kinds.insert(fam) {
            rec.sample_current(8);
        }
    }
    rec.extra.insert("exhaustive_cases".into(), serde_json::json!(exhaustive_n));
    rec.extra.insert("type_contexts".into(), serde_json::json!(gen::td_contexts().len()));
    rec.extra.insert("type_roots".into(), serde_json::json!(gen::td_roots().len() + 2));
    rec.exhaustive = Some(false);
    rec.finish(args);
}

fn main() {
    let args = Args::parse();
    match args.prop.as_str() {
        "C18" => c18(&args),
        other => {
            eprintln!("hx-idlver: unknown property {other}");
            std::process::exit(2);
        }
    }
}
