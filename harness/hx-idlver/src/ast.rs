//! Mirror of the IDL AST as it appears on op lines (inert metadata dropped), with the s-expression
//! printer and parser.  Grammar: see `lean/Idl/Idl/Driver/C18.lean`.

pub type Name = String;

#[derive(Clone, Debug, PartialEq, Eq)]
pub enum Td {
    Defined(Tid),
    Generic(Name),
    Prim(&'static str),
    FixedPoint(Box<Td>, u8),
    Option(Box<Td>, bool),
    List(Box<Td>, Box<Td>),
    UnsizedList(Box<Td>, Box<Td>, Box<Td>),
    Set(Box<Td>, Box<Td>),
    Map(Box<Td>, Box<Td>, Box<Td>),
    Array(Box<Td>, usize),
    Struct(Vec<Td>),
    Enum(Box<Td>, Vec<Option<Td>>),
}

#[derive(Clone, Debug, PartialEq, Eq)]
pub struct Tid {
    pub source: Name,
    pub ns: Option<Name>,
    pub gens: Vec<Td>,
}

#[derive(Clone, Debug, PartialEq, Eq)]
pub struct Aid {
    pub source: Name,
    pub ns: Option<Name>,
}

#[derive(Clone, Debug, PartialEq, Eq)]
pub enum Sd {
    Defined { source: Name, ty_gens: Vec<Td>, acc_gens: Vec<Sd> },
    Single(Vec<Aid>),
    Struct(Vec<Sd>),
    Many(Box<Sd>, usize, Option<usize>),
    Or(Vec<Sd>),
}

#[derive(Clone, Debug, PartialEq, Eq)]
pub enum Seed {
    Const,
    Variable(Td),
}

#[derive(Clone, Copy, Debug, PartialEq, Eq)]
pub enum Mode {
    Compat,
    Strict,
}

#[derive(Clone, Debug, PartialEq, Eq)]
pub enum Line {
    Def(Name),
    Ty { ext: bool, source: Name, arity: usize, td: Td },
    Set { source: Name, ty_arity: usize, acc_arity: usize, sd: Sd },
    Acct { source: Name, tid: Tid, seeds: Option<Vec<Seed>> },
    Ix { source: Name, tid: Tid, sd: Sd },
    Verify { mode: Mode, perm: Option<Vec<usize>> },
    Trim(Name),
}

pub const PRIMS: [&str; 16] = [
    "bool", "u8", "i8", "u16", "i16", "u32", "i32", "f32", "u64", "i64", "f64", "u128", "i128", "string", "pubkey",
    "rest",
];
pub const MAX_ARITY: usize = 255;

// ------------------------------------------------------------------------------------------ print

pub fn show_name(n: &str) -> String {
    let mut s = String::from("'");
    for c in n.chars() {
        if c == ' ' {
            s.push('_');
        } else if c.is_ascii_alphanumeric() || c == ':' {
            s.push(c);
        } else {
            s.push_str(&format!("%{:x};", c as u32));
        }
    }
    s
}
fn show_opt_name(n: &Option<Name>) -> String {
    n.as_deref().map(show_name).unwrap_or_else(|| "-".into())
}

impl Td {
    pub fn show(&self) -> String {
        match self {
            Td::Defined(id) => id.show(),
            Td::Generic(n) => format!("(gen {})", show_name(n)),
            Td::Prim(p) => (*p).to_string(),
            Td::FixedPoint(t, f) => format!("(fp {} {f})", t.show()),
            Td::Option(t, b) => format!("(opt {} {})", t.show(), *b as u8),
            Td::List(l, i) => format!("(list {} {})", l.show(), i.show()),
            Td::UnsizedList(l, o, i) => format!("(ulist {} {} {})", l.show(), o.show(), i.show()),
            Td::Set(l, i) => format!("(set {} {})", l.show(), i.show()),
            Td::Map(l, k, v) => format!("(map {} {} {})", l.show(), k.show(), v.show()),
            Td::Array(t, n) => format!("(arr {} {n})", t.show()),
            Td::Struct(fs) => format!("(struct{})", fs.iter().map(|f| format!(" {}", f.show())).collect::<String>()),
            Td::Enum(sz, vs) => format!(
                "(enum {}{})",
                sz.show(),
                vs.iter().map(|v| format!(" {}", v.as_ref().map(|t| t.show()).unwrap_or_else(|| "-".into()))).collect::<String>()
            ),
        }
    }
}
impl Tid {
    pub fn show(&self) -> String {
        format!(
            "(id {} {}{})",
            show_name(&self.source),
            show_opt_name(&self.ns),
            self.gens.iter().map(|g| format!(" {}", g.show())).collect::<String>()
        )
    }
}
impl Sd {
    pub fn show(&self) -> String {
        let many = |xs: &Vec<Sd>| xs.iter().map(|x| format!(" {}", x.show())).collect::<String>();
        match self {
            Sd::Defined { source, ty_gens, acc_gens } => format!(
                "(sid {} ({}) ({}))",
                show_name(source),
                ty_gens.iter().map(|g| g.show()).collect::<Vec<_>>().join(" "),
                acc_gens.iter().map(|g| g.show()).collect::<Vec<_>>().join(" ")
            ),
            Sd::Single(accts) => format!(
                "(single{})",
                accts.iter().map(|a| format!(" (a {} {})", show_name(&a.source), show_opt_name(&a.ns))).collect::<String>()
            ),
            Sd::Struct(fs) => format!("(struct{})", many(fs)),
            Sd::Many(a, mn, mx) => {
                format!("(many {} {mn} {})", a.show(), mx.map(|m| m.to_string()).unwrap_or_else(|| "-".into()))
            }
            Sd::Or(bs) => format!("(or{})", many(bs)),
        }
    }
}
impl Line {
    pub fn show(&self) -> String {
        match self {
            Line::Def(n) => format!("def {}", show_name(n)),
            Line::Ty { ext, source, arity, td } => {
                format!("{} {} {arity} {}", if *ext { "xty" } else { "ty" }, show_name(source), td.show())
            }
            Line::Set { source, ty_arity, acc_arity, sd } => {
                format!("set {} {ty_arity} {acc_arity} {}", show_name(source), sd.show())
            }
            Line::Acct { source, tid, seeds } => format!(
                "acct {} {} {}",
                show_name(source),
                tid.show(),
                match seeds {
                    None => "-".to_string(),
                    Some(ss) => format!(
                        "(seeds{})",
                        ss.iter()
                            .map(|s| match s {
                                Seed::Const => " c".to_string(),
                                Seed::Variable(t) => format!(" (v {})", t.show()),
                            })
                            .collect::<String>()
                    ),
                }
            ),
            Line::Ix { source, tid, sd } => format!("ix {} {} {}", show_name(source), tid.show(), sd.show()),
            Line::Verify { mode, perm } => format!(
                "verify {}{}",
                if *mode == Mode::Compat { "c" } else { "s" },
                perm.as_ref().map(|p| format!(" {}", p.iter().map(|i| i.to_string()).collect::<Vec<_>>().join(","))).unwrap_or_default()
            ),
            Line::Trim(n) => format!("trim {}", show_name(n)),
        }
    }
}

// ------------------------------------------------------------------------------------------ parse

#[derive(Debug, Clone)]
enum Sx {
    Atom(String),
    List(Vec<Sx>),
}

fn lex(line: &str) -> Vec<String> {
    let mut out = vec![];
    let mut cur = String::new();
    for c in line.chars() {
        if c == '(' || c == ')' || c == ' ' {
            if !cur.is_empty() {
                out.push(std::mem::take(&mut cur));
            }
            if c != ' ' {
                out.push(c.to_string());
            }
        } else {
            cur.push(c);
        }
    }
    if !cur.is_empty() {
        out.push(cur);
    }
    out
}

fn parse_sx(toks: &[String], pos: &mut usize) -> Option<Sx> {
    let t = toks.get(*pos)?;
    *pos += 1;
    if t == "(" {
        let mut xs = vec![];
        loop {
            if toks.get(*pos)? == ")" {
                *pos += 1;
                return Some(Sx::List(xs));
            }
            xs.push(parse_sx(toks, pos)?);
        }
    } else if t == ")" {
        None
    } else {
        Some(Sx::Atom(t.clone()))
    }
}

fn parse_all(line: &str) -> Option<Vec<Sx>> {
    let toks = lex(line);
    let mut pos = 0;
    let mut out = vec![];
    while pos < toks.len() {
        out.push(parse_sx(&toks, &mut pos)?);
    }
    Some(out)
}

pub fn parse_name(s: &str) -> Option<Name> {
    let mut it = s.chars();
    if it.next()? != '\'' {
        return None;
    }
    let mut out = String::new();
    while let Some(c) = it.next() {
        if c == '_' {
            out.push(' ');
        } else if c == '%' {
            let mut v: u32 = 0;
            let mut digits = 0;
            loop {
                let d = it.next()?;
                if d == ';' {
                    break;
                }
                if v > 0x10FFFF {
                    return None;
                }
                v = v.checked_mul(16)?.checked_add(d.to_digit(16)?)?;
                digits += 1;
            }
            if digits == 0 {
                return None;
            }
            out.push(char::from_u32(v)?);
        } else if c.is_ascii_alphanumeric() || c == ':' {
            out.push(c);
        } else {
            return None;
        }
    }
    Some(out)
}

fn atom(x: &Sx) -> Option<&str> {
    match x {
        Sx::Atom(a) => Some(a),
        _ => None,
    }
}
fn head(x: &Sx) -> Option<(&str, &[Sx])> {
    match x {
        Sx::List(xs) => Some((atom(xs.first()?)?, &xs[1..])),
        _ => None,
    }
}
fn opt_name(x: &Sx) -> Option<Option<Name>> {
    let a = atom(x)?;
    if a == "-" {
        Some(None)
    } else {
        parse_name(a).map(Some)
    }
}
pub fn parse_nat(s: &str, max: u64) -> Option<u64> {
    if s.is_empty() || s.len() > 20 || !s.bytes().all(|b| b.is_ascii_digit()) {
        return None;
    }
    let v: u128 = s.parse().ok()?;
    if v <= max as u128 {
        Some(v as u64)
    } else {
        None
    }
}

fn to_td(x: &Sx) -> Option<Td> {
    if let Sx::Atom(a) = x {
        return PRIMS.iter().find(|p| **p == a).map(|p| Td::Prim(p));
    }
    let (h, rest) = head(x)?;
    let b = |i: usize| -> Option<Box<Td>> { Some(Box::new(to_td(rest.get(i)?)?)) };
    Some(match (h, rest.len()) {
        ("gen", 1) => Td::Generic(parse_name(atom(&rest[0])?)?),
        ("id", _) => Td::Defined(to_tid(x)?),
        ("fp", 2) => Td::FixedPoint(b(0)?, parse_nat(atom(&rest[1])?, 255)? as u8),
        ("opt", 2) => Td::Option(
            b(0)?,
            match atom(&rest[1])? {
                "1" => true,
                "0" => false,
                _ => return None,
            },
        ),
        ("list", 2) => Td::List(b(0)?, b(1)?),
        ("ulist", 3) => Td::UnsizedList(b(0)?, b(1)?, b(2)?),
        ("set", 2) => Td::Set(b(0)?, b(1)?),
        ("map", 3) => Td::Map(b(0)?, b(1)?, b(2)?),
        ("arr", 2) => Td::Array(b(0)?, parse_nat(atom(&rest[1])?, u64::MAX)? as usize),
        ("struct", _) => Td::Struct(rest.iter().map(to_td).collect::<Option<Vec<_>>>()?),
        ("enum", n) if n >= 1 => Td::Enum(
            b(0)?,
            rest[1..]
                .iter()
                .map(|v| if matches!(v, Sx::Atom(a) if a == "-") { Some(None) } else { to_td(v).map(Some) })
                .collect::<Option<Vec<_>>>()?,
        ),
        _ => return None,
    })
}

fn to_tid(x: &Sx) -> Option<Tid> {
    let (h, rest) = head(x)?;
    if h != "id" || rest.len() < 2 {
        return None;
    }
    Some(Tid {
        source: parse_name(atom(&rest[0])?)?,
        ns: opt_name(&rest[1])?,
        gens: rest[2..].iter().map(to_td).collect::<Option<Vec<_>>>()?,
    })
}

fn to_sd(x: &Sx) -> Option<Sd> {
    let (h, rest) = head(x)?;
    Some(match (h, rest.len()) {
        ("sid", 3) => {
            let (Sx::List(tg), Sx::List(ag)) = (&rest[1], &rest[2]) else { return None };
            Sd::Defined {
                source: parse_name(atom(&rest[0])?)?,
                ty_gens: tg.iter().map(to_td).collect::<Option<Vec<_>>>()?,
                acc_gens: ag.iter().map(to_sd).collect::<Option<Vec<_>>>()?,
            }
        }
        ("single", _) => Sd::Single(
            rest.iter()
                .map(|a| {
                    let (h, r) = head(a)?;
                    if h != "a" || r.len() != 2 {
                        return None;
                    }
                    Some(Aid { source: parse_name(atom(&r[0])?)?, ns: opt_name(&r[1])? })
                })
                .collect::<Option<Vec<_>>>()?,
        ),
        ("struct", _) => Sd::Struct(rest.iter().map(to_sd).collect::<Option<Vec<_>>>()?),
        ("many", 3) => {
            let mx = atom(&rest[2])?;
            Sd::Many(
                Box::new(to_sd(&rest[0])?),
                parse_nat(atom(&rest[1])?, u64::MAX)? as usize,
                if mx == "-" { None } else { Some(parse_nat(mx, u64::MAX)? as usize) },
            )
        }
        ("or", _) => Sd::Or(rest.iter().map(to_sd).collect::<Option<Vec<_>>>()?),
        _ => return None,
    })
}

fn to_seeds(x: &Sx) -> Option<Option<Vec<Seed>>> {
    if matches!(x, Sx::Atom(a) if a == "-") {
        return Some(None);
    }
    let (h, rest) = head(x)?;
    if h != "seeds" {
        return None;
    }
    Some(Some(
        rest.iter()
            .map(|s| match s {
                Sx::Atom(a) if a == "c" => Some(Seed::Const),
                _ => {
                    let (h, r) = head(s)?;
                    if h == "v" && r.len() == 1 {
                        to_td(&r[0]).map(Seed::Variable)
                    } else {
                        None
                    }
                }
            })
            .collect::<Option<Vec<_>>>()?,
    ))
}

/// Parse one op line; `n_defs` = number of definitions built so far (to validate a permutation).
pub fn parse_line(line: &str, n_defs: usize) -> Option<Line> {
    let xs = parse_all(line)?;
    let kind = atom(xs.first()?)?;
    let arity = |x: &Sx| -> Option<usize> { Some(parse_nat(atom(x)?, MAX_ARITY as u64)? as usize) };
    Some(match (kind, xs.len()) {
        ("def", 2) => Line::Def(parse_name(atom(&xs[1])?)?),
        ("trim", 2) => Line::Trim(parse_name(atom(&xs[1])?)?),
        ("verify", 2) | ("verify", 3) => {
            let mode = match atom(&xs[1])? {
                "c" => Mode::Compat,
                "s" => Mode::Strict,
                _ => return None,
            };
            let perm = if xs.len() == 3 {
                let p = atom(&xs[2])?
                    .split(',')
                    .map(|t| parse_nat(t, 1_000_000).map(|v| v as usize))
                    .collect::<Option<Vec<_>>>()?;
                if p.len() != n_defs || !(0..n_defs).all(|i| p.contains(&i)) {
                    return None;
                }
                Some(p)
            } else {
                None
            };
            Line::Verify { mode, perm }
        }
        ("ty", 4) | ("xty", 4) => {
            Line::Ty { ext: kind == "xty", source: parse_name(atom(&xs[1])?)?, arity: arity(&xs[2])?, td: to_td(&xs[3])? }
        }
        ("set", 5) => Line::Set {
            source: parse_name(atom(&xs[1])?)?,
            ty_arity: arity(&xs[2])?,
            acc_arity: arity(&xs[3])?,
            sd: to_sd(&xs[4])?,
        },
        ("acct", 4) => Line::Acct { source: parse_name(atom(&xs[1])?)?, tid: to_tid(&xs[2])?, seeds: to_seeds(&xs[3])? },
        ("ix", 4) => Line::Ix { source: parse_name(atom(&xs[1])?)?, tid: to_tid(&xs[2])?, sd: to_sd(&xs[3])? },
        _ => return None,
    })
}
