//! Case generators. Every case is a list of op lines (text), so generated cases, corpus files and
//! replays all go through the same interpreter.
//!
//! 1. exhaustive bounded universe with symmetry reduction (one representative name per role):
//!    namespaces (empty / whitespace-only / duplicate-after-trim / untrimmed references);
//!    every type reference shape x every position (27 constructors, nested contexts) x every root
//!    (types, external types, account type id + generics, seed types, instruction type id + generics,
//!    account-set type generics); account-set references x arities; Many bounds; Or lists; program
//!    account references; pairs of errors (first-error precedence);
//! 2. seeded-random larger graphs (mostly-valid by construction, then perturbed);
//! 3. single-edit mutants of larger valid graphs.

use crate::ast::*;
use hx_common::Rng;

pub struct Case {
    pub kind: String,
    pub lines: Vec<String>,
}

fn p(s: &'static str) -> Td {
    Td::Prim(s)
}
fn bx(t: Td) -> Box<Td> {
    Box::new(t)
}
fn tid(source: &str, ns: Option<&str>, gens: Vec<Td>) -> Tid {
    Tid { source: source.into(), ns: ns.map(|s| s.into()), gens }
}
fn tref(source: &str, ns: Option<&str>, arity: usize) -> Td {
    Td::Defined(tid(source, ns, vec![p("u8"); arity]))
}
fn sid(source: &str, ty: Vec<Td>, acc: Vec<Sd>) -> Sd {
    Sd::Defined { source: source.into(), ty_gens: ty, acc_gens: acc }
}
fn estruct() -> Sd {
    Sd::Struct(vec![])
}
fn aid(source: &str, ns: Option<&str>) -> Aid {
    Aid { source: source.into(), ns: ns.map(|s| s.into()) }
}

/// The 18 one-hole contexts of `IdlTypeDef` (every field that holds a type definition).
pub fn td_contexts() -> Vec<(&'static str, Box<dyn Fn(Td) -> Td>)> {
    let u = || p("u32");
    vec![
        ("defined.generic", Box::new(move |h| Td::Defined(tid("T1", None, vec![h])))),
        ("fp.ty", Box::new(move |h| Td::FixedPoint(bx(h), 3))),
        ("opt.ty", Box::new(move |h| Td::Option(bx(h), true))),
        ("list.len", Box::new(move |h| Td::List(bx(h), bx(u())))),
        ("list.item", Box::new(move |h| Td::List(bx(u()), bx(h)))),
        ("ulist.len", Box::new(move |h| Td::UnsizedList(bx(h), bx(u()), bx(u())))),
        ("ulist.offset", Box::new(move |h| Td::UnsizedList(bx(u()), bx(h), bx(u())))),
        ("ulist.item", Box::new(move |h| Td::UnsizedList(bx(u()), bx(u()), bx(h)))),
        ("set.len", Box::new(move |h| Td::Set(bx(h), bx(u())))),
        ("set.item", Box::new(move |h| Td::Set(bx(u()), bx(h)))),
        ("map.len", Box::new(move |h| Td::Map(bx(h), bx(u()), bx(u())))),
        ("map.key", Box::new(move |h| Td::Map(bx(u()), bx(h), bx(u())))),
        ("map.value", Box::new(move |h| Td::Map(bx(u()), bx(u()), bx(h)))),
        ("array.inner", Box::new(move |h| Td::Array(bx(h), 4))),
        ("struct.field0", Box::new(move |h| Td::Struct(vec![h, p("bool")]))),
        ("struct.field1", Box::new(move |h| Td::Struct(vec![p("string"), h]))),
        ("enum.size", Box::new(move |h| Td::Enum(bx(h), vec![None, Some(p("i64"))]))),
        ("enum.variant", Box::new(move |h| Td::Enum(bx(p("u8")), vec![None, Some(h), None]))),
    ]
}

/// The one-hole contexts of `IdlAccountSetDef`.
pub fn sd_contexts() -> Vec<(&'static str, Box<dyn Fn(Sd) -> Sd>)> {
    vec![
        ("sid.account_generic", Box::new(|h| sid("S01", vec![], vec![h]))),
        ("struct.field1", Box::new(|h| Sd::Struct(vec![Sd::Single(vec![]), h]))),
        ("many.inner", Box::new(|h| Sd::Many(Box::new(h), 0, None))),
        ("or.branch1", Box::new(|h| Sd::Or(vec![estruct(), h]))),
    ]
}

/// Fixed two-namespace world (`b` first, then `a`; building lines always go to the last `def`).
/// a: T0/0, T1/1, ext E0/0, ext B0/1 (shadows b::B0/0 with another arity), sets S00 S10 S01 S11,
///    accounts Acc, AccA.      b: T0/1, B0/0, accounts Acc, AccB.
fn world() -> Vec<Line> {
    let ty = |s: &str, a: usize, ext: bool| Line::Ty { ext, source: s.into(), arity: a, td: Td::Struct(vec![]) };
    let set = |s: &str, t: usize, a: usize| Line::Set { source: s.into(), ty_arity: t, acc_arity: a, sd: estruct() };
    let acct = |s: &str, t: &str| Line::Acct { source: s.into(), tid: tid(t, None, vec![]), seeds: None };
    vec![
        Line::Def("b".into()),
        ty("T0", 1, false),
        ty("B0", 0, false),
        acct("Acc", "B0"),
        acct("AccB", "B0"),
        Line::Def("a".into()),
        ty("T0", 0, false),
        Line::Ty { ext: false, source: "T1".into(), arity: 1, td: Td::Struct(vec![Td::Generic("X".into())]) },
        ty("E0", 0, true),
        ty("B0", 1, true),
        set("S00", 0, 0),
        set("S10", 1, 0),
        set("S01", 0, 1),
        set("S11", 1, 1),
        acct("Acc", "T0"),
        acct("AccA", "T0"),
    ]
}

fn verifies(two_defs: bool) -> Vec<Line> {
    let mut v = vec![Line::Verify { mode: Mode::Compat, perm: None }, Line::Verify { mode: Mode::Strict, perm: None }];
    if two_defs {
        v.push(Line::Verify { mode: Mode::Compat, perm: Some(vec![1, 0]) });
        v.push(Line::Verify { mode: Mode::Strict, perm: Some(vec![1, 0]) });
    }
    v
}

fn mk(kind: String, lines: Vec<Line>) -> Case {
    Case { kind, lines: lines.iter().map(|l| l.show()).collect() }
}

fn world_case(kind: String, probe: Vec<Line>) -> Case {
    let mut l = world();
    l.extend(probe);
    l.extend(verifies(true));
    mk(kind, l)
}

/// All type references of the bounded universe: 5 sources x 5 namespaces x provided arity 0..=2.
pub fn type_refs() -> Vec<(String, Td)> {
    let mut v = vec![];
    for s in ["T0", "T1", "E0", "B0", "Z"] {
        for (nn, ns) in [("none", None), ("a", Some("a")), ("b", Some("b")), ("z", Some("z")), ("_b", Some(" b"))] {
            for ar in 0..=2usize {
                v.push((format!("{s}@{nn}/{ar}"), tref(s, ns, ar)));
            }
        }
    }
    v
}

/// A representative subset: resolves, missing type, missing namespace, wrong arity, compat-only
/// (embedded copy of an absent namespace), strict-only (shadowed arity), untrimmed namespace.
pub fn type_refs_small() -> Vec<(String, Td)> {
    vec![
        ("good".into(), tref("T0", None, 0)),
        ("missing_type".into(), tref("Z", None, 0)),
        ("missing_ns".into(), tref("Z", Some("z"), 0)),
        ("arity".into(), tref("T1", None, 0)),
        ("compat_only".into(), tref("E0", Some("z"), 0)),
        ("strict_only".into(), tref("B0", Some("b"), 0)),
        ("missing_in_ns".into(), tref("T1", Some("b"), 1)),
    ]
}

/// Roots in which a type definition can sit.
pub fn td_roots() -> Vec<(&'static str, Box<dyn Fn(Td) -> Vec<Line>>)> {
    let t0 = || tid("T0", None, vec![]);
    vec![
        ("types", Box::new(|t| vec![Line::Ty { ext: false, source: "P".into(), arity: 0, td: t }])),
        ("external_types", Box::new(|t| vec![Line::Ty { ext: true, source: "P".into(), arity: 0, td: t }])),
        ("account.type_id.generic", Box::new(|t| vec![Line::Acct { source: "Q".into(), tid: tid("T1", None, vec![t]), seeds: None }])),
        (
            "account.seed",
            Box::new(move |t| vec![Line::Acct { source: "Q".into(), tid: t0(), seeds: Some(vec![Seed::Const, Seed::Variable(t), Seed::Const]) }]),
        ),
        ("instruction.type_id.generic", Box::new(|t| vec![Line::Ix { source: "Q".into(), tid: tid("T1", None, vec![t]), sd: estruct() }])),
        (
            "account_set.type_generic",
            Box::new(|t| vec![Line::Set { source: "Q".into(), ty_arity: 0, acc_arity: 0, sd: sid("S10", vec![t], vec![]) }]),
        ),
        (
            "instruction.account_set.type_generic",
            Box::new(move |t| {
                vec![Line::Ix { source: "Q".into(), tid: tid("T0", None, vec![]), sd: Sd::Many(Box::new(sid("S10", vec![t], vec![])), 0, None) }]
            }),
        ),
    ]
}

pub fn sd_roots() -> Vec<(&'static str, Box<dyn Fn(Sd) -> Vec<Line>>)> {
    vec![
        ("account_sets", Box::new(|s| vec![Line::Set { source: "Q".into(), ty_arity: 0, acc_arity: 0, sd: s }])),
        ("instruction.account_set", Box::new(|s| vec![Line::Ix { source: "Q".into(), tid: tid("T0", None, vec![]), sd: s }])),
    ]
}

/// Account-set level probes: references x arities, type/account generics holding bad things,
/// Many bounds, Or lists, program-account references.
pub fn sd_probes() -> Vec<(String, Sd)> {
    let mut v = vec![];
    for s in ["S00", "S10", "S01", "S11", "Zs"] {
        for t in 0..=2usize {
            for a in 0..=2usize {
                v.push((format!("sid:{s}/{t}/{a}"), sid(s, vec![p("u8"); t], vec![estruct(); a])));
            }
        }
    }
    v.push(("sid:tygen_bad".into(), sid("S10", vec![tref("Z", None, 0)], vec![])));
    v.push(("sid:tygen_good".into(), sid("S10", vec![tref("T1", None, 1)], vec![])));
    v.push(("sid:accgen_emptyor".into(), sid("S01", vec![], vec![Sd::Or(vec![])])));
    v.push(("sid:both_bad".into(), sid("S11", vec![tref("Z", Some("z"), 0)], vec![Sd::Or(vec![])])));
    v.push(("sid:arity_before_generics".into(), sid("S10", vec![], vec![Sd::Or(vec![])])));
    let mx = usize::MAX;
    for (mn, mxv) in [
        (0, None), (0, Some(0)), (1, Some(0)), (1, Some(1)), (2, Some(1)), (1, Some(2)), (mx, None), (mx, Some(mx)),
        (mx, Some(mx - 1)), (0, Some(mx)),
    ] {
        v.push((format!("many:{mn}/{mxv:?}"), Sd::Many(Box::new(estruct()), mn, mxv)));
    }
    v.push(("many:bad_then_inner_bad".into(), Sd::Many(Box::new(Sd::Or(vec![])), 2, Some(1))));
    v.push(("many:ok_then_inner_bad".into(), Sd::Many(Box::new(Sd::Or(vec![])), 1, Some(1))));
    for n in 0..=2usize {
        v.push((format!("or:{n}"), Sd::Or(vec![estruct(); n])));
    }
    v.push(("or:nested_empty".into(), Sd::Or(vec![estruct(), Sd::Or(vec![])])));
    v.push(("single:0".into(), Sd::Single(vec![])));
    for s in ["Acc", "AccA", "AccB", "Zacc"] {
        for (nn, ns) in [("none", None), ("a", Some("a")), ("b", Some("b")), ("z", Some("z")), ("_b", Some(" b"))] {
            v.push((format!("single:{s}@{nn}"), Sd::Single(vec![aid(s, ns)])));
        }
    }
    v.push(("single:good_then_bad".into(), Sd::Single(vec![aid("Acc", None), aid("Zacc", Some("z"))])));
    v.push(("struct:2".into(), Sd::Struct(vec![Sd::Single(vec![aid("AccA", None)]), estruct()])));
    v
}

pub fn sd_probes_small() -> Vec<(String, Sd)> {
    vec![
        ("good".into(), sid("S00", vec![], vec![])),
        ("missing_set".into(), sid("Zs", vec![], vec![])),
        ("ty_arity".into(), sid("S10", vec![], vec![])),
        ("acc_arity".into(), sid("S01", vec![], vec![])),
        ("missing_account".into(), Sd::Single(vec![aid("Zacc", None)])),
        ("missing_ns".into(), Sd::Single(vec![aid("Zacc", Some("z"))])),
        ("many_bad".into(), Sd::Many(Box::new(estruct()), 2, Some(1))),
        ("or_empty".into(), Sd::Or(vec![])),
        ("tygen_bad".into(), sid("S10", vec![Td::Map(bx(p("u8")), bx(tref("Z", None, 0)), bx(p("u8")))], vec![])),
    ]
}

fn nest_td(depth: usize) -> Vec<(String, Box<dyn Fn(Td) -> Td>)> {
    // all compositions of `depth` one-hole contexts
    let mut acc: Vec<(String, Box<dyn Fn(Td) -> Td>)> = vec![("hole".into(), Box::new(|h| h))];
    for _ in 0..depth {
        let mut next: Vec<(String, Box<dyn Fn(Td) -> Td>)> = vec![];
        for (n, _) in acc.iter() {
            for (cn, _) in td_contexts() {
                let outer_names: Vec<String> = if n == "hole" { vec![] } else { n.split('>').map(|s| s.to_string()).collect() };
                let mut names = outer_names.clone();
                names.push(cn.to_string());
                let path = names.clone();
                next.push((
                    names.join(">"),
                    Box::new(move |h| {
                        // apply innermost last: build from the inside out
                        let ctxs = td_contexts();
                        let mut t = h;
                        for name in path.iter().rev() {
                            let f = &ctxs.iter().find(|(n, _)| n == name).unwrap().1;
                            t = f(t);
                        }
                        t
                    }),
                ));
            }
        }
        acc = next;
    }
    acc
}

fn nest_sd(depth: usize) -> Vec<(String, Box<dyn Fn(Sd) -> Sd>)> {
    let mut acc: Vec<(String, Box<dyn Fn(Sd) -> Sd>)> = vec![("hole".into(), Box::new(|h| h))];
    for _ in 0..depth {
        let mut next: Vec<(String, Box<dyn Fn(Sd) -> Sd>)> = vec![];
        for (n, _) in acc.iter() {
            for (cn, _) in sd_contexts() {
                let mut names: Vec<String> = if n == "hole" { vec![] } else { n.split('>').map(|s| s.to_string()).collect() };
                names.push(cn.to_string());
                let path = names.clone();
                next.push((
                    names.join(">"),
                    Box::new(move |h| {
                        let ctxs = sd_contexts();
                        let mut t = h;
                        for name in path.iter().rev() {
                            let f = &ctxs.iter().find(|(n, _)| n == name).unwrap().1;
                            t = f(t);
                        }
                        t
                    }),
                ));
            }
        }
        acc = next;
    }
    acc
}

/// 1a. namespaces: every ordered list of <= 3 names from the pool, with a cross reference probe.
pub fn namespace_cases(out: &mut Vec<Case>) {
    let pool = ["a", "b", " a", "a\t", "", " ", "\u{a0}\u{3000}"];
    let mut lists: Vec<Vec<&str>> = vec![vec![]];
    for a in pool {
        lists.push(vec![a]);
        for b in pool {
            lists.push(vec![a, b]);
            for c in pool {
                lists.push(vec![a, b, c]);
            }
        }
    }
    let probes: Vec<(&str, Vec<Line>)> = vec![
        ("none", vec![]),
        ("type@a", vec![Line::Ty { ext: false, source: "P".into(), arity: 0, td: tref("T0", Some("a"), 0) }]),
        ("type@_a", vec![Line::Ty { ext: false, source: "P".into(), arity: 0, td: tref("T0", Some(" a"), 0) }]),
        (
            "account@b",
            vec![Line::Set { source: "P".into(), ty_arity: 0, acc_arity: 0, sd: Sd::Single(vec![aid("Acc", Some("b"))]) }],
        ),
    ];
    for names in &lists {
        for (pn, probe) in &probes {
            if names.is_empty() && *pn != "none" {
                continue;
            }
            let mut l = vec![];
            for (i, n) in names.iter().enumerate() {
                l.push(Line::Def((*n).into()));
                l.push(Line::Ty { ext: false, source: "T0".into(), arity: 0, td: p("u8") });
                l.push(Line::Acct { source: "Acc".into(), tid: tid("T0", None, vec![]), seeds: None });
                if i + 1 == names.len() {
                    l.extend(probe.clone());
                }
            }
            l.push(Line::Verify { mode: Mode::Compat, perm: None });
            l.push(Line::Verify { mode: Mode::Strict, perm: None });
            if names.len() >= 2 {
                let rev: Vec<usize> = (0..names.len()).rev().collect();
                l.push(Line::Verify { mode: Mode::Compat, perm: Some(rev.clone()) });
                l.push(Line::Verify { mode: Mode::Strict, perm: Some(rev) });
            }
            out.push(mk(format!("ns n={} probe={pn}", names.len()), l));
        }
    }
}

/// 1b. type references x positions x roots.
pub fn type_position_cases(out: &mut Vec<Case>, thorough: bool) {
    let roots = td_roots();
    // full reference universe at nesting depth 0 and 1, every root
    for depth in 0..=1 {
        for (cn, ctx) in nest_td(depth) {
            for (rn, root) in &roots {
                for (fnm, r) in type_refs() {
                    out.push(world_case(format!("typos root={rn} ctx={cn} ref={fnm}"), root(ctx(r))));
                }
            }
        }
    }
    // depth 2 (and 3 in thorough): every composition of contexts, representative references
    for depth in 2..=(if thorough { 3 } else { 2 }) {
        let full = thorough && depth == 2;
        let refs = if full { type_refs() } else { type_refs_small() };
        for (cn, ctx) in nest_td(depth) {
            for (ri, (rn, root)) in roots.iter().enumerate() {
                if depth == 3 && ri != 0 && ri != 3 {
                    continue;
                }
                for (fnm, r) in &refs {
                    out.push(world_case(format!("typos root={rn} ctx={cn} ref={fnm}"), root(ctx(r.clone()))));
                }
            }
        }
    }
    // the type id itself as account / instruction type
    for (fnm, r) in type_refs() {
        let Td::Defined(id) = r else { unreachable!() };
        out.push(world_case(format!("typos root=account.type_id ref={fnm}"), vec![Line::Acct { source: "Q".into(), tid: id.clone(), seeds: None }]));
        out.push(world_case(format!("typos root=instruction.type_id ref={fnm}"), vec![Line::Ix { source: "Q".into(), tid: id, sd: estruct() }]));
    }
    // leaves in every context (must be accepted)
    for (cn, ctx) in nest_td(1) {
        for prim in PRIMS {
            out.push(world_case(format!("typos leaf ctx={cn} prim={prim}"), (roots[0].1)(ctx(p(prim)))));
        }
        out.push(world_case(format!("typos leaf ctx={cn} generic"), (roots[0].1)(ctx(Td::Generic("G".into())))));
    }
}

/// 1c. account-set probes x positions x roots.
pub fn set_position_cases(out: &mut Vec<Case>, thorough: bool) {
    let roots = sd_roots();
    for depth in 0..=(if thorough { 3 } else { 2 }) {
        let probes = if depth <= 1 || (thorough && depth == 2) { sd_probes() } else { sd_probes_small() };
        for (cn, ctx) in nest_sd(depth) {
            for (rn, root) in &roots {
                for (pn, pr) in &probes {
                    out.push(world_case(format!("setpos root={rn} ctx={cn} probe={pn}"), root(ctx(pr.clone()))));
                }
            }
        }
    }
}

/// 1d. two errors in two slots of the same definition / of two definitions: first-error order.
pub fn precedence_cases(out: &mut Vec<Case>) {
    let bad_td: Vec<(&str, Td)> = vec![("R004", tref("Z", None, 0)), ("R003", tref("T0", Some("z"), 0)), ("R005", tref("T1", None, 0))];
    let bad_sd: Vec<(&str, Sd)> = vec![
        ("R006", sid("Zs", vec![], vec![])),
        ("R007", sid("S10", vec![], vec![])),
        ("R008", sid("S01", vec![], vec![])),
        ("R009", Sd::Single(vec![aid("Zacc", None)])),
        ("R010", Sd::Many(Box::new(estruct()), 2, Some(1))),
        ("R011", Sd::Or(vec![])),
    ];
    // slots: (name, builder from a bad snippet index) -- each slot yields its list of bad lines
    let mut slots: Vec<(String, Vec<(String, Line)>)> = vec![];
    for key in ["P1", "P2"] {
        slots.push((
            format!("types[{key}]"),
            bad_td.iter().map(|(n, t)| (n.to_string(), Line::Ty { ext: false, source: key.into(), arity: 0, td: t.clone() })).collect(),
        ));
    }
    slots.push((
        "external_types[A0]".into(),
        bad_td.iter().map(|(n, t)| (n.to_string(), Line::Ty { ext: true, source: "A0".into(), arity: 0, td: t.clone() })).collect(),
    ));
    slots.push((
        "account_sets[Q]".into(),
        bad_sd.iter().map(|(n, s)| (n.to_string(), Line::Set { source: "Q".into(), ty_arity: 0, acc_arity: 0, sd: s.clone() })).collect(),
    ));
    slots.push((
        "accounts[Q].type_id".into(),
        bad_td
            .iter()
            .map(|(n, t)| {
                let Td::Defined(id) = t.clone() else { unreachable!() };
                (n.to_string(), Line::Acct { source: "Q".into(), tid: id, seeds: None })
            })
            .collect(),
    ));
    slots.push((
        "accounts[R].seed".into(),
        bad_td
            .iter()
            .map(|(n, t)| (n.to_string(), Line::Acct { source: "R".into(), tid: tid("T0", None, vec![]), seeds: Some(vec![Seed::Variable(t.clone())]) }))
            .collect(),
    ));
    slots.push((
        "instructions[Q].type_id".into(),
        bad_td
            .iter()
            .map(|(n, t)| {
                let Td::Defined(id) = t.clone() else { unreachable!() };
                (n.to_string(), Line::Ix { source: "Q".into(), tid: id, sd: estruct() })
            })
            .collect(),
    ));
    slots.push((
        "instructions[R].account_set".into(),
        bad_sd.iter().map(|(n, s)| (n.to_string(), Line::Ix { source: "R".into(), tid: tid("T0", None, vec![]), sd: s.clone() })).collect(),
    ));
    for i in 0..slots.len() {
        for j in 0..slots.len() {
            if i == j {
                continue;
            }
            for (n1, l1) in &slots[i].1 {
                for (n2, l2) in &slots[j].1 {
                    if n1 == n2 {
                        continue;
                    }
                    // insertion order (i then j) is irrelevant to a BTreeMap: both orders are generated
                    out.push(world_case(format!("prec {}:{n1} then {}:{n2}", slots[i].0, slots[j].0), vec![l1.clone(), l2.clone()]));
                }
            }
        }
    }
    // one error in each of two definitions, plus a namespace error behind a reference error
    for (n1, t1) in &bad_td {
        for (n2, s2) in &bad_sd {
            let mut l = vec![
                Line::Def("b".into()),
                Line::Ty { ext: false, source: "P".into(), arity: 0, td: t1.clone() },
                Line::Def("a".into()),
                Line::Ty { ext: false, source: "T0".into(), arity: 0, td: p("u8") },
                Line::Ty { ext: false, source: "T1".into(), arity: 1, td: p("u8") },
                Line::Set { source: "S10".into(), ty_arity: 1, acc_arity: 0, sd: estruct() },
                Line::Set { source: "S01".into(), ty_arity: 0, acc_arity: 1, sd: estruct() },
                Line::Set { source: "Q".into(), ty_arity: 0, acc_arity: 0, sd: s2.clone() },
            ];
            l.extend(verifies(true));
            out.push(mk(format!("prec2 b:{n1} a:{n2}"), l.clone()));
            // same, followed by a third definition with an empty / duplicate namespace
            for extra in ["", "a "] {
                let mut l3 = l[..l.len() - 4].to_vec();
                l3.push(Line::Def(extra.into()));
                l3.push(Line::Verify { mode: Mode::Compat, perm: None });
                l3.push(Line::Verify { mode: Mode::Strict, perm: Some(vec![2, 0, 1]) });
                out.push(mk(format!("prec2 b:{n1} a:{n2} +ns{extra:?}"), l3));
            }
        }
    }
}

/// 1e. `BTreeMap` semantics of the builder lines: re-inserting a key replaces; iteration (hence the
/// first error) is in byte order of the keys, not insertion order.
pub fn map_order_cases(out: &mut Vec<Case>) {
    let keys = ["B", "a", "A", "aa", "a:", "\u{e9}", "Z9", ""];
    for k1 in keys {
        for k2 in keys {
            let mut l = vec![
                Line::Def("a".into()),
                Line::Ty { ext: false, source: "T1".into(), arity: 1, td: p("u8") },
                Line::Ty { ext: false, source: k1.into(), arity: 0, td: tref("Zmissing", None, 0) },
                Line::Ty { ext: false, source: k2.into(), arity: 0, td: tref("T1", None, 0) },
            ];
            l.extend(verifies(false));
            out.push(mk("maporder".to_string(), l));
        }
    }
}

/// 1f. `str::trim`: every whitespace scalar and its neighbours (thorough: every scalar).
pub fn trim_cases(out: &mut Vec<Case>, thorough: bool) {
    let mut lines = vec![];
    let hi = if thorough { 0x10FFFF } else { 0x3100 };
    for c in 0..=hi {
        if let Some(ch) = char::from_u32(c) {
            lines.push(Line::Trim(format!("{ch}a {ch}")).show());
        }
    }
    for s in ["", " ", "  a  b  ", "\t\n\r\u{b}\u{c}x\u{85}", "\u{200b}a\u{200b}", "\u{feff}a", "a\u{2028}\u{2029}\u{202f}\u{205f}\u{3000}"] {
        lines.push(Line::Trim(s.into()).show());
    }
    for chunk in lines.chunks(4096) {
        out.push(Case { kind: "trim".into(), lines: chunk.to_vec() });
    }
}

// ------------------------------------------------------------------------------------ 2. random

struct World {
    /// per definition: namespace, types (source, arity, external), sets (source, ty, acc), accounts
    defs: Vec<WDef>,
}
#[derive(Default, Clone)]
struct WDef {
    ns: String,
    types: Vec<(String, usize, bool)>,
    sets: Vec<(String, usize, usize)>,
    accounts: Vec<String>,
}

const SRC_POOL: [&str; 10] = ["A", "B", "C", "D", "a::X", "a::Y", "Foo", "foo", "Q1", "Q2"];
const NS_POOL: [&str; 8] = ["a", "b", "c", "d", " a", "b ", "", "zz"];

struct RandGen<'a> {
    rng: &'a mut Rng,
    w: World,
    cur: usize,
    /// probability (per mille) of deliberately producing a broken reference
    chaos: u64,
}

impl<'a> RandGen<'a> {
    fn leaf(&mut self) -> Td {
        if self.rng.chance(1, 8) {
            Td::Generic((*self.rng.pick(&["T", "U"])).to_string())
        } else {
            p(*self.rng.pick(&PRIMS))
        }
    }
    fn type_ref(&mut self, depth: usize) -> Td {
        match self.tid_ref(depth) {
            Some(id) => Td::Defined(id),
            None => self.leaf(),
        }
    }
    fn tid_or_random(&mut self, depth: usize) -> Tid {
        match self.tid_ref(depth) {
            Some(id) => id,
            None => Tid { source: (*self.rng.pick(&SRC_POOL)).to_string(), ns: None, gens: vec![] },
        }
    }
    /// a type reference; `None` when nothing can be referenced and no breakage was drawn
    fn tid_ref(&mut self, depth: usize) -> Option<Tid> {
        let broken = self.rng.below(1000) < self.chaos;
        let cur = self.w.defs[self.cur].clone();
        // pick a target definition and a type in it
        let use_other = self.w.defs.len() > 1 && self.rng.chance(1, 3);
        let (tdef, ns): (WDef, Option<String>) = if use_other {
            let i = self.rng.below(self.w.defs.len() as u64) as usize;
            (self.w.defs[i].clone(), Some(self.w.defs[i].ns.trim().to_string()))
        } else {
            (cur.clone(), if self.rng.chance(1, 6) { Some(cur.ns.trim().to_string()) } else { None })
        };
        if tdef.types.is_empty() && !broken {
            return None;
        }
        let (mut source, mut arity) = if tdef.types.is_empty() || (broken && self.rng.chance(1, 3)) {
            ((*self.rng.pick(&SRC_POOL)).to_string(), self.rng.below(3) as usize)
        } else {
            let t = self.rng.pick(&tdef.types).clone();
            (t.0, t.1)
        };
        let mut ns = ns;
        if broken {
            match self.rng.below(4) {
                0 => arity = (arity + 1 + self.rng.below(2) as usize) % 4,
                1 => ns = Some((*self.rng.pick(&NS_POOL)).to_string()),
                2 => source = (*self.rng.pick(&SRC_POOL)).to_string(),
                _ => ns = if ns.is_some() { None } else { Some((*self.rng.pick(&NS_POOL)).to_string()) },
            }
        }
        let gens = (0..arity).map(|_| self.td(depth.saturating_sub(1))).collect();
        Some(Tid { source, ns, gens })
    }
    fn td(&mut self, depth: usize) -> Td {
        if depth == 0 {
            return if self.rng.chance(1, 4) { self.type_ref(0) } else { self.leaf() };
        }
        let d = depth - 1;
        match self.rng.below(14) {
            0 | 1 => self.type_ref(d),
            2 => Td::FixedPoint(bx(self.td(d)), self.rng.below(256) as u8),
            3 => Td::Option(bx(self.td(d)), self.rng.chance(1, 2)),
            4 => Td::List(bx(self.td(d)), bx(self.td(d))),
            5 => Td::UnsizedList(bx(self.td(d)), bx(self.td(d)), bx(self.td(d))),
            6 => Td::Set(bx(self.td(d)), bx(self.td(d))),
            7 => Td::Map(bx(self.td(d)), bx(self.td(d)), bx(self.td(d))),
            8 => Td::Array(bx(self.td(d)), self.rng.below(40) as usize),
            9 | 10 => Td::Struct((0..self.rng.below(4)).map(|_| self.td(d)).collect()),
            11 => Td::Enum(
                bx(self.td(d)),
                (0..self.rng.below(4)).map(|_| if self.rng.chance(1, 2) { None } else { Some(self.td(d)) }).collect(),
            ),
            _ => self.leaf(),
        }
    }
    fn account_refs(&mut self) -> Vec<Aid> {
        (0..self.rng.below(3)).filter_map(|_| self.account_ref()).collect()
    }
    fn account_ref(&mut self) -> Option<Aid> {
        let broken = self.rng.below(1000) < self.chaos;
        let use_other = self.w.defs.len() > 1 && self.rng.chance(1, 3);
        let i = if use_other { self.rng.below(self.w.defs.len() as u64) as usize } else { self.cur };
        let d = self.w.defs[i].clone();
        if d.accounts.is_empty() && !broken {
            return None;
        }
        let mut ns = if use_other || self.rng.chance(1, 6) { Some(d.ns.trim().to_string()) } else { None };
        let mut source = if d.accounts.is_empty() { (*self.rng.pick(&SRC_POOL)).to_string() } else { self.rng.pick(&d.accounts).clone() };
        if broken {
            if self.rng.chance(1, 2) {
                source = (*self.rng.pick(&SRC_POOL)).to_string();
            } else {
                ns = Some((*self.rng.pick(&NS_POOL)).to_string());
            }
        }
        Some(Aid { source, ns })
    }
    fn sd(&mut self, depth: usize) -> Sd {
        let broken = self.rng.below(1000) < self.chaos;
        if depth == 0 {
            return Sd::Single(self.account_refs());
        }
        let d = depth - 1;
        match self.rng.below(9) {
            0 | 1 => {
                let sets = self.w.defs[self.cur].sets.clone();
                if sets.is_empty() && !broken {
                    return Sd::Struct(vec![]);
                }
                let (source, mut t, mut a) =
                    if sets.is_empty() || (broken && self.rng.chance(1, 3)) { ((*self.rng.pick(&SRC_POOL)).to_string(), 0, 0) } else { self.rng.pick(&sets).clone() };
                if broken {
                    if self.rng.chance(1, 2) {
                        t = (t + 1) % 3;
                    } else {
                        a = (a + 1) % 3;
                    }
                }
                Sd::Defined { source, ty_gens: (0..t).map(|_| self.td(d)).collect(), acc_gens: (0..a).map(|_| self.sd(d)).collect() }
            }
            2 | 3 => Sd::Single(self.account_refs()),
            4 | 5 => Sd::Struct((0..self.rng.below(4)).map(|_| self.sd(d)).collect()),
            6 => {
                let mn = self.rng.below(4) as usize;
                let mx = match self.rng.below(3) {
                    0 => None,
                    _ => Some(if broken { mn.saturating_sub(1 + self.rng.below(2) as usize) } else { mn + self.rng.below(3) as usize }),
                };
                Sd::Many(Box::new(self.sd(d)), mn, mx)
            }
            _ => {
                let n = if broken { 0 } else { 1 + self.rng.below(3) };
                Sd::Or((0..n).map(|_| self.sd(d)).collect())
            }
        }
    }
}

fn distinct_names(rng: &mut Rng, pool: &[&str], n: usize) -> Vec<String> {
    let mut v: Vec<String> = vec![];
    let mut tries = 0;
    while v.len() < n && tries < 50 {
        let s = (*rng.pick(pool)).to_string();
        if !v.contains(&s) {
            v.push(s);
        }
        tries += 1;
    }
    v
}

/// A random graph: declare all items first (so references can point forwards and across
/// definitions), then emit the lines definition by definition.
pub fn random_lines(rng: &mut Rng, size: u64, chaos: u64) -> Vec<Line> {
    let n_defs = 1 + rng.below(size.min(5)) as usize;
    let clean_ns = chaos == 0 || rng.chance(9, 10);
    let ns_pool: &[&str] = if clean_ns { &NS_POOL[..4] } else { &NS_POOL };
    let names = if clean_ns {
        distinct_names(rng, ns_pool, n_defs)
    } else {
        (0..n_defs).map(|_| (*rng.pick(ns_pool)).to_string()).collect()
    };
    let mut w = World { defs: vec![] };
    for ns in &names {
        let mut d = WDef { ns: ns.clone(), ..Default::default() };
        let k = (rng.below(size + 1) as usize).max(if chaos == 0 { 1 } else { 0 });
        for s in distinct_names(rng, &SRC_POOL, k) {
            let ext = rng.chance(1, 5);
            d.types.push((s, rng.below(3) as usize, ext));
        }
        let k = rng.below(size) as usize;
        for s in distinct_names(rng, &SRC_POOL, k) {
            d.sets.push((s, rng.below(3) as usize, rng.below(3) as usize));
        }
        let k = rng.below(size) as usize;
        d.accounts = distinct_names(rng, &SRC_POOL, k);
        w.defs.push(d);
    }
    let n = w.defs.len();
    let mut g = RandGen { rng, w, cur: 0, chaos };
    let mut lines = vec![];
    for i in 0..n {
        g.cur = i;
        let d = g.w.defs[i].clone();
        lines.push(Line::Def(d.ns.clone()));
        for (s, ar, ext) in &d.types {
            let depth = g.rng.below(4) as usize;
            lines.push(Line::Ty { ext: *ext, source: s.clone(), arity: *ar, td: g.td(depth) });
        }
        for (s, t, a) in &d.sets {
            let depth = g.rng.below(4) as usize;
            lines.push(Line::Set { source: s.clone(), ty_arity: *t, acc_arity: *a, sd: g.sd(depth) });
        }
        for s in &d.accounts {
            let id = g.tid_or_random(2);
            let seeds = if g.rng.chance(1, 2) {
                None
            } else {
                Some((0..g.rng.below(3)).map(|_| if g.rng.chance(1, 2) { Seed::Const } else { Seed::Variable(g.td(2)) }).collect())
            };
            lines.push(Line::Acct { source: s.clone(), tid: id, seeds });
        }
        for k in 0..g.rng.below(size) {
            let id = g.tid_or_random(2);
            let depth = g.rng.below(4) as usize;
            lines.push(Line::Ix { source: format!("Ix{k}"), tid: id, sd: g.sd(depth) });
        }
    }
    lines
}

fn random_perm(rng: &mut Rng, n: usize) -> Vec<usize> {
    let mut v: Vec<usize> = (0..n).collect();
    for i in (1..n).rev() {
        let j = rng.below(i as u64 + 1) as usize;
        v.swap(i, j);
    }
    v
}

fn with_verifies(rng: &mut Rng, mut lines: Vec<Line>) -> Vec<Line> {
    let n = lines.iter().filter(|l| matches!(l, Line::Def(_))).count();
    lines.push(Line::Verify { mode: Mode::Compat, perm: None });
    lines.push(Line::Verify { mode: Mode::Strict, perm: None });
    if n >= 2 {
        lines.push(Line::Verify { mode: Mode::Compat, perm: Some(random_perm(rng, n)) });
        lines.push(Line::Verify { mode: Mode::Strict, perm: Some(random_perm(rng, n)) });
    }
    lines
}

pub fn random_cases(out: &mut Vec<Case>, rng: &mut Rng, count: usize) {
    for i in 0..count {
        let size = 1 + rng.below(5);
        // a third fully valid by construction, a third lightly broken, a third chaotic
        let chaos = match i % 3 {
            0 => 0,
            1 => 30,
            _ => 250,
        };
        let lines = random_lines(rng, size, chaos);
        let lines = with_verifies(rng, lines);
        out.push(mk(format!("random size={size} chaos={chaos}"), lines));
    }
}

// ------------------------------------------------------------------------------------ 3. mutants

/// All reference-bearing sub-terms can be edited: collect "edit sites" by index and apply the k-th.
fn mutate_td(t: &mut Td, rng: &mut Rng, budget: &mut i64) {
    if *budget < 0 {
        return;
    }
    match t {
        Td::Defined(id) => {
            if *budget == 0 {
                match rng.below(5) {
                    0 => id.source.push('x'),
                    1 => id.ns = Some("nowhere".into()),
                    2 => id.gens.push(p("u8")),
                    3 => {
                        if id.gens.pop().is_none() {
                            id.gens.push(p("bool"))
                        }
                    }
                    _ => id.ns = id.ns.as_ref().map(|n| format!(" {n}")).or(Some("a".into())),
                }
            }
            *budget -= 1;
            for g in id.gens.iter_mut() {
                mutate_td(g, rng, budget);
            }
        }
        Td::FixedPoint(a, _) | Td::Option(a, _) | Td::Array(a, _) => mutate_td(a, rng, budget),
        Td::List(a, b) | Td::Set(a, b) => {
            mutate_td(a, rng, budget);
            mutate_td(b, rng, budget)
        }
        Td::UnsizedList(a, b, c) | Td::Map(a, b, c) => {
            mutate_td(a, rng, budget);
            mutate_td(b, rng, budget);
            mutate_td(c, rng, budget)
        }
        Td::Struct(fs) => fs.iter_mut().for_each(|f| mutate_td(f, rng, budget)),
        Td::Enum(s, vs) => {
            mutate_td(s, rng, budget);
            vs.iter_mut().flatten().for_each(|v| mutate_td(v, rng, budget))
        }
        Td::Generic(_) | Td::Prim(_) => {}
    }
}

fn mutate_sd(s: &mut Sd, rng: &mut Rng, budget: &mut i64) {
    if *budget < 0 {
        return;
    }
    match s {
        Sd::Defined { source, ty_gens, acc_gens } => {
            if *budget == 0 {
                match rng.below(4) {
                    0 => source.push('x'),
                    1 => ty_gens.push(p("u8")),
                    2 => acc_gens.push(Sd::Struct(vec![])),
                    _ => {
                        if ty_gens.pop().is_none() && acc_gens.pop().is_none() {
                            source.push('y')
                        }
                    }
                }
            }
            *budget -= 1;
            ty_gens.iter_mut().for_each(|g| mutate_td(g, rng, budget));
            acc_gens.iter_mut().for_each(|g| mutate_sd(g, rng, budget));
        }
        Sd::Single(accts) => {
            for a in accts.iter_mut() {
                if *budget == 0 {
                    if rng.chance(1, 2) {
                        a.source.push('x')
                    } else {
                        a.ns = Some("nowhere".into())
                    }
                }
                *budget -= 1;
            }
        }
        Sd::Struct(fs) => fs.iter_mut().for_each(|f| mutate_sd(f, rng, budget)),
        Sd::Many(a, mn, mx) => {
            if *budget == 0 {
                *mx = Some(*mn);
                *mn += 1;
            }
            *budget -= 1;
            mutate_sd(a, rng, budget)
        }
        Sd::Or(bs) => {
            if *budget == 0 {
                bs.clear();
            }
            *budget -= 1;
            bs.iter_mut().for_each(|b| mutate_sd(b, rng, budget))
        }
    }
}

fn edit_sites(lines: &[Line]) -> i64 {
    // count by running a mutation pass with a huge budget and looking at what was consumed
    let mut l = lines.to_vec();
    let mut budget: i64 = 1 << 40;
    let mut rng = Rng::new(0);
    for line in l.iter_mut() {
        mutate_line(line, &mut rng, &mut budget);
    }
    (1i64 << 40) - budget
}

fn mutate_line(line: &mut Line, rng: &mut Rng, budget: &mut i64) {
    match line {
        Line::Ty { td, .. } => mutate_td(td, rng, budget),
        Line::Set { sd, .. } => mutate_sd(sd, rng, budget),
        Line::Acct { tid, seeds, .. } => {
            let mut t = Td::Defined(tid.clone());
            mutate_td(&mut t, rng, budget);
            if let Td::Defined(id) = t {
                *tid = id;
            }
            for s in seeds.iter_mut().flatten() {
                if let Seed::Variable(t) = s {
                    mutate_td(t, rng, budget);
                }
            }
        }
        Line::Ix { tid, sd, .. } => {
            let mut t = Td::Defined(tid.clone());
            mutate_td(&mut t, rng, budget);
            if let Td::Defined(id) = t {
                *tid = id;
            }
            mutate_sd(sd, rng, budget);
        }
        _ => {}
    }
}

/// Single-edit mutants of valid graphs: rename a reference, change its namespace, bump an arity,
/// break a bound, empty an Or, delete an item line, rename / blank / duplicate a namespace.
pub fn mutant_cases(
    out: &mut Vec<Case>,
    rng: &mut Rng,
    bases: usize,
    per_base: usize,
    extra_bases: &[(String, Vec<Line>)],
    is_sound: &dyn Fn(&[Line]) -> bool,
) {
    let mut all: Vec<(String, Vec<Line>)> = extra_bases.to_vec();
    for b in 0..bases {
        // bases are graphs the *oracle* calls sound in both modes (a few retries; otherwise taken as is)
        let mut base = vec![];
        for _ in 0..12 {
            let size = 3 + rng.below(3);
            base = random_lines(rng, size, 0);
            if is_sound(&base) {
                break;
            }
        }
        all.push((format!("rand{b}"), base));
    }
    for (bn, base) in all {
        let v = with_verifies(rng, base.clone());
        out.push(mk(format!("mutant base={bn} edit=none"), v));
        let sites = edit_sites(&base);
        for k in 0..per_base {
            let mut l = base.clone();
            let what;
            match rng.below(10) {
                0 => {
                    // delete an item line
                    let idx: Vec<usize> = l.iter().enumerate().filter(|(_, x)| !matches!(x, Line::Def(_))).map(|(i, _)| i).collect();
                    if idx.is_empty() {
                        continue;
                    }
                    l.remove(*rng.pick(&idx));
                    what = "delete_item";
                }
                1 => {
                    let idx: Vec<usize> = l.iter().enumerate().filter(|(_, x)| matches!(x, Line::Def(_))).map(|(i, _)| i).collect();
                    let i = *rng.pick(&idx);
                    let other = *rng.pick(&idx);
                    let new = match rng.below(4) {
                        0 => String::new(),
                        1 => "  ".to_string(),
                        2 => match &l[other] {
                            Line::Def(n) => format!(" {n} "),
                            _ => unreachable!(),
                        },
                        _ => "renamed".to_string(),
                    };
                    l[i] = Line::Def(new);
                    what = "namespace";
                }
                2 => {
                    // change a declared arity
                    let idx: Vec<usize> = l.iter().enumerate().filter(|(_, x)| matches!(x, Line::Ty { .. } | Line::Set { .. })).map(|(i, _)| i).collect();
                    if idx.is_empty() {
                        continue;
                    }
                    match &mut l[*rng.pick(&idx)] {
                        Line::Ty { arity, .. } => *arity += 1,
                        Line::Set { ty_arity, acc_arity, .. } => {
                            if rng.chance(1, 2) {
                                *ty_arity += 1
                            } else {
                                *acc_arity += 1
                            }
                        }
                        _ => {}
                    }
                    what = "declared_arity";
                }
                _ => {
                    if sites == 0 {
                        continue;
                    }
                    let mut budget = rng.below(sites as u64) as i64;
                    for line in l.iter_mut() {
                        mutate_line(line, rng, &mut budget);
                    }
                    what = "reference";
                }
            }
            let v = with_verifies(rng, l);
            out.push(mk(format!("mutant base={bn} edit={what} k={k}"), v));
        }
    }
}

// ---------------------------------------------------------------- behavioural ties (every run)

/// Minimal single-namespace world used by the `boundary` and `variant` families:
/// type T0/0, generic type T1/1, account Acc, sets S00 S10 S01.
fn mini_world() -> Vec<Line> {
    vec![
        Line::Def("a".into()),
        Line::Ty { ext: false, source: "T0".into(), arity: 0, td: Td::Struct(vec![]) },
        Line::Ty { ext: false, source: "T1".into(), arity: 1, td: Td::Struct(vec![Td::Generic("X".into())]) },
        Line::Acct { source: "Acc".into(), tid: tid("T0", None, vec![]), seeds: None },
        Line::Set { source: "S00".into(), ty_arity: 0, acc_arity: 0, sd: estruct() },
        Line::Set { source: "S10".into(), ty_arity: 1, acc_arity: 0, sd: estruct() },
        Line::Set { source: "S01".into(), ty_arity: 0, acc_arity: 1, sd: estruct() },
    ]
}

fn mini_case(kind: String, probe: Vec<Line>) -> Case {
    let mut l = mini_world();
    l.extend(probe);
    l.extend(verifies(false));
    mk(kind, l)
}

/// The name of the `IdlTypeDef` variant a mirror value builds (mirrors `encode::td_variant_name`,
/// which is the exhaustive match on the REAL enum; `main` cross-checks the two on every case).
pub fn td_variant(t: &Td) -> &'static str {
    match t {
        Td::Defined(_) => "Defined",
        Td::Generic(_) => "Generic",
        Td::Prim(p) => match *p {
            "bool" => "Bool", "u8" => "U8", "i8" => "I8", "u16" => "U16", "i16" => "I16", "u32" => "U32", "i32" => "I32",
            "f32" => "F32", "u64" => "U64", "i64" => "I64", "f64" => "F64", "u128" => "U128", "i128" => "I128",
            "string" => "String", "pubkey" => "Pubkey", _ => "RemainingBytes",
        },
        Td::FixedPoint(..) => "FixedPoint",
        Td::Option(..) => "Option",
        Td::List(..) => "List",
        Td::UnsizedList(..) => "UnsizedList",
        Td::Set(..) => "Set",
        Td::Map(..) => "Map",
        Td::Array(..) => "Array",
        Td::Struct(_) => "Struct",
        Td::Enum(..) => "Enum",
    }
}

pub fn sd_variant(s: &Sd) -> &'static str {
    match s {
        Sd::Defined { .. } => "Defined",
        Sd::Single(_) => "Single",
        Sd::Struct(_) => "Struct",
        Sd::Many(..) => "Many",
        Sd::Or(_) => "Or",
    }
}

/// One probe of the `variant` family: the variant (of `IdlTypeDef` "td" or `IdlAccountSetDef` "sd")
/// under test, the position inside it, and whether the nested reference dangles.
pub struct VariantProbe {
    pub enum_name: &'static str,
    pub variant: &'static str,
    pub position: &'static str,
    pub dangling: bool,
    pub td: Option<Td>,
    pub sd: Option<Sd>,
}

/// **Walker coverage, independent of what the translator could read**: for every variant of
/// `IdlTypeDef` and `IdlAccountSetDef` and every position inside it that holds a type definition /
/// account-set definition / reference, one graph with a DANGLING reference nested at that position
/// (the verifier must reject iff its walk descends there) and one with a resolving reference (must
/// accept); every leaf variant once (must accept). The harness oracle (generic JSON walk) supplies
/// the expected answer; the Lean model is diffed as always.
pub fn variant_probes() -> Vec<VariantProbe> {
    let mut v = vec![];
    for dangling in [true, false] {
        let r = || if dangling { tref("Zmissing", None, 0) } else { tref("T0", None, 0) };
        for (pos, ctx) in td_contexts() {
            let t = ctx(r());
            v.push(VariantProbe { enum_name: "td", variant: td_variant(&t), position: pos, dangling, td: Some(t), sd: None });
        }
        // `Defined`: the reference itself
        let t = r();
        v.push(VariantProbe { enum_name: "td", variant: "Defined", position: "self", dangling, td: Some(t), sd: None });
        let a = || if dangling { aid("Zacc", None) } else { aid("Acc", None) };
        let s = || if dangling { sid("Zs", vec![], vec![]) } else { sid("S00", vec![], vec![]) };
        let sds: Vec<(&'static str, Sd)> = vec![
            ("self", s()),
            ("provided_type_generics", sid("S10", vec![r()], vec![])),
            ("provided_account_generics", sid("S01", vec![], vec![s()])),
            ("program_accounts[0]", Sd::Single(vec![a()])),
            ("program_accounts[1]", Sd::Single(vec![aid("Acc", None), a()])),
            ("field[0]", Sd::Struct(vec![s(), estruct()])),
            ("field[1]", Sd::Struct(vec![estruct(), s()])),
            ("account_set", Sd::Many(Box::new(s()), 0, None)),
            ("account_set(bounded)", Sd::Many(Box::new(s()), 1, Some(1))),
            ("branch[0]", Sd::Or(vec![s(), estruct()])),
            ("branch[1]", Sd::Or(vec![estruct(), s()])),
        ];
        for (pos, sd) in sds {
            v.push(VariantProbe { enum_name: "sd", variant: sd_variant(&sd), position: pos, dangling, td: None, sd: Some(sd) });
        }
    }
    for prim in PRIMS {
        let t = p(prim);
        v.push(VariantProbe { enum_name: "td", variant: td_variant(&t), position: "leaf", dangling: false, td: Some(t), sd: None });
    }
    let g = Td::Generic("G".into());
    v.push(VariantProbe { enum_name: "td", variant: "Generic", position: "leaf", dangling: false, td: Some(g), sd: None });
    v
}

pub fn variant_cases(out: &mut Vec<Case>) {
    for pr in variant_probes() {
        let kind = format!(
            "variant enum={} variant={} pos={} ref={}",
            pr.enum_name,
            pr.variant,
            pr.position,
            if pr.dangling { "dangling" } else { "ok" }
        );
        if let Some(t) = pr.td {
            // as a type body and as a seed type (two different callers of the type walk)
            out.push(mini_case(format!("{kind} root=types"), vec![Line::Ty { ext: false, source: "P".into(), arity: 0, td: t.clone() }]));
            out.push(mini_case(
                format!("{kind} root=account.seed"),
                vec![Line::Acct { source: "Q".into(), tid: tid("T0", None, vec![]), seeds: Some(vec![Seed::Variable(t)]) }],
            ));
        }
        if let Some(s) = pr.sd {
            out.push(mini_case(format!("{kind} root=account_sets"), vec![Line::Set { source: "Q".into(), ty_arity: 0, acc_arity: 0, sd: s.clone() }]));
            out.push(mini_case(format!("{kind} root=instruction"), vec![Line::Ix { source: "Q".into(), tid: tid("T0", None, vec![]), sd: s }]));
        }
    }
}

/// **Rule conditions, behaviourally**: boundary graphs around the condition of every rule, so that
/// a changed comparison (`<` vs `<=`, signed arithmetic, `!=` vs `<`, emptiness vs length …) is
/// caught with a failing input — no check depends on how the condition is spelled in the source.
pub fn boundary_cases(out: &mut Vec<Case>) {
    // SFIDL010: Many bounds. Values around 0, the i32/u32/i64/u64 edges ("signed-looking" values).
    let vals: [usize; 13] = [
        0, 1, 2, 3, (1 << 31) - 1, 1 << 31, u32::MAX as usize, 1 << 32, (1 << 63) - 1, 1 << 63, (1 << 63) + 1, usize::MAX - 1, usize::MAX,
    ];
    for &mn in &vals {
        let mut maxes: Vec<Option<usize>> = vec![None];
        maxes.extend(vals.iter().map(|&m| Some(m)));
        // also the immediate neighbours of min
        maxes.push(mn.checked_sub(1));
        maxes.push(Some(mn));
        maxes.push(mn.checked_add(1));
        for mx in maxes {
            let sd = Sd::Many(Box::new(estruct()), mn, mx);
            out.push(mini_case(format!("boundary many min={mn} max={mx:?} root=account_sets"), vec![Line::Set { source: "Q".into(), ty_arity: 0, acc_arity: 0, sd: sd.clone() }]));
            out.push(mini_case(
                format!("boundary many min={mn} max={mx:?} root=instruction.nested"),
                vec![Line::Ix { source: "Q".into(), tid: tid("T0", None, vec![]), sd: Sd::Struct(vec![Sd::Or(vec![sd])]) }],
            ));
        }
    }
    // SFIDL011: Or with 0..3 branches, at the root and nested in every account-set position
    for n in 0..=3usize {
        let o = Sd::Or(vec![estruct(); n]);
        let places: Vec<(&str, Sd)> = vec![
            ("root", o.clone()),
            ("many.inner", Sd::Many(Box::new(o.clone()), 0, None)),
            ("struct.field", Sd::Struct(vec![estruct(), o.clone()])),
            ("or.branch", Sd::Or(vec![estruct(), o.clone()])),
            ("sid.account_generic", sid("S01", vec![], vec![o.clone()])),
        ];
        for (pn, s) in places {
            out.push(mini_case(format!("boundary or n={n} at={pn}"), vec![Line::Set { source: "Q".into(), ty_arity: 0, acc_arity: 0, sd: s }]));
        }
    }
    // SFIDL005: declared x provided type generics 0..3
    for d in 0..=3usize {
        for pv in 0..=3usize {
            let l = vec![Line::Ty { ext: false, source: "G".into(), arity: d, td: Td::Struct(vec![]) }];
            let id = tid("G", None, vec![p("u8"); pv]);
            let mut a = l.clone();
            a.push(Line::Ty { ext: false, source: "P".into(), arity: 0, td: Td::Defined(id.clone()) });
            out.push(mini_case(format!("boundary type_arity declared={d} provided={pv} at=typedef"), a));
            let mut b = l.clone();
            b.push(Line::Ix { source: "Q".into(), tid: id, sd: estruct() });
            out.push(mini_case(format!("boundary type_arity declared={d} provided={pv} at=instruction.type_id"), b));
        }
    }
    // SFIDL007 / SFIDL008: declared x provided, both kinds, 0..2
    for td_ in 0..=2usize {
        for ad in 0..=2usize {
            for tp in 0..=2usize {
                for ap in 0..=2usize {
                    out.push(mini_case(
                        format!("boundary set_arity declared={td_}/{ad} provided={tp}/{ap}"),
                        vec![
                            Line::Set { source: "G".into(), ty_arity: td_, acc_arity: ad, sd: estruct() },
                            Line::Set { source: "Q".into(), ty_arity: 0, acc_arity: 0, sd: sid("G", vec![p("u8"); tp], vec![estruct(); ap]) },
                        ],
                    ));
                }
            }
        }
    }
    // SFIDL001 / SFIDL002: what counts as empty / equal after trimming
    let specials = [
        "", " ", "\t", "\n", "\u{b}", "\u{c}", "\r", "\u{85}", "\u{a0}", "\u{1680}", "\u{180e}", "\u{2000}", "\u{2005}", "\u{200a}",
        "\u{200b}", "\u{2028}", "\u{2029}", "\u{202f}", "\u{205f}", "\u{2060}", "\u{3000}", "\u{feff}", "\u{1c}", "\u{1f}", "\u{0}",
    ];
    for c in specials {
        for name in [c.to_string(), format!("{c}{c}"), format!("{c}a"), format!("a{c}"), format!("{c}a{c}"), format!("a{c}a")] {
            // alone, and next to a definition called "a" (duplicate iff it trims to "a")
            out.push(mk(
                format!("boundary namespace alone"),
                vec![Line::Def(name.clone()), Line::Verify { mode: Mode::Compat, perm: None }, Line::Verify { mode: Mode::Strict, perm: None }],
            ));
            out.push(mk(
                format!("boundary namespace with_a"),
                vec![
                    Line::Def("a".into()),
                    Line::Ty { ext: false, source: "T0".into(), arity: 0, td: p("u8") },
                    Line::Def(name.clone()),
                    // a reference to namespace "a": resolves (to the first definition) unless the set is rejected earlier
                    Line::Ty { ext: false, source: "P".into(), arity: 0, td: tref("T0", Some("a"), 0) },
                    Line::Verify { mode: Mode::Compat, perm: None },
                    Line::Verify { mode: Mode::Strict, perm: None },
                    Line::Verify { mode: Mode::Strict, perm: Some(vec![1, 0]) },
                ],
            ));
        }
    }
    // SFIDL003 / 004 / 006 / 009: present vs absent, each resolution path, both modes (compact grid)
    for (nn, ns) in [("none", None), ("self", Some("a")), ("other", Some("b")), ("absent", Some("z"))] {
        for (sn, src) in [("local", "T0"), ("other_only", "B0"), ("nowhere", "Z")] {
            let mut l = vec![
                Line::Def("b".into()),
                Line::Ty { ext: false, source: "B0".into(), arity: 0, td: p("u8") },
                Line::Acct { source: "B0".into(), tid: tid("B0", None, vec![]), seeds: None },
            ];
            l.extend(mini_world());
            l.push(Line::Acct { source: "T0".into(), tid: tid("T0", None, vec![]), seeds: None });
            let mut t = l.clone();
            t.push(Line::Ty { ext: false, source: "P".into(), arity: 0, td: tref(src, ns, 0) });
            t.extend(verifies(true));
            out.push(mk(format!("boundary resolve type ns={nn} source={sn}"), t));
            let mut a = l.clone();
            a.push(Line::Set { source: "Q".into(), ty_arity: 0, acc_arity: 0, sd: Sd::Single(vec![aid(src, ns)]) });
            a.extend(verifies(true));
            out.push(mk(format!("boundary resolve account ns={nn} source={sn}"), a));
        }
    }
}
