//! Real `IdlDefinition` -> op lines (the inverse of `real.rs`, dropping inert metadata), and the
//! real IDLs of the framework's System program and of the shipped example programs.

use crate::ast::*;
use star_frame_idl::{account_set::IdlAccountSetDef, seeds::IdlSeed, ty::{IdlTypeDef, IdlTypeId}, IdlDefinition};

pub fn td(t: &IdlTypeDef) -> Td {
    let b = |t: &IdlTypeDef| Box::new(td(t));
    match t {
        IdlTypeDef::Defined(id) => Td::Defined(tid(id)),
        IdlTypeDef::Generic(n) => Td::Generic(n.clone()),
        IdlTypeDef::Bool => Td::Prim("bool"),
        IdlTypeDef::U8 => Td::Prim("u8"),
        IdlTypeDef::I8 => Td::Prim("i8"),
        IdlTypeDef::U16 => Td::Prim("u16"),
        IdlTypeDef::I16 => Td::Prim("i16"),
        IdlTypeDef::U32 => Td::Prim("u32"),
        IdlTypeDef::I32 => Td::Prim("i32"),
        IdlTypeDef::F32 => Td::Prim("f32"),
        IdlTypeDef::U64 => Td::Prim("u64"),
        IdlTypeDef::I64 => Td::Prim("i64"),
        IdlTypeDef::F64 => Td::Prim("f64"),
        IdlTypeDef::U128 => Td::Prim("u128"),
        IdlTypeDef::I128 => Td::Prim("i128"),
        IdlTypeDef::String => Td::Prim("string"),
        IdlTypeDef::Pubkey => Td::Prim("pubkey"),
        IdlTypeDef::RemainingBytes => Td::Prim("rest"),
        IdlTypeDef::FixedPoint { ty, frac } => Td::FixedPoint(b(ty), *frac),
        IdlTypeDef::Option { ty, fixed } => Td::Option(b(ty), *fixed),
        IdlTypeDef::List { len_ty, item_ty } => Td::List(b(len_ty), b(item_ty)),
        IdlTypeDef::UnsizedList { len_ty, offset_ty, item_ty } => Td::UnsizedList(b(len_ty), b(offset_ty), b(item_ty)),
        IdlTypeDef::Set { len_ty, item_ty } => Td::Set(b(len_ty), b(item_ty)),
        IdlTypeDef::Map { len_ty, key_ty, value_ty } => Td::Map(b(len_ty), b(key_ty), b(value_ty)),
        IdlTypeDef::Array(t, n) => Td::Array(b(t), *n),
        IdlTypeDef::Struct(fs) => Td::Struct(fs.iter().map(|f| td(&f.type_def)).collect()),
        IdlTypeDef::Enum { size, variants } => Td::Enum(b(size), variants.iter().map(|v| v.type_def.as_ref().map(td)).collect()),
    }
}

pub fn tid(id: &IdlTypeId) -> Tid {
    Tid { source: id.source.clone(), ns: id.namespace.clone(), gens: id.provided_generics.iter().map(td).collect() }
}

pub fn sd(s: &IdlAccountSetDef) -> Sd {
    match s {
        IdlAccountSetDef::Defined(id) => Sd::Defined {
            source: id.source.clone(),
            ty_gens: id.provided_type_generics.iter().map(td).collect(),
            acc_gens: id.provided_account_generics.iter().map(sd).collect(),
        },
        IdlAccountSetDef::Single(s) => {
            Sd::Single(s.program_accounts.iter().map(|a| Aid { source: a.source.clone(), ns: a.namespace.clone() }).collect())
        }
        IdlAccountSetDef::Struct(fs) => Sd::Struct(fs.iter().map(|f| sd(&f.account_set_def)).collect()),
        IdlAccountSetDef::Many { account_set, min, max } => Sd::Many(Box::new(sd(account_set)), *min, *max),
        IdlAccountSetDef::Or(bs) => Sd::Or(bs.iter().map(sd).collect()),
    }
}

/// The building lines of one definition (in table order; the interpreter re-sorts by key anyway).
pub fn lines(d: &IdlDefinition) -> Vec<Line> {
    let mut out = vec![Line::Def(d.metadata.crate_metadata.name.clone())];
    for (ext, table) in [(false, &d.types), (true, &d.external_types)] {
        for (k, t) in table {
            out.push(Line::Ty { ext, source: k.clone(), arity: t.generics.len(), td: td(&t.type_def) });
        }
    }
    for (k, s) in &d.account_sets {
        out.push(Line::Set { source: k.clone(), ty_arity: s.type_generics.len(), acc_arity: s.account_generics.len(), sd: sd(&s.account_set_def) });
    }
    for (k, a) in &d.accounts {
        out.push(Line::Acct {
            source: k.clone(),
            tid: tid(&a.type_id),
            seeds: a.seeds.as_ref().map(|ss| {
                ss.0.iter()
                    .map(|s| match s {
                        IdlSeed::Const(_) => Seed::Const,
                        IdlSeed::Variable { ty, .. } => Seed::Variable(td(ty)),
                    })
                    .collect()
            }),
        });
    }
    for (k, i) in &d.instructions {
        out.push(Line::Ix { source: k.clone(), tid: tid(&i.definition.type_id), sd: sd(&i.definition.account_set) });
    }
    out
}

/// (name, definitions) of every real IDL we can generate in-process.
#[cfg(feature = "real-idls")]
pub fn real_idls() -> Vec<(String, Vec<IdlDefinition>)> {
    use star_frame::idl::ProgramToIdl;
    let mut out = vec![];
    let mut push = |name: &str, r: Result<IdlDefinition, String>| match r {
        Ok(d) => out.push((name.to_string(), vec![d])),
        Err(e) => eprintln!("hx-idlver: real IDL `{name}` unavailable: {e}"),
    };
    push("system", hx_common::catch(|| star_frame::program::system::System::program_to_idl().map_err(|e| e.to_string())).and_then(|r| r));
    push("counter", hx_common::catch(|| counter::CounterProgram::program_to_idl().map_err(|e| e.to_string())).and_then(|r| r));
    push("simple_counter", hx_common::catch(|| simple_counter::CounterProgram::program_to_idl().map_err(|e| e.to_string())).and_then(|r| r));
    push("account_test", hx_common::catch(|| account_test::AccountTest::program_to_idl().map_err(|e| e.to_string())).and_then(|r| r));
    // a definition set: the program together with the System program it refers to
    let all: Vec<IdlDefinition> = out.iter().flat_map(|(_, ds)| ds.clone()).collect();
    if all.len() >= 2 {
        out.push(("all".to_string(), all));
    }
    out
}

#[cfg(not(feature = "real-idls"))]
pub fn real_idls() -> Vec<(String, Vec<IdlDefinition>)> {
    vec![]
}

/// Variant name of a real `IdlTypeDef` — an EXHAUSTIVE match on the real enum: a variant added to
/// `star_frame_idl` breaks the harness build until the `variant` family covers it.
pub fn td_variant_name(t: &IdlTypeDef) -> &'static str {
    match t {
        IdlTypeDef::Defined(_) => "Defined",
        IdlTypeDef::Generic(_) => "Generic",
        IdlTypeDef::Bool => "Bool",
        IdlTypeDef::U8 => "U8",
        IdlTypeDef::I8 => "I8",
        IdlTypeDef::U16 => "U16",
        IdlTypeDef::I16 => "I16",
        IdlTypeDef::U32 => "U32",
        IdlTypeDef::I32 => "I32",
        IdlTypeDef::F32 => "F32",
        IdlTypeDef::U64 => "U64",
        IdlTypeDef::I64 => "I64",
        IdlTypeDef::F64 => "F64",
        IdlTypeDef::U128 => "U128",
        IdlTypeDef::I128 => "I128",
        IdlTypeDef::String => "String",
        IdlTypeDef::Pubkey => "Pubkey",
        IdlTypeDef::FixedPoint { .. } => "FixedPoint",
        IdlTypeDef::Option { .. } => "Option",
        IdlTypeDef::RemainingBytes => "RemainingBytes",
        IdlTypeDef::List { .. } => "List",
        IdlTypeDef::UnsizedList { .. } => "UnsizedList",
        IdlTypeDef::Set { .. } => "Set",
        IdlTypeDef::Map { .. } => "Map",
        IdlTypeDef::Array(..) => "Array",
        IdlTypeDef::Struct(_) => "Struct",
        IdlTypeDef::Enum { .. } => "Enum",
    }
}

pub fn sd_variant_name(s: &IdlAccountSetDef) -> &'static str {
    match s {
        IdlAccountSetDef::Defined(_) => "Defined",
        IdlAccountSetDef::Single(_) => "Single",
        IdlAccountSetDef::Struct(_) => "Struct",
        IdlAccountSetDef::Many { .. } => "Many",
        IdlAccountSetDef::Or(_) => "Or",
    }
}

/// Every variant name the two functions above can return, with "holds references / nested definitions".
pub const TD_VARIANTS: [(&str, bool); 27] = [
    ("Defined", true), ("Generic", false), ("Bool", false), ("U8", false), ("I8", false), ("U16", false), ("I16", false),
    ("U32", false), ("I32", false), ("F32", false), ("U64", false), ("I64", false), ("F64", false), ("U128", false),
    ("I128", false), ("String", false), ("Pubkey", false), ("FixedPoint", true), ("Option", true), ("RemainingBytes", false),
    ("List", true), ("UnsizedList", true), ("Set", true), ("Map", true), ("Array", true), ("Struct", true), ("Enum", true),
];
pub const SD_VARIANTS: [(&str, bool); 5] = [("Defined", true), ("Single", true), ("Struct", true), ("Many", true), ("Or", true)];
