//! Mirror AST -> real `star_frame_idl` values, and the interpreter state (`Vec<IdlDefinition>`).
//! Inert metadata (descriptions, paths, variant names, discriminants, flags, find-seeds, versions)
//! is filled from a per-case PRNG: the verifier's answer must not depend on it.

use crate::ast::*;
use hx_common::Rng;
use star_frame_idl::{
    account::{IdlAccount, IdlAccountId},
    account_set::{IdlAccountSet, IdlAccountSetDef, IdlAccountSetId, IdlAccountSetStructField, IdlSingleAccountSet},
    instruction::{IdlInstruction, IdlInstructionDef},
    seeds::{IdlFindSeed, IdlFindSeeds, IdlSeed, IdlSeeds},
    ty::{IdlEnumVariant, IdlStructField, IdlType, IdlTypeDef, IdlTypeId},
    verifier::{verify_idl_definitions, verify_idl_definitions_strict, verify_idl_definitions_with_mode, VerificationMode},
    IdlDefinition, IdlGeneric, ItemInfo, Version,
};

pub struct Filler(pub Rng);

impl Filler {
    fn word(&mut self) -> String {
        const W: [&str; 8] = ["", "x", "Defined", "Many", "Or", "type_id", "program_accounts", "namespace"];
        (*self.0.pick(&W)).to_string()
    }
    fn desc(&mut self) -> Vec<String> {
        (0..self.0.below(3)).map(|_| self.word()).collect()
    }
    fn opt_word(&mut self) -> Option<String> {
        if self.0.chance(1, 2) {
            Some(self.word())
        } else {
            None
        }
    }
    fn disc(&mut self) -> Vec<u8> {
        let n = self.0.below(3) as usize;
        self.0.bytes(n)
    }
    fn generics(&mut self, n: usize) -> Vec<IdlGeneric> {
        (0..n).map(|i| IdlGeneric { name: format!("T{i}"), description: self.word(), generic_id: format!("T{i}") }).collect()
    }
    fn info(&mut self, source: &str) -> ItemInfo {
        ItemInfo { name: self.word(), source: source.to_string(), description: self.desc() }
    }

    pub fn td(&mut self, t: &Td) -> IdlTypeDef {
        let b = |s: &mut Self, t: &Td| Box::new(s.td(t));
        match t {
            Td::Defined(id) => IdlTypeDef::Defined(self.tid(id)),
            Td::Generic(n) => IdlTypeDef::Generic(n.clone()),
            Td::Prim(p) => match *p {
                "bool" => IdlTypeDef::Bool,
                "u8" => IdlTypeDef::U8,
                "i8" => IdlTypeDef::I8,
                "u16" => IdlTypeDef::U16,
                "i16" => IdlTypeDef::I16,
                "u32" => IdlTypeDef::U32,
                "i32" => IdlTypeDef::I32,
                "f32" => IdlTypeDef::F32,
                "u64" => IdlTypeDef::U64,
                "i64" => IdlTypeDef::I64,
                "f64" => IdlTypeDef::F64,
                "u128" => IdlTypeDef::U128,
                "i128" => IdlTypeDef::I128,
                "string" => IdlTypeDef::String,
                "pubkey" => IdlTypeDef::Pubkey,
                "rest" => IdlTypeDef::RemainingBytes,
                other => unreachable!("prim {other}"),
            },
            Td::FixedPoint(t, f) => IdlTypeDef::FixedPoint { ty: b(self, t), frac: *f },
            Td::Option(t, fixed) => IdlTypeDef::Option { ty: b(self, t), fixed: *fixed },
            Td::List(l, i) => IdlTypeDef::List { len_ty: b(self, l), item_ty: b(self, i) },
            Td::UnsizedList(l, o, i) => {
                IdlTypeDef::UnsizedList { len_ty: b(self, l), offset_ty: b(self, o), item_ty: b(self, i) }
            }
            Td::Set(l, i) => IdlTypeDef::Set { len_ty: b(self, l), item_ty: b(self, i) },
            Td::Map(l, k, v) => IdlTypeDef::Map { len_ty: b(self, l), key_ty: b(self, k), value_ty: b(self, v) },
            Td::Array(t, n) => IdlTypeDef::Array(b(self, t), *n),
            Td::Struct(fs) => IdlTypeDef::Struct(
                fs.iter()
                    .map(|f| IdlStructField { path: self.opt_word(), description: self.desc(), type_def: self.td(f) })
                    .collect(),
            ),
            Td::Enum(sz, vs) => IdlTypeDef::Enum {
                size: b(self, sz),
                variants: vs
                    .iter()
                    .map(|v| IdlEnumVariant {
                        name: self.word(),
                        discriminant: self.disc(),
                        description: self.desc(),
                        type_def: v.as_ref().map(|t| self.td(t)),
                    })
                    .collect(),
            },
        }
    }
    pub fn tid(&mut self, id: &Tid) -> IdlTypeId {
        IdlTypeId {
            source: id.source.clone(),
            namespace: id.ns.clone(),
            provided_generics: id.gens.iter().map(|g| self.td(g)).collect(),
        }
    }
    pub fn sd(&mut self, s: &Sd) -> IdlAccountSetDef {
        match s {
            Sd::Defined { source, ty_gens, acc_gens } => IdlAccountSetDef::Defined(IdlAccountSetId {
                source: source.clone(),
                provided_type_generics: ty_gens.iter().map(|g| self.td(g)).collect(),
                provided_account_generics: acc_gens.iter().map(|g| self.sd(g)).collect(),
            }),
            Sd::Single(accts) => IdlAccountSetDef::Single(IdlSingleAccountSet {
                writable: self.0.chance(1, 2),
                signer: self.0.chance(1, 2),
                optional: self.0.chance(1, 2),
                is_init: self.0.chance(1, 2),
                program_accounts: accts.iter().map(|a| IdlAccountId { namespace: a.ns.clone(), source: a.source.clone() }).collect(),
                seeds: if self.0.chance(1, 3) {
                    Some(IdlFindSeeds {
                        seeds: vec![IdlFindSeed::Const(self.disc()), IdlFindSeed::AccountPath(self.word())],
                        program: None,
                    })
                } else {
                    None
                },
                address: None,
            }),
            Sd::Struct(fs) => IdlAccountSetDef::Struct(
                fs.iter()
                    .map(|f| IdlAccountSetStructField {
                        path: self.opt_word(),
                        description: self.desc(),
                        account_set_def: self.sd(f),
                    })
                    .collect(),
            ),
            Sd::Many(a, mn, mx) => IdlAccountSetDef::Many { account_set: Box::new(self.sd(a)), min: *mn, max: *mx },
            Sd::Or(bs) => IdlAccountSetDef::Or(bs.iter().map(|b| self.sd(b)).collect()),
        }
    }
}

pub fn new_definition(ns: &str, f: &mut Filler) -> IdlDefinition {
    let mut d = IdlDefinition::default();
    d.metadata.crate_metadata.name = ns.to_string();
    d.metadata.crate_metadata.version = Version::new(f.0.below(3), f.0.below(3), 0);
    d.metadata.crate_metadata.docs = f.desc();
    d.metadata.crate_metadata.description = f.opt_word();
    d
}

/// Apply a building line to the state. `false` = inapplicable (no current definition).
pub fn apply(defs: &mut Vec<IdlDefinition>, line: &Line, f: &mut Filler) -> bool {
    if let Line::Def(ns) = line {
        defs.push(new_definition(ns, f));
        return true;
    }
    let Some(d) = defs.last_mut() else { return false };
    match line {
        Line::Ty { ext, source, arity, td } => {
            let t = IdlType { info: f.info(source), generics: f.generics(*arity), type_def: f.td(td) };
            if *ext {
                d.external_types.insert(source.clone(), t);
            } else {
                d.types.insert(source.clone(), t);
            }
        }
        Line::Set { source, ty_arity, acc_arity, sd } => {
            let s = IdlAccountSet {
                info: f.info(source),
                type_generics: f.generics(*ty_arity),
                account_generics: f.generics(*acc_arity),
                account_set_def: f.sd(sd),
            };
            d.account_sets.insert(source.clone(), s);
        }
        Line::Acct { source, tid, seeds } => {
            let a = IdlAccount {
                discriminant: f.disc(),
                type_id: f.tid(tid),
                seeds: seeds.as_ref().map(|ss| {
                    IdlSeeds(
                        ss.iter()
                            .map(|s| match s {
                                Seed::Const => IdlSeed::Const(f.disc()),
                                Seed::Variable(t) => IdlSeed::Variable { name: f.word(), description: f.desc(), ty: f.td(t) },
                            })
                            .collect(),
                    )
                }),
            };
            d.accounts.insert(source.clone(), a);
        }
        Line::Ix { source, tid, sd } => {
            let i = IdlInstruction {
                discriminant: f.disc(),
                definition: IdlInstructionDef { account_set: f.sd(sd), type_id: f.tid(tid) },
            };
            d.instructions.insert(source.clone(), i);
        }
        _ => return false,
    }
    true
}

/// Canonical answer of the real verifier: `ok` | `err SFIDLnnn` | `err:other` | `panic`.
pub fn classify(r: Result<star_frame_idl::Result<()>, String>) -> String {
    match r {
        Err(_) => "panic".into(),
        Ok(Ok(())) => "ok".into(),
        Ok(Err(e)) => {
            let msg = e.to_string();
            match (msg.find("Verifier error ["), msg.find("]: ")) {
                (Some(a), Some(b)) if a + 16 <= b => format!("err {}", &msg[a + 16..b]),
                _ => "err:other".into(),
            }
        }
    }
}

/// Run the real verifier through the public entry point of the mode.
pub fn run_verify(defs: &[&IdlDefinition], mode: Mode) -> String {
    let v: Vec<&IdlDefinition> = defs.to_vec();
    let a = classify(hx_common::catch(|| match mode {
        Mode::Compat => verify_idl_definitions(v.iter().copied()),
        Mode::Strict => verify_idl_definitions_strict(v.iter().copied()),
    }));
    a
}

/// The same through `verify_idl_definitions_with_mode` (must agree with the two wrappers).
pub fn run_verify_with_mode(defs: &[&IdlDefinition], mode: Mode) -> String {
    let v: Vec<&IdlDefinition> = defs.to_vec();
    classify(hx_common::catch(|| {
        verify_idl_definitions_with_mode(
            v.iter().copied(),
            match mode {
                Mode::Compat => VerificationMode::Compatibility,
                Mode::Strict => VerificationMode::StrictGraph,
            },
        )
    }))
}
