//! Independent property oracle: the declarative soundness conditions of C18 evaluated on the
//! *serialised* definitions (`serde_json::to_value`), NOT on the verifier's own walk.
//!
//! Every reference at any nesting depth is found by a generic walk of the JSON tree that knows
//! nothing about which fields of which variants hold references — it only recognises the five
//! shapes the property speaks about, by their serde tags:
//!   * `"type_id": {...}` and `"Defined": {... "namespace" ...}`      -> a type reference
//!   * `"Defined": {...}` without a `namespace` field                  -> an account-set reference
//!   * `"program_accounts": [ {...}, … ]`                              -> account references
//!   * `"Many": {min, max}`                                            -> a bounded repetition
//!   * `"Or": [ … ]`                                                   -> an alternative list
//! so a position the verifier's match forgot is still seen here.

use crate::ast::Mode;
use serde_json::Value;
use star_frame_idl::IdlDefinition;
use std::collections::BTreeSet;

pub const EMPTY_NS: &str = "SFIDL001";
pub const DUP_NS: &str = "SFIDL002";
pub const MISSING_NS: &str = "SFIDL003";
pub const MISSING_TYPE: &str = "SFIDL004";
pub const TYPE_ARITY: &str = "SFIDL005";
pub const MISSING_SET: &str = "SFIDL006";
pub const SET_TYPE_ARITY: &str = "SFIDL007";
pub const SET_ACC_ARITY: &str = "SFIDL008";
pub const MISSING_ACCOUNT: &str = "SFIDL009";
pub const MANY_BOUNDS: &str = "SFIDL010";
pub const EMPTY_OR: &str = "SFIDL011";

#[derive(Debug, Clone, PartialEq, Eq)]
pub enum Found {
    TypeRef { source: String, ns: Option<String>, arity: usize },
    SetRef { source: String, ty_arity: usize, acc_arity: usize },
    AccountRef { source: String, ns: Option<String> },
    Many { min: u64, max: Option<u64> },
    Or { len: usize },
}

fn arr_len(v: &Value, key: &str) -> usize {
    v.get(key).and_then(|x| x.as_array()).map(|a| a.len()).unwrap_or(0)
}
fn opt_str(v: &Value, key: &str) -> Option<String> {
    v.get(key).and_then(|x| x.as_str()).map(|s| s.to_string())
}
fn str_of(v: &Value, key: &str) -> String {
    opt_str(v, key).unwrap_or_default()
}

fn type_ref(v: &Value) -> Found {
    Found::TypeRef { source: str_of(v, "source"), ns: opt_str(v, "namespace"), arity: arr_len(v, "provided_generics") }
}

/// Generic walk: recognise the five shapes anywhere, recurse into everything.
pub fn collect(v: &Value, out: &mut Vec<Found>) {
    match v {
        Value::Object(m) => {
            for (k, child) in m {
                match k.as_str() {
                    "type_id" => out.push(type_ref(child)),
                    "Defined" => {
                        if child.get("namespace").is_some() {
                            out.push(type_ref(child));
                        } else {
                            out.push(Found::SetRef {
                                source: str_of(child, "source"),
                                ty_arity: arr_len(child, "provided_type_generics"),
                                acc_arity: arr_len(child, "provided_account_generics"),
                            });
                        }
                    }
                    "program_accounts" => {
                        for a in child.as_array().into_iter().flatten() {
                            out.push(Found::AccountRef { source: str_of(a, "source"), ns: opt_str(a, "namespace") });
                        }
                    }
                    "Many" => out.push(Found::Many {
                        min: child.get("min").and_then(|x| x.as_u64()).unwrap_or(0),
                        max: child.get("max").and_then(|x| x.as_u64()),
                    }),
                    "Or" => out.push(Found::Or { len: child.as_array().map(|a| a.len()).unwrap_or(0) }),
                    _ => {}
                }
                collect(child, out);
            }
        }
        Value::Array(a) => a.iter().for_each(|x| collect(x, out)),
        _ => {}
    }
}

pub struct DefView {
    pub json: Value,
    pub key: String,
}

impl DefView {
    pub fn new(d: &IdlDefinition) -> DefView {
        let json = serde_json::to_value(d).expect("IdlDefinition serialises");
        let key = json["metadata"]["name"].as_str().unwrap_or("").trim().to_string();
        DefView { json, key }
    }
    /// declared generic count of type `source` (own types shadow embedded external ones)
    fn type_arity(&self, source: &str) -> Option<usize> {
        for table in ["types", "external_types"] {
            if let Some(t) = self.json[table].get(source) {
                return Some(arr_len(t, "generics"));
            }
        }
        None
    }
    fn set_arities(&self, source: &str) -> Option<(usize, usize)> {
        self.json["account_sets"].get(source).map(|s| (arr_len(s, "type_generics"), arr_len(s, "account_generics")))
    }
    fn has_account(&self, source: &str) -> bool {
        self.json["accounts"].get(source).is_some()
    }
    pub fn items(&self) -> Vec<Found> {
        let mut out = vec![];
        for table in ["types", "external_types", "account_sets", "accounts", "instructions"] {
            // the tables are keyed by user strings: walk the values only
            for v in self.json[table].as_object().into_iter().flat_map(|m| m.values()) {
                collect(v, &mut out);
            }
        }
        out
    }
}

/// The set of rule ids that are violated by the definition set under `mode`
/// (empty set <=> structurally sound).
pub fn violated(views: &[DefView], mode: Mode) -> BTreeSet<&'static str> {
    let mut v = BTreeSet::new();
    if views.iter().any(|d| d.key.is_empty()) {
        v.insert(EMPTY_NS);
    }
    for (i, d) in views.iter().enumerate() {
        if views[..i].iter().any(|e| e.key == d.key) {
            v.insert(DUP_NS);
        }
    }
    let provided = |n: &str| views.iter().find(|d| d.key == n);
    for cur in views {
        for it in cur.items() {
            match it {
                Found::TypeRef { source, ns, arity } => {
                    // which declaration does the reference denote under this mode?
                    let target: Result<usize, &'static str> = match (&ns, mode) {
                        (None, _) => cur.type_arity(&source).ok_or(MISSING_TYPE),
                        (Some(n), Mode::Strict) => match provided(n) {
                            None => Err(MISSING_NS),
                            Some(p) => p.type_arity(&source).ok_or(MISSING_TYPE),
                        },
                        (Some(n), Mode::Compat) => match cur.type_arity(&source) {
                            Some(a) => Ok(a),
                            None => match provided(n) {
                                None => Err(MISSING_NS),
                                Some(p) => p.type_arity(&source).ok_or(MISSING_TYPE),
                            },
                        },
                    };
                    match target {
                        Err(r) => {
                            v.insert(r);
                        }
                        Ok(declared) if declared != arity => {
                            v.insert(TYPE_ARITY);
                        }
                        Ok(_) => {}
                    }
                }
                Found::SetRef { source, ty_arity, acc_arity } => match cur.set_arities(&source) {
                    None => {
                        v.insert(MISSING_SET);
                    }
                    Some((t, a)) => {
                        if t != ty_arity {
                            v.insert(SET_TYPE_ARITY);
                        }
                        if a != acc_arity {
                            v.insert(SET_ACC_ARITY);
                        }
                    }
                },
                Found::AccountRef { source, ns } => {
                    let r: Result<(), &'static str> = match (&ns, mode) {
                        (None, _) => cur.has_account(&source).then_some(()).ok_or(MISSING_ACCOUNT),
                        (Some(n), Mode::Strict) => match provided(n) {
                            None => Err(MISSING_NS),
                            Some(p) => p.has_account(&source).then_some(()).ok_or(MISSING_ACCOUNT),
                        },
                        (Some(n), Mode::Compat) => {
                            if cur.has_account(&source) {
                                Ok(())
                            } else {
                                match provided(n) {
                                    None => Err(MISSING_NS),
                                    Some(p) => p.has_account(&source).then_some(()).ok_or(MISSING_ACCOUNT),
                                }
                            }
                        }
                    };
                    if let Err(r) = r {
                        v.insert(r);
                    }
                }
                Found::Many { min, max } => {
                    if matches!(max, Some(mx) if mx < min) {
                        v.insert(MANY_BOUNDS);
                    }
                }
                Found::Or { len } => {
                    if len == 0 {
                        v.insert(EMPTY_OR);
                    }
                }
            }
        }
    }
    v
}

/// Number of checkable items (for the non-triviality rule and the input distribution).
pub fn item_count(views: &[DefView]) -> usize {
    views.iter().map(|d| d.items().len()).sum()
}
