//! Generates the C11 program zoo:
//!  * one `#[derive(AccountSet)]` struct for EVERY acyclic `requires` graph on 3 and 4 fields
//!    (25 + 543 labelled DAGs) and for seeded-random DAGs on 5 fields (HX_C11_DAG5, default 120),
//!    plus a few small structs without `requires` (0, 1, 2 fields);
//!  * "feature" account sets: struct-level `before_validation` / `extra_validation` /
//!    `extra_cleanup` hooks (instrumented), `#[validate(skip)]` fields, `#[account_set(skip = ..)]`
//!    fields, funder / recipient marks, NESTED derived sets (depth up to 3, `requires` at every
//!    level), structs with a second validate / decode / cleanup id (`#[validate(id = "alt", ..)]`,
//!    `#[decode(id = "alt", ..)]`, `#[cleanup(id = "alt", ..)]`), container fields (`Option<T>`,
//!    `Vec<T>` with a decode length, `[T; N]`, `Rest<T>`, `Box<T>`), `#[single_account_set]`
//!    wrappers, tuple structs, generic structs, and field-level `address` / `temp` / `arg`;
//!  * 14 "dispatch" instruction sets (1..6 instructions; default sighash discriminants and
//!    `use_repr` with u8/u16/u32/u64, implicit and explicit values with gaps, one with an
//!    expression discriminant) and the "zoo" instruction sets that make every generated account
//!    set reachable through `StarFrameProgram::entrypoint`;
//!  * the metadata table `SETS` describing what was declared (the oracle's source of truth).
use std::{env, fmt::Write as _, fs, path::PathBuf};

struct Rng(u64);
impl Rng {
    fn next(&mut self) -> u64 {
        self.0 = self.0.wrapping_add(0x9E37_79B9_7F4A_7C15);
        let mut z = self.0;
        z = (z ^ (z >> 30)).wrapping_mul(0xBF58_476D_1CE4_E5B9);
        z = (z ^ (z >> 27)).wrapping_mul(0x94D0_49BB_1331_11EB);
        z ^ (z >> 31)
    }
    fn below(&mut self, n: u64) -> u64 {
        self.next() % n
    }
    fn chance(&mut self, pct: u64) -> bool {
        self.below(100) < pct
    }
}

/// `req[f]` = list of fields that `f` requires (may contain duplicates for some 5-field graphs).
type Graph = Vec<Vec<usize>>;

fn acyclic(g: &Graph) -> bool {
    let n = g.len();
    let mut placed = vec![false; n];
    for _ in 0..n {
        let Some(f) = (0..n).find(|&f| !placed[f] && g[f].iter().all(|&r| placed[r])) else {
            return false;
        };
        placed[f] = true;
    }
    true
}

fn all_dags(n: usize) -> Vec<Graph> {
    let pairs: Vec<(usize, usize)> = (0..n).flat_map(|f| (0..n).filter(move |&r| r != f).map(move |r| (f, r))).collect();
    let mut out = vec![];
    for mask in 0u32..(1 << pairs.len()) {
        let mut g: Graph = vec![vec![]; n];
        for (i, &(f, r)) in pairs.iter().enumerate() {
            if mask >> i & 1 == 1 {
                g[f].push(r);
            }
        }
        if acyclic(&g) {
            out.push(g);
        }
    }
    out
}

/// random DAG on `n` nodes (edges only backwards in a random topological order)
fn random_dag(n: usize, rng: &mut Rng, dups: bool) -> Graph {
    let mut perm: Vec<usize> = (0..n).collect();
    for i in (1..n).rev() {
        perm.swap(i, rng.below(i as u64 + 1) as usize);
    }
    let density = 1 + rng.below(4); // out of 5
    let mut g: Graph = vec![vec![]; n];
    for i in 0..n {
        for j in 0..i {
            if rng.below(5) < density {
                g[perm[i]].push(perm[j]);
            }
        }
        // list order of the requires is arbitrary in real programs
        let k = g[perm[i]].len();
        for a in (1..k).rev() {
            let b = rng.below(a as u64 + 1) as usize;
            g[perm[i]].swap(a, b);
        }
        // occasionally name a required field twice
        if dups && k > 0 && rng.below(8) == 0 {
            let d = g[perm[i]][0];
            g[perm[i]].push(d);
        }
    }
    assert!(acyclic(&g));
    g
}

fn random_dags5(count: usize) -> Vec<Graph> {
    let mut rng = Rng(0xC11_5EED);
    let mut out: Vec<Graph> = vec![];
    while out.len() < count {
        let g = random_dag(5, &mut rng, true);
        if !out.contains(&g) {
            out.push(g);
        }
    }
    out
}

const FIELD: [&str; 6] = ["a", "b", "c", "d", "e", "f"];

// ------------------------------------------------------------------------------------------------
// account-set declarations
// ------------------------------------------------------------------------------------------------

#[derive(Clone)]
enum Ty {
    /// `Probe<pid>`
    Leaf(u32),
    Struct(Box<StructDef>),
    /// `#[account_set(skip = 7u8)] x: u8` — takes part in nothing
    Plain,
    Opt(Box<Ty>),
    /// `Vec<T>` with `#[decode(arg = n)]` (and `#[decode(id = "alt", arg = m)]`)
    VecN(usize, Option<usize>, Box<Ty>),
    Arr(usize, Box<Ty>),
    Rest(Box<Ty>),
    Boxed(Box<Ty>),
}

#[derive(Clone)]
struct FieldDef {
    requires: Vec<usize>,
    skip: bool,
    funder: bool,
    recipient: bool,
    addr: bool,
    temp: bool,
    arg: bool,
    /// requires / skip under the second validate id
    alt: Option<(Vec<usize>, bool)>,
    ty: Ty,
}

impl FieldDef {
    fn of(ty: Ty, requires: Vec<usize>) -> Self {
        FieldDef { requires, skip: false, funder: false, recipient: false, addr: false, temp: false, arg: false, alt: None, ty }
    }
    fn leaf(requires: Vec<usize>) -> Self {
        Self::of(Ty::Leaf(0), requires)
    }
}

#[derive(Clone, Copy, PartialEq, Default)]
enum Shape {
    #[default]
    Named,
    /// `struct T(A, B);` (no `requires`: they name idents)
    Tuple,
    /// `struct G<T0, T1> where .. { a: T0, b: T1 }`
    Generic,
    /// `struct W(#[single_account_set] Inner);`
    Single,
}

#[derive(Clone, Default)]
struct StructDef {
    shape: Shape,
    before: bool,
    extra: bool,
    cextra: bool,
    /// second validate id: (before, extra)
    alt: Option<(bool, bool)>,
    /// second decode id (`#[decode(id = "alt", arg = Alt)]`)
    dalt: bool,
    /// second cleanup id: extra_cleanup under it
    calt: Option<bool>,
    fields: Vec<FieldDef>,
    sid: u32,
    name: String,
}

fn flat(g: &Graph) -> StructDef {
    StructDef { fields: g.iter().map(|r| FieldDef::leaf(r.clone())).collect(), ..Default::default() }
}

struct Ids {
    root: String,
    pid: u32,
    sid: u32,
    inner: u32,
}

fn assign_ty(t: &mut Ty, ids: &mut Ids) {
    match t {
        Ty::Leaf(p) => {
            *p = ids.pid;
            ids.pid += 1;
        }
        Ty::Struct(s) => {
            let name = format!("{}_i{}", ids.root, ids.inner);
            ids.inner += 1;
            assign(s, name, ids);
        }
        Ty::Plain => {}
        Ty::Opt(t) | Ty::VecN(_, _, t) | Ty::Arr(_, t) | Ty::Rest(t) | Ty::Boxed(t) => assign_ty(t, ids),
    }
}
fn assign(s: &mut StructDef, name: String, ids: &mut Ids) {
    s.name = name;
    s.sid = ids.sid;
    ids.sid += 1;
    for f in &mut s.fields {
        assign_ty(&mut f.ty, ids);
    }
}

/// Rust type of a field; emits the declarations of the structs it contains.
fn rust_ty(t: &Ty, src: &mut String) -> String {
    match t {
        Ty::Leaf(p) => format!("Probe<{p}>"),
        Ty::Struct(s) => emit_struct(s, src),
        Ty::Plain => "u8".into(),
        Ty::Opt(t) => format!("Option<{}>", rust_ty(t, src)),
        Ty::VecN(_, _, t) => format!("Vec<{}>", rust_ty(t, src)),
        Ty::Arr(n, t) => format!("[{}; {n}]", rust_ty(t, src)),
        Ty::Rest(t) => format!("Rest<{}>", rust_ty(t, src)),
        Ty::Boxed(t) => format!("Box<{}>", rust_ty(t, src)),
    }
}

/// Emits the declaration of `s` (inner structs first); returns the type to use for it.
fn emit_struct(s: &StructDef, src: &mut String) -> String {
    let sid = s.sid;
    let mut decls = String::new();
    let mut generic_args: Vec<String> = vec![];
    for (i, f) in s.fields.iter().enumerate() {
        let fname = FIELD[i];
        let mut ty = rust_ty(&f.ty, src);
        let me = if s.shape == Shape::Tuple || s.shape == Shape::Single { format!("self.{i}") } else { format!("self.{fname}") };
        if let Ty::Plain = f.ty {
            writeln!(decls, "    #[account_set(skip = 7u8)]").unwrap();
        }
        if s.shape == Shape::Single {
            writeln!(decls, "    #[single_account_set]").unwrap();
        }
        let mut args: Vec<String> = vec![];
        if !f.requires.is_empty() {
            args.push(format!("requires = [{}]", f.requires.iter().map(|&r| FIELD[r]).collect::<Vec<_>>().join(", ")));
        }
        for (b, k) in [(f.skip, "skip"), (f.funder, "funder"), (f.recipient, "recipient")] {
            if b {
                args.push(k.into());
            }
        }
        if f.addr {
            args.push(format!("address = &addr_log(&{me})"));
        }
        if f.temp {
            args.push(format!("temp = tlog(&{me})"));
        }
        if f.arg {
            args.push(format!("arg = alog(&{me})"));
        }
        if !args.is_empty() {
            writeln!(decls, "    #[validate({})]", args.join(", ")).unwrap();
        }
        if let Some((req, skip)) = &f.alt {
            let mut args = vec!["id = \"alt\"".to_string()];
            if !req.is_empty() {
                args.push(format!("requires = [{}]", req.iter().map(|&r| FIELD[r]).collect::<Vec<_>>().join(", ")));
            }
            if *skip {
                args.push("skip".into());
            }
            if args.len() > 1 {
                writeln!(decls, "    #[validate({})]", args.join(", ")).unwrap();
            }
        }
        if let Ty::VecN(n, m, _) = &f.ty {
            writeln!(decls, "    #[decode(arg = {n})]").unwrap();
            if let (Some(m), true) = (m, s.dalt) {
                writeln!(decls, "    #[decode(id = \"alt\", arg = {m})]").unwrap();
            }
        }
        if s.shape == Shape::Generic && !matches!(f.ty, Ty::Plain | Ty::VecN(..)) {
            generic_args.push(ty.clone());
            ty = format!("T{}", generic_args.len() - 1);
        }
        match s.shape {
            Shape::Tuple | Shape::Single => writeln!(decls, "    pub {ty},").unwrap(),
            _ => writeln!(decls, "    pub {fname}: {ty},").unwrap(),
        }
    }
    let hook = |k: &str, ph: &str| format!("{k} = hook(Ph::{ph}, {sid})");
    writeln!(src, "#[derive(AccountSet)]").unwrap();
    writeln!(src, "#[account_set(skip_client_account_set, skip_cpi_account_set, skip_default_idl)]").unwrap();
    let mut v: Vec<String> = vec![];
    if s.before {
        v.push(hook("before_validation", "VBefore"));
    }
    if s.extra {
        v.push(hook("extra_validation", "VExtra"));
    }
    if !v.is_empty() {
        writeln!(src, "#[validate({})]", v.join(", ")).unwrap();
    }
    if let Some((b, e)) = s.alt {
        let mut v = vec!["id = \"alt\"".to_string(), "arg = Alt".to_string()];
        if b {
            v.push(hook("before_validation", "VBefore"));
        }
        if e {
            v.push(hook("extra_validation", "VExtra"));
        }
        writeln!(src, "#[validate({})]", v.join(", ")).unwrap();
    }
    if s.dalt {
        writeln!(src, "#[decode(id = \"alt\", arg = Alt)]").unwrap();
    }
    if s.cextra {
        writeln!(src, "#[cleanup({})]", hook("extra_cleanup", "CExtra")).unwrap();
    }
    if let Some(x) = s.calt {
        let mut v = vec!["id = \"alt\"".to_string(), "arg = Alt".to_string()];
        if x {
            v.push(hook("extra_cleanup", "CExtra"));
        }
        writeln!(src, "#[cleanup({})]", v.join(", ")).unwrap();
    }
    let name = &s.name;
    match s.shape {
        Shape::Named => writeln!(src, "pub struct {name} {{\n{decls}}}").unwrap(),
        Shape::Tuple | Shape::Single => writeln!(src, "pub struct {name}(\n{decls});").unwrap(),
        Shape::Generic => {
            let params: Vec<String> = (0..generic_args.len()).map(|i| format!("T{i}")).collect();
            let bounds: Vec<String> = params
                .iter()
                .map(|p| format!("    {p}: for<'x> AccountSetDecode<'x, ()> + AccountSetValidate<()> + AccountSetCleanup<()>,"))
                .collect();
            writeln!(src, "pub struct {name}<{}>\nwhere\n{}\n{{\n{decls}}}", params.join(", "), bounds.join("\n")).unwrap();
        }
    }
    if s.shape == Shape::Generic {
        format!("{name}<{}>", generic_args.join(", "))
    } else {
        name.clone()
    }
}

/// which id each phase of the ROOT uses
#[derive(Clone, Copy, Default)]
struct IdSel {
    d: bool,
    v: bool,
    c: bool,
}

fn ty_token(t: &Ty, root: Option<IdSel>, out: &mut String) {
    match t {
        Ty::Leaf(p) => write!(out, "L{p}").unwrap(),
        Ty::Struct(s) => struct_token(s, None, out),
        Ty::Plain => unreachable!(),
        Ty::Opt(t) => {
            out.push('O');
            ty_token(t, None, out);
        }
        Ty::VecN(n, m, t) => {
            let len = if root.is_some_and(|r| r.d) { m.unwrap_or(*n) } else { *n };
            write!(out, "V{len}*").unwrap();
            ty_token(t, None, out);
        }
        Ty::Arr(n, t) => {
            write!(out, "V{n}*").unwrap();
            ty_token(t, None, out);
        }
        Ty::Rest(t) => {
            out.push('R');
            ty_token(t, None, out);
        }
        Ty::Boxed(t) => ty_token(t, None, out),
    }
}

/// The model token of the tree; `sel` is `Some` for the root (whose ids the instruction selects).
fn struct_token(s: &StructDef, sel: Option<IdSel>, out: &mut String) {
    let r = sel.unwrap_or_default();
    let (b, e) = if r.v { s.alt.unwrap_or((false, false)) } else { (s.before, s.extra) };
    let x = if r.c { s.calt.unwrap_or(false) } else { s.cextra };
    let fl: String = [(b, 'b'), (e, 'e'), (x, 'x')].iter().filter(|x| x.0).map(|x| x.1).collect();
    write!(out, "N{}{fl}(", s.sid).unwrap();
    let mut first = true;
    for (i, f) in s.fields.iter().enumerate() {
        if let Ty::Plain = f.ty {
            continue;
        }
        if !first {
            out.push(',');
        }
        first = false;
        let (req, skip, funder, recipient, addr, temp, arg) = if r.v {
            let (q, s) = f.alt.clone().unwrap_or((vec![], false));
            (q, s, false, false, false, false, false)
        } else {
            (f.requires.clone(), f.skip, f.funder, f.recipient, f.addr, f.temp, f.arg)
        };
        write!(out, "{i}").unwrap();
        for q in &req {
            write!(out, "<{q}").unwrap();
        }
        let fl: String = [(skip, 's'), (funder, 'f'), (recipient, 'r'), (addr, 'a'), (temp, 't'), (arg, 'g')]
            .iter()
            .filter(|x| x.0)
            .map(|x| x.1)
            .collect();
        if !fl.is_empty() {
            write!(out, "!{fl}").unwrap();
        }
        out.push('=');
        ty_token(&f.ty, sel.map(|_| r), out);
    }
    out.push(')');
}

/// random nested struct
fn random_struct(depth: usize, rng: &mut Rng, budget: &mut i32) -> StructDef {
    let n = if depth == 0 { 2 + rng.below(3) as usize } else { 1 + rng.below(3) as usize };
    let g = random_dag(n, rng, false);
    let mut fields: Vec<FieldDef> = g
        .iter()
        .map(|req| {
            let ty = if depth < 2 && *budget > 3 && rng.chance(if depth == 0 { 45 } else { 25 }) {
                Ty::Struct(Box::new(random_struct(depth + 1, rng, budget)))
            } else {
                *budget -= 1;
                Ty::Leaf(0)
            };
            FieldDef { skip: rng.chance(12), ..FieldDef::of(ty, req.clone()) }
        })
        .collect();
    let leaves: Vec<usize> = (0..n).filter(|&i| matches!(fields[i].ty, Ty::Leaf(_))).collect();
    if !leaves.is_empty() && rng.chance(50) {
        let i = leaves[rng.below(leaves.len() as u64) as usize];
        fields[i].funder = true;
    }
    if !leaves.is_empty() && rng.chance(40) {
        let i = leaves[rng.below(leaves.len() as u64) as usize];
        fields[i].recipient = true;
    }
    // a plain (decode-skipped) field; `requires` indices refer to positions, so append it
    if n < FIELD.len() - 1 && rng.chance(15) {
        fields.push(FieldDef::of(Ty::Plain, vec![]));
    }
    StructDef { before: rng.chance(40), extra: rng.chance(40), cextra: rng.chance(30), fields, ..Default::default() }
}

/// a small hook-less struct of leaves usable as a container element
fn elem_struct(rng: &mut Rng) -> StructDef {
    let n = 2 + rng.below(2) as usize;
    flat(&random_dag(n, rng, false))
}

/// random struct with container / wrapper / attribute features (round 3)
fn random_container_struct(depth: usize, rng: &mut Rng) -> StructDef {
    let n = if depth == 0 { 3 + rng.below(3) as usize } else { 1 + rng.below(3) as usize };
    let shape = match rng.below(10) {
        0 | 1 if depth > 0 => Shape::Tuple,
        2 | 3 => Shape::Generic,
        _ => Shape::Named,
    };
    let g = if shape == Shape::Tuple { vec![vec![]; n] } else { random_dag(n, rng, false) };
    let elem = |rng: &mut Rng| -> Ty {
        match rng.below(4) {
            0 => Ty::Struct(Box::new(elem_struct(rng))),
            1 => Ty::Opt(Box::new(Ty::Leaf(0))),
            _ => Ty::Leaf(0),
        }
    };
    let mut fields: Vec<FieldDef> = vec![];
    for (i, req) in g.iter().enumerate() {
        let last = i + 1 == n;
        let ty = match rng.below(12) {
            0 | 1 => Ty::Opt(Box::new(if rng.chance(50) { Ty::Leaf(0) } else { Ty::Struct(Box::new(elem_struct(rng))) })),
            2 => Ty::VecN(rng.below(4) as usize, if rng.chance(50) { Some(rng.below(3) as usize) } else { None }, Box::new(elem(rng))),
            3 => Ty::Arr(1 + rng.below(3) as usize, Box::new(elem(rng))),
            4 if depth < 2 => Ty::Struct(Box::new(random_container_struct(depth + 1, rng))),
            5 => Ty::Boxed(Box::new(if rng.chance(50) { Ty::Leaf(0) } else { Ty::Struct(Box::new(elem_struct(rng))) })),
            6 => {
                // `#[single_account_set]` wrapper (possibly two levels) with its own hooks
                let w = |inner: Ty, rng: &mut Rng| StructDef {
                    shape: Shape::Single,
                    before: rng.chance(50),
                    extra: rng.chance(50),
                    cextra: rng.chance(30),
                    fields: vec![FieldDef::of(inner, vec![])],
                    ..Default::default()
                };
                let w1 = w(Ty::Leaf(0), rng);
                if rng.chance(30) {
                    let w2 = w(Ty::Struct(Box::new(w1)), rng);
                    Ty::Struct(Box::new(w2))
                } else {
                    Ty::Struct(Box::new(w1))
                }
            }
            7 if last && depth == 0 => Ty::Rest(Box::new(if rng.chance(60) { Ty::Leaf(0) } else { Ty::Opt(Box::new(Ty::Leaf(0))) })),
            _ => Ty::Leaf(0),
        };
        let mut f = FieldDef::of(ty, req.clone());
        f.skip = rng.chance(8);
        if matches!(f.ty, Ty::Leaf(_)) && shape != Shape::Generic {
            f.addr = rng.chance(30);
            f.arg = rng.chance(35);
            f.temp = f.arg && rng.chance(60);
        }
        fields.push(f);
    }
    if shape != Shape::Generic {
        let leaves: Vec<usize> = (0..n).filter(|&i| matches!(fields[i].ty, Ty::Leaf(_))).collect();
        if !leaves.is_empty() && rng.chance(40) {
            let i = leaves[rng.below(leaves.len() as u64) as usize];
            fields[i].funder = true;
        }
    }
    StructDef { shape, before: rng.chance(30), extra: rng.chance(30), cextra: rng.chance(25), fields, ..Default::default() }
}

#[derive(Clone)]
enum Kind {
    /// default: `[u8; 8]` sighash of `global:<snake_case(variant)>`
    Default,
    /// `use_repr` with this integer type
    Repr(&'static str),
}

struct Variant {
    name: String,
    /// explicit discriminant: (source text, value according to Rust)
    explicit: Option<(String, u64)>,
    acct: usize, // index into account sets
    alen: usize,
    sel: IdSel,
    ret: bool,
}

struct Set {
    name: String,
    kind: Kind,
    variants: Vec<Variant>,
}

struct Acct {
    name: String,
    ty: String,
    def: StructDef,
}

fn main() {
    println!("cargo:rerun-if-changed=build.rs");
    println!("cargo:rerun-if-env-changed=HX_C11_DAG5");
    let dag5: usize = env::var("HX_C11_DAG5").ok().and_then(|s| s.parse().ok()).unwrap_or(120);

    // ---------------------------------------------------------------- account sets
    let mut defs: Vec<(String, StructDef)> = vec![];
    defs.push(("P0".into(), flat(&vec![])));
    defs.push(("P1".into(), flat(&vec![vec![]])));
    defs.push(("P2".into(), flat(&vec![vec![], vec![]])));
    defs.push(("P2r".into(), flat(&vec![vec![1], vec![]])));
    let d3 = all_dags(3);
    let d4 = all_dags(4);
    assert_eq!(d3.len(), 25);
    assert_eq!(d4.len(), 543);
    for (i, g) in d3.iter().enumerate() {
        defs.push((format!("G3n{i}"), flat(g)));
    }
    for (i, g) in d4.iter().enumerate() {
        defs.push((format!("G4n{i}"), flat(g)));
    }
    for (i, g) in random_dags5(dag5).into_iter().enumerate() {
        defs.push((format!("G5n{i}"), flat(&g)));
    }

    // --- feature sets
    let chain: Graph = vec![vec![2], vec![0], vec![]]; // a requires c, b requires a
    let fork: Graph = vec![vec![], vec![0, 2], vec![]];
    let mut k = 0;
    // H: every combination of the three struct-level hooks
    for g in [&chain, &fork] {
        for m in 0..8 {
            let mut s = flat(g);
            s.before = m & 1 != 0;
            s.extra = m & 2 != 0;
            s.cextra = m & 4 != 0;
            defs.push((format!("H{k}"), s));
            k += 1;
        }
    }
    // S: #[validate(skip)] on each subset of one or two fields
    k = 0;
    for g in [&chain, &fork] {
        for m in 1..7u32 {
            let mut s = flat(g);
            for i in 0..3 {
                s.fields[i].skip = m >> i & 1 == 1;
            }
            s.extra = m % 2 == 0;
            defs.push((format!("S{k}"), s));
            k += 1;
        }
    }
    // K: decode-skipped plain fields (appended so that `requires` positions stay valid)
    for (i, g) in [&chain, &fork].iter().enumerate() {
        let mut s = flat(g);
        s.fields.push(FieldDef::of(Ty::Plain, vec![]));
        s.fields.push(FieldDef::leaf(vec![1]));
        defs.push((format!("K{i}"), s));
    }
    // F: funder / recipient marks (first in VALIDATION order wins across nesting)
    k = 0;
    for fu in 0..3 {
        for re in 0..3 {
            let mut s = flat(&chain);
            s.fields[fu].funder = true;
            s.fields[re].recipient = true;
            s.fields[(fu + 1) % 3].skip = re == 1;
            defs.push((format!("F{k}"), s));
            k += 1;
        }
    }
    // N: nested sets
    {
        // hand-written: outer a(requires b, funder), b = inner{x requires y, y funder}, c skipped recipient
        let inner = StructDef {
            extra: true,
            cextra: true,
            fields: vec![FieldDef::leaf(vec![1]), FieldDef { funder: true, ..FieldDef::leaf(vec![]) }],
            ..Default::default()
        };
        let outer = StructDef {
            before: true,
            extra: true,
            fields: vec![
                FieldDef { funder: true, ..FieldDef::leaf(vec![1]) },
                FieldDef::of(Ty::Struct(Box::new(inner)), vec![]),
                FieldDef { skip: true, recipient: true, ..FieldDef::leaf(vec![]) },
            ],
            ..Default::default()
        };
        defs.push(("N0".into(), outer));
    }
    let mut rng = Rng(0xC11_7EE5);
    for i in 1..=60 {
        let mut budget = 12;
        defs.push((format!("N{i}"), random_struct(0, &mut rng, &mut budget)));
    }
    // I: a second validate id with its own requires / skip / hooks
    for i in 0..8 {
        let g1 = if i % 2 == 0 { chain.clone() } else { random_dag(4, &mut rng, false) };
        let n = g1.len();
        let g2 = loop {
            let g = random_dag(n, &mut rng, false);
            if g != g1 {
                break g;
            }
        };
        let mut s = flat(&g1);
        for (f, req) in s.fields.iter_mut().zip(&g2) {
            f.alt = Some((req.clone(), rng.chance(15)));
        }
        s.before = i % 3 == 0;
        s.extra = i % 3 == 1;
        s.alt = Some((i % 2 == 1, i % 4 < 2));
        s.fields[i % n].funder = true;
        defs.push((format!("I{i}"), s));
    }
    // ---- round 3
    // A: field-level address / temp / arg in every combination on the chain
    for m in 0..8u32 {
        let mut s = flat(&chain);
        for f in s.fields.iter_mut() {
            f.addr = m & 1 != 0;
            f.temp = m & 2 != 0;
            f.arg = m & 4 != 0 || f.temp; // the macro rejects `temp` without `arg`
        }
        s.fields[(m % 3) as usize].skip = m >= 6;
        s.fields[1].funder = true;
        s.before = m == 3;
        defs.push((format!("A{m}"), s));
    }
    // C: containers, hand-written
    {
        let el = flat(&vec![vec![1], vec![]]); // x requires y
        let w1 = StructDef { shape: Shape::Single, before: true, cextra: true, fields: vec![FieldDef::leaf(vec![])], ..Default::default() };
        let w2 = StructDef { shape: Shape::Single, extra: true, fields: vec![FieldDef::of(Ty::Struct(Box::new(w1.clone())), vec![])], ..Default::default() };
        let tup = StructDef {
            shape: Shape::Tuple,
            extra: true,
            fields: vec![FieldDef::leaf(vec![]), FieldDef::of(Ty::Opt(Box::new(Ty::Leaf(0))), vec![]), FieldDef::leaf(vec![])],
            ..Default::default()
        };
        let gen = StructDef {
            shape: Shape::Generic,
            before: true,
            fields: vec![FieldDef::leaf(vec![1]), FieldDef::of(Ty::Struct(Box::new(tup.clone())), vec![])],
            ..Default::default()
        };
        let c0 = StructDef {
            extra: true,
            cextra: true,
            dalt: true,
            calt: Some(false),
            fields: vec![
                FieldDef { addr: true, temp: true, arg: true, funder: true, ..FieldDef::leaf(vec![1]) },
                FieldDef::of(Ty::Opt(Box::new(Ty::Leaf(0))), vec![]),
                FieldDef::of(Ty::VecN(2, Some(1), Box::new(Ty::Leaf(0))), vec![1]),
                FieldDef::of(Ty::Arr(2, Box::new(Ty::Struct(Box::new(el.clone())))), vec![]),
                FieldDef::of(Ty::Struct(Box::new(w2)), vec![3]),
                FieldDef::of(Ty::Rest(Box::new(Ty::Leaf(0))), vec![]),
            ],
            ..Default::default()
        };
        defs.push(("C0".into(), c0));
        let c1 = StructDef {
            before: true,
            fields: vec![
                FieldDef::of(Ty::Boxed(Box::new(Ty::Struct(Box::new(gen)))), vec![2]),
                FieldDef::of(Ty::Opt(Box::new(Ty::Struct(Box::new(el.clone())))), vec![]),
                FieldDef::of(Ty::VecN(0, Some(2), Box::new(Ty::Opt(Box::new(Ty::Leaf(0))))), vec![]),
                FieldDef::of(Ty::Rest(Box::new(Ty::Opt(Box::new(Ty::Leaf(0))))), vec![]),
            ],
            dalt: true,
            calt: Some(true),
            ..Default::default()
        };
        defs.push(("C1".into(), c1));
        // options in a row: which accounts are the placeholders decides the shape
        let c2 = StructDef {
            fields: vec![
                FieldDef::of(Ty::Opt(Box::new(Ty::Leaf(0))), vec![2]),
                FieldDef::of(Ty::Opt(Box::new(Ty::Leaf(0))), vec![]),
                FieldDef::of(Ty::Opt(Box::new(Ty::Struct(Box::new(w1)))), vec![]),
                FieldDef::leaf(vec![0]),
            ],
            extra: true,
            ..Default::default()
        };
        defs.push(("C2".into(), c2));
        defs.push(("C3".into(), tup));
    }
    let mut rng = Rng(0xC11_C047);
    for i in 4..=75 {
        defs.push((format!("C{i}"), random_container_struct(0, &mut rng)));
    }
    // J: second decode / cleanup ids on top of a second validate id
    for i in 0..6 {
        let mut s = flat(&chain);
        s.fields.push(FieldDef::of(Ty::VecN(1 + i % 3, Some(i % 2), Box::new(Ty::Leaf(0))), vec![0]));
        s.dalt = true;
        s.calt = Some(i % 2 == 0);
        s.cextra = i % 3 == 0;
        if i >= 3 {
            let g2 = random_dag(4, &mut rng, false);
            for (f, req) in s.fields.iter_mut().zip(&g2) {
                f.alt = Some((req.clone(), false));
            }
            s.alt = Some((true, i == 4));
        }
        defs.push((format!("J{i}"), s));
    }

    let mut src = String::new();
    writeln!(src, "// @generated by hx-lifecycle/build.rs").unwrap();
    let mut accts: Vec<Acct> = vec![];
    for (name, def) in defs {
        let mut def = def;
        let mut ids = Ids { root: name.clone(), pid: 0, sid: 0, inner: 0 };
        assign(&mut def, name.clone(), &mut ids);
        let ty = emit_struct(&def, &mut src);
        accts.push(Acct { name, ty, def });
    }

    // ---------------------------------------------------------------- instruction sets
    let acct_of = |name: &str| accts.iter().position(|a| a.name == name).unwrap();
    let v = |name: &str, explicit: Option<u64>, acct: &str, alen: usize| Variant {
        name: name.into(),
        explicit: explicit.map(|x| (x.to_string(), x)),
        acct: acct_of(acct),
        alen,
        sel: IdSel::default(),
        ret: alen == 2,
    };
    let vx = |name: &str, text: &str, val: u64, acct: &str, alen: usize| Variant {
        name: name.into(),
        explicit: Some((text.into(), val)),
        acct: acct_of(acct),
        alen,
        sel: IdSel::default(),
        ret: false,
    };
    let mut sets: Vec<Set> = vec![
        Set { name: "D1".into(), kind: Kind::Default, variants: vec![v("Initialize", None, "G3n7", 1)] },
        Set {
            name: "D2".into(),
            kind: Kind::Default,
            variants: vec![v("Deposit", None, "P1", 4), v("Withdraw", None, "P2r", 0)],
        },
        Set {
            name: "D3".into(),
            kind: Kind::Default,
            variants: vec![v("InitV2", None, "P0", 2), v("HTTPServer", None, "G3n11", 1), v("Ab2Cd", None, "P2", 0)],
        },
        Set {
            name: "D6".into(),
            kind: Kind::Default,
            variants: vec![
                v("A", None, "P1", 0),
                v("Ab", None, "P2", 1),
                v("TransferTokens", None, "G4n100", 4),
                v("CloseAccount", None, "C0", 0),
                v("X1", None, "P0", 1),
                v("SetAuthorityV2", None, "N0", 2),
            ],
        },
        Set { name: "R8a".into(), kind: Kind::Repr("u8"), variants: vec![v("Only", None, "G3n3", 1)] },
        Set {
            name: "R8b".into(),
            kind: Kind::Repr("u8"),
            variants: vec![v("Zero", None, "P0", 0), v("One", None, "P1", 1), v("Two", None, "P2r", 2), v("Three", None, "G3n24", 4)],
        },
        Set {
            name: "R8c".into(),
            kind: Kind::Repr("u8"),
            variants: vec![
                v("Three", Some(3), "P1", 1),
                v("Four", None, "G3n13", 0),
                v("Ten", Some(10), "P2", 2),
                v("Last", Some(255), "G4n77", 1),
            ],
        },
        Set {
            name: "R16a".into(),
            kind: Kind::Repr("u16"),
            variants: vec![v("Lo", Some(1), "P1", 1), v("Hi", Some(256), "P2r", 0), v("Both", Some(257), "G3n5", 2)],
        },
        Set {
            name: "R16b".into(),
            kind: Kind::Repr("u16"),
            variants: vec![
                v("B0", Some(0xFF), "P0", 0),
                v("B1", None, "P1", 1),
                v("B2", None, "P2", 0),
                v("B3", Some(0xFFFE), "G3n9", 1),
                v("B4", None, "P2r", 4),
                v("B5", Some(0x0100 + 0x1100), "G4n300", 0),
            ],
        },
        Set {
            name: "R32a".into(),
            kind: Kind::Repr("u32"),
            variants: vec![
                v("Z", Some(0), "P1", 0),
                v("O", None, "P2", 1),
                v("Top", Some(0x0100_0000), "G3n17", 2),
                v("Max", Some(0xFFFF_FFFF), "P2r", 1),
            ],
        },
        Set {
            name: "R32b".into(),
            kind: Kind::Repr("u32"),
            variants: vec![v("Beef", Some(0xDEAD_BEEF), "G4n12", 1), v("Next", None, "P1", 4)],
        },
        Set {
            name: "R64a".into(),
            kind: Kind::Repr("u64"),
            variants: vec![
                v("Seq", Some(0x0807_0605_0403_0201), "P2", 1),
                v("SeqNext", None, "G3n1", 0),
                v("One", Some(1), "P1", 2),
            ],
        },
        Set { name: "R64b".into(), kind: Kind::Repr("u64"), variants: vec![v("Huge", Some(u64::MAX), "G3n22", 1)] },
        // explicit discriminants written as EXPRESSIONS, each followed by an implicit variant
        Set {
            name: "RExpr".into(),
            kind: Kind::Repr("u8"),
            variants: vec![
                vx("Shift", "1 << 4", 16, "P1", 1),
                v("AfterShift", None, "P2", 0),
                vx("Paren", "(2 + 3) * 4", 20, "P2r", 1),
                v("AfterParen", None, "G3n5", 1),
                vx("Or", "0x41 | 0x01", 0x41, "P0", 0),
                v("AfterOr", None, "C2", 2),
            ],
        },
    ];
    let n_dispatch_sets = sets.len();
    // zoo sets: every account set reachable (under every id combination it declares), up to 32
    // variants per set, kinds rotating
    let zoo_kinds = [Kind::Default, Kind::Repr("u8"), Kind::Repr("u16"), Kind::Repr("u32")];
    let alens = [0usize, 1, 4, 2, 1];
    let mut zoo: Vec<(usize, IdSel)> = vec![];
    for (i, a) in accts.iter().enumerate() {
        zoo.push((i, IdSel::default()));
        let (hv, hd, hc) = (a.def.alt.is_some(), a.def.dalt, a.def.calt.is_some());
        if hv {
            zoo.push((i, IdSel { v: true, ..Default::default() }));
        }
        if hd {
            zoo.push((i, IdSel { d: true, ..Default::default() }));
        }
        if hc {
            zoo.push((i, IdSel { c: true, ..Default::default() }));
        }
        if hd && hc {
            zoo.push((i, IdSel { d: true, c: true, v: hv }));
        }
    }
    for (ci, chunk) in zoo.chunks(32).enumerate() {
        let kind = zoo_kinds[ci % zoo_kinds.len()].clone();
        let mut variants = vec![];
        for (j, &(gi, sel)) in chunk.iter().enumerate() {
            let explicit = match (&kind, j) {
                (Kind::Repr("u16"), _) => Some(1000 + 7 * j as u64 + 256 * (j as u64 % 3)),
                (Kind::Repr("u32"), j) if j % 5 == 0 => Some(0x0101_0000 * (j as u64 / 5 + 1)),
                (Kind::Repr("u8"), 0) => Some(100),
                _ => None,
            };
            let suffix: String = [(sel.d, "Dalt"), (sel.v, "Valt"), (sel.c, "Calt")].iter().filter(|x| x.0).map(|x| x.1).collect();
            variants.push(Variant {
                name: format!("V{}{suffix}", accts[gi].name),
                explicit: explicit.map(|x| (x.to_string(), x)),
                acct: gi,
                alen: alens[(gi + j) % alens.len()],
                sel,
                ret: (gi + j) % 3 == 0,
            });
        }
        sets.push(Set { name: format!("Z{ci}"), kind, variants });
    }

    let arg = |b: bool| if b { "Alt" } else { "()" };
    let ix_ty = |var: &Variant, hid: usize| {
        format!(
            "GIx<{}, {hid}, {}, {}, {}, {}, {}>",
            accts[var.acct].ty,
            var.alen,
            arg(var.sel.v),
            if var.ret { "u64" } else { "()" },
            arg(var.sel.d),
            arg(var.sel.c),
        )
    };
    for s in &sets {
        writeln!(src, "#[derive(InstructionSet)]").unwrap();
        match &s.kind {
            Kind::Default => writeln!(src, "#[ix_set(skip_idl)]").unwrap(),
            Kind::Repr(t) => {
                writeln!(src, "#[ix_set(skip_idl, use_repr)]").unwrap();
                writeln!(src, "#[repr({t})]").unwrap();
            }
        }
        writeln!(src, "pub enum {} {{", s.name).unwrap();
        for (hid, var) in s.variants.iter().enumerate() {
            let ty = ix_ty(var, hid);
            match &var.explicit {
                Some((text, _)) => writeln!(src, "    {}({ty}) = {text},", var.name).unwrap(),
                None => writeln!(src, "    {}({ty}),", var.name).unwrap(),
            }
        }
        writeln!(src, "}}").unwrap();
        writeln!(src, "fn discs_{}() -> Vec<Vec<u8>> {{ vec![", s.name).unwrap();
        for (hid, var) in s.variants.iter().enumerate() {
            writeln!(src, "    <{} as InstructionDiscriminant<{}>>::discriminant_bytes(),", ix_ty(var, hid), s.name).unwrap();
        }
        writeln!(src, "] }}").unwrap();
        // the tag rustc itself stores for each variant of a `#[repr(uN)]` enum
        writeln!(src, "fn rustc_tags_{}() -> Vec<Vec<u8>> {{ vec![", s.name).unwrap();
        if let Kind::Repr(t) = &s.kind {
            for var in &s.variants {
                writeln!(src, "    tag_of(&{}::{}(GIx::new()), core::mem::size_of::<{t}>()),", s.name, var.name).unwrap();
            }
        }
        writeln!(src, "] }}").unwrap();
    }

    // ---------------------------------------------------------------- metadata
    writeln!(src, "pub const N_DISPATCH_SETS: usize = {n_dispatch_sets};").unwrap();
    writeln!(src, "pub const N_ACCOUNT_SETS: usize = {};", accts.len()).unwrap();
    writeln!(src, "pub static SETS: &[SetMeta] = &[").unwrap();
    for s in &sets {
        let (width, align, repr) = match &s.kind {
            Kind::Default => (8, 1, "None".to_string()),
            Kind::Repr(t) => {
                let w = match *t {
                    "u8" => 1,
                    "u16" => 2,
                    "u32" => 4,
                    "u64" => 8,
                    _ => unreachable!(),
                };
                (w, w, format!("Some({t:?})"))
            }
        };
        writeln!(
            src,
            "    SetMeta {{ name: {:?}, repr: {repr}, width: {width}, align: {align}, entry: entry::<{}>, discs: discs_{}, rustc_tags: rustc_tags_{}, variants: &[",
            s.name, s.name, s.name, s.name
        )
        .unwrap();
        for (hid, var) in s.variants.iter().enumerate() {
            let ex = match &var.explicit {
                Some((_, x)) => format!("Some({x})"),
                None => "None".into(),
            };
            let a = &accts[var.acct];
            let mut tok = String::new();
            struct_token(&a.def, Some(var.sel), &mut tok);
            writeln!(
                src,
                "        VarMeta {{ name: {:?}, explicit: {ex}, hid: {hid}, alen: {}, acct: {:?}, tree: {:?} }},",
                var.name, var.alen, a.name, tok
            )
            .unwrap();
        }
        writeln!(src, "    ] }},").unwrap();
    }
    writeln!(src, "];").unwrap();

    let out = PathBuf::from(env::var("OUT_DIR").unwrap()).join("gen.rs");
    fs::write(out, src).unwrap();
}
