//! Guard-page buffers: a readable/writable region placed flush against `PROT_NONE` pages.
use std::ptr;

pub struct GuardBuf {
    base: *mut u8,
    map_len: usize,
    /// start of the usable region
    pub ptr: *mut u8,
    pub len: usize,
}

const PAGE: usize = 4096;

impl GuardBuf {
    /// `len` usable bytes; if `end_aligned` the usable region ends exactly at a guard page,
    /// otherwise it starts exactly after one.
    pub fn new(len: usize, end_aligned: bool) -> GuardBuf {
        let pages = len.div_ceil(PAGE).max(1);
        let map_len = (pages + 2) * PAGE;
        unsafe {
            let base = libc::mmap(ptr::null_mut(), map_len, libc::PROT_NONE, libc::MAP_PRIVATE | libc::MAP_ANONYMOUS, -1, 0);
            assert!(base != libc::MAP_FAILED, "mmap failed");
            let base = base.cast::<u8>();
            let usable = base.add(PAGE);
            assert_eq!(libc::mprotect(usable.cast(), pages * PAGE, libc::PROT_READ | libc::PROT_WRITE), 0);
            let ptr = if end_aligned { usable.add(pages * PAGE - len) } else { usable };
            GuardBuf { base, map_len, ptr, len }
        }
    }
    pub fn slice(&self) -> &[u8] {
        unsafe { std::slice::from_raw_parts(self.ptr, self.len) }
    }
    #[allow(clippy::mut_from_ref)]
    pub fn slice_mut(&self) -> &mut [u8] {
        unsafe { std::slice::from_raw_parts_mut(self.ptr, self.len) }
    }
    /// The readable bytes of the mapping outside the usable region (canary area).
    pub fn slack(&self) -> (&[u8], &[u8]) {
        unsafe {
            let usable = self.base.add(PAGE);
            let pages_len = self.map_len - 2 * PAGE;
            let before = self.ptr as usize - usable as usize;
            let after = pages_len - before - self.len;
            (std::slice::from_raw_parts(usable, before), std::slice::from_raw_parts(self.ptr.add(self.len), after))
        }
    }
    pub fn fill_slack(&self, b: u8) {
        unsafe {
            let usable = self.base.add(PAGE);
            let pages_len = self.map_len - 2 * PAGE;
            let before = self.ptr as usize - usable as usize;
            ptr::write_bytes(usable, b, before);
            ptr::write_bytes(self.ptr.add(self.len), b, pages_len - before - self.len);
        }
    }
}

impl Drop for GuardBuf {
    fn drop(&mut self) {
        unsafe {
            libc::munmap(self.base.cast(), self.map_len);
        }
    }
}
