//! Shared plumbing for every correspondence harness: CLI contract, PRNG, line protocol recorder,
//! stats/evidence JSON, hex helpers, guard-page buffers.
//!
//! CLI contract (every harness binary): `<bin> <Cxx> --tier quick|thorough --seed N --out DIR [--replay FILE]`
//! writes `DIR/ops.txt`, `DIR/impl.out` (line i answers ops line i) and `DIR/stats.json`.
pub mod guard;

pub use serde_json::{json, Value};
use std::{
    collections::{BTreeMap, BTreeSet},
    fmt::Write as _,
    fs,
    path::PathBuf,
};

#[derive(Debug, Clone)]
pub struct Args {
    pub prop: String,
    pub tier: String,
    pub seed: u64,
    pub out: PathBuf,
    pub replay: Option<PathBuf>,
}

impl Args {
    pub fn parse() -> Args {
        let mut it = std::env::args().skip(1);
        let prop = it.next().expect("usage: <bin> <Cxx> --tier T --seed N --out DIR [--replay FILE]");
        let (mut tier, mut seed, mut out, mut replay) = ("quick".to_string(), 1u64, PathBuf::from("."), None);
        while let Some(a) = it.next() {
            match a.as_str() {
                "--tier" => tier = it.next().unwrap(),
                "--seed" => seed = it.next().unwrap().parse().unwrap(),
                "--out" => out = PathBuf::from(it.next().unwrap()),
                "--replay" => replay = Some(PathBuf::from(it.next().unwrap())),
                other => panic!("unknown argument {other}"),
            }
        }
        fs::create_dir_all(&out).unwrap();
        Args { prop, tier, seed, out, replay }
    }
    pub fn thorough(&self) -> bool {
        self.tier == "thorough"
    }
    /// Replay file split into cases (each a list of lines, first line starts with `case`);
    /// `#` comment lines and blank lines are dropped.
    pub fn replay_cases(&self) -> Option<Vec<Vec<String>>> {
        let p = self.replay.as_ref()?;
        let text = fs::read_to_string(p).expect("read replay");
        let mut cases: Vec<Vec<String>> = vec![];
        for l in text.lines() {
            let l = l.trim_end();
            if l.is_empty() || l.starts_with('#') {
                continue;
            }
            if l.starts_with("case") || cases.is_empty() {
                cases.push(vec![]);
            }
            cases.last_mut().unwrap().push(l.to_string());
        }
        Some(cases)
    }
}

/// SplitMix64: every random choice of a run derives from one state.
#[derive(Debug, Clone)]
pub struct Rng(pub u64);
impl Rng {
    pub fn new(seed: u64) -> Self {
        Rng(seed ^ 0x9E37_79B9_7F4A_7C15)
    }
    pub fn next(&mut self) -> u64 {
        self.0 = self.0.wrapping_add(0x9E37_79B9_7F4A_7C15);
        let mut z = self.0;
        z = (z ^ (z >> 30)).wrapping_mul(0xBF58_476D_1CE4_E5B9);
        z = (z ^ (z >> 27)).wrapping_mul(0x94D0_49BB_1331_11EB);
        z ^ (z >> 31)
    }
    /// uniform in 0..n (n > 0)
    pub fn below(&mut self, n: u64) -> u64 {
        self.next() % n.max(1)
    }
    pub fn range(&mut self, lo: u64, hi_incl: u64) -> u64 {
        lo + self.below(hi_incl - lo + 1)
    }
    pub fn chance(&mut self, num: u64, den: u64) -> bool {
        self.below(den) < num
    }
    pub fn pick<'a, T>(&mut self, xs: &'a [T]) -> &'a T {
        &xs[self.below(xs.len() as u64) as usize]
    }
    pub fn bytes(&mut self, n: usize) -> Vec<u8> {
        (0..n).map(|_| self.next() as u8).collect()
    }
    pub fn fork(&mut self) -> Rng {
        Rng(self.next())
    }
}

pub fn hex(b: &[u8]) -> String {
    if b.is_empty() {
        return "-".into();
    }
    let mut s = String::with_capacity(b.len() * 2);
    for x in b {
        write!(s, "{x:02x}").unwrap();
    }
    s
}
pub fn unhex(s: &str) -> Option<Vec<u8>> {
    if s == "-" {
        return Some(vec![]);
    }
    if s.len() % 2 != 0 {
        return None;
    }
    (0..s.len()).step_by(2).map(|i| u8::from_str_radix(s.get(i..i + 2)?, 16).ok()).collect()
}

/// One property-oracle failure on the implementation.
#[derive(Debug, Clone)]
pub struct OracleFailure {
    pub class: String,
    pub detail: String,
    /// the case (header + op lines) on which it failed
    pub replay: String,
}

/// Records the op stream, the implementation's answers and the run statistics.
#[derive(Debug, Default)]
pub struct Recorder {
    ops: String,
    imp: String,
    cur_case: Vec<String>,
    pub evaluations: u64,
    pub nontrivial: BTreeSet<u64>,
    pub distribution: BTreeMap<String, u64>,
    pub samples: Vec<Value>,
    pub failures: Vec<OracleFailure>,
    pub rule: String,
    pub exhaustive: Option<bool>,
    pub extra: BTreeMap<String, Value>,
    lines: u64,
}

fn fnv(s: &str) -> u64 {
    let mut h = 0xcbf29ce484222325u64;
    for b in s.bytes() {
        h = (h ^ b as u64).wrapping_mul(0x100000001b3);
    }
    h
}

impl Recorder {
    pub fn new(rule: &str) -> Self {
        Recorder { rule: rule.to_string(), ..Default::default() }
    }
    /// Start a case. `header` must start with `case`.
    pub fn case(&mut self, header: &str) {
        assert!(header.starts_with("case"));
        self.cur_case = vec![header.to_string()];
        self.ops.push_str(header);
        self.ops.push('\n');
        self.imp.push_str("case\n");
        self.evaluations += 1;
        self.lines += 1;
    }
    /// One op line and the implementation's canonicalised answer (no newlines).
    pub fn op(&mut self, line: &str, answer: &str) {
        debug_assert!(!line.contains('\n') && !answer.contains('\n'));
        self.cur_case.push(line.to_string());
        self.ops.push_str(line);
        self.ops.push('\n');
        self.imp.push_str(answer);
        self.imp.push('\n');
        self.lines += 1;
    }
    pub fn bump(&mut self, key: &str) {
        *self.distribution.entry(key.to_string()).or_default() += 1;
    }
    /// Mark the current case as non-trivial by the harness's stated rule (distinctness by hash of the case text).
    pub fn mark_nontrivial(&mut self) {
        let h = fnv(&self.cur_case.join("\n"));
        self.nontrivial.insert(h);
    }
    pub fn current_case_text(&self) -> String {
        let mut s = self.cur_case.join("\n");
        s.push('\n');
        s
    }
    pub fn sample_current(&mut self, max: usize) {
        if self.samples.len() < max {
            self.samples.push(json!(self.cur_case.clone()));
        }
    }
    /// Property oracle failed on the current case.
    pub fn fail(&mut self, class: &str, detail: &str) {
        let replay = self.current_case_text();
        // keep a few failures of every class so one noisy class cannot hide another
        if self.failures.iter().filter(|f| f.class == class).count() < 5 && self.failures.len() < 400 {
            self.failures.push(OracleFailure { class: class.into(), detail: detail.into(), replay });
        }
        self.bump(&format!("oracle_fail:{class}"));
    }
    pub fn finish(self, args: &Args) {
        fs::write(args.out.join("ops.txt"), &self.ops).unwrap();
        fs::write(args.out.join("impl.out"), &self.imp).unwrap();
        let mut v = json!({
            "evaluations": self.evaluations,
            "distinct_nontrivial": self.nontrivial.len(),
            "rule": self.rule,
            "samples": self.samples,
            "distribution": self.distribution,
            "lines": self.lines,
            "oracle_failures": self.failures.iter().map(|f| json!({"class": f.class, "detail": f.detail, "replay": f.replay})).collect::<Vec<_>>(),
        });
        if let Some(e) = self.exhaustive {
            v["exhaustive"] = json!(e);
        }
        for (k, val) in self.extra {
            v[k] = val;
        }
        fs::write(args.out.join("stats.json"), serde_json::to_string_pretty(&v).unwrap()).unwrap();
    }
}

/// Run `f` catching panics; the panic message is returned as `Err`.
pub fn catch<T>(f: impl FnOnce() -> T) -> Result<T, String> {
    let r = std::panic::catch_unwind(std::panic::AssertUnwindSafe(f));
    r.map_err(|e| {
        if let Some(s) = e.downcast_ref::<String>() {
            s.clone()
        } else if let Some(s) = e.downcast_ref::<&str>() {
            (*s).to_string()
        } else {
            "panic".to_string()
        }
    })
}

/// Silence the default panic hook (harnesses expect and classify panics).
pub fn quiet_panics() {
    std::panic::set_hook(Box::new(|_| {}));
}
