//! The op-line interpreter: runs one op against the real code, returns the canonical answer and
//! the property-oracle failures observed on it (independently of the Lean model).
use crate::{
    family::{take_anomalies, DynType, Registry},
    gen::ref_bytes,
    sx::{denote, parse_one, show_val, to_init, to_shape, to_val, valid_bits, Shape},
    ux::Mode,
};
use hx_common::{catch, hex, unhex};

pub struct State {
    pub cur: Option<usize>,
}

pub struct Outcome {
    pub answer: String,
    /// (class, detail)
    pub fails: Vec<(String, String)>,
}

fn out(answer: impl Into<String>) -> Outcome {
    Outcome { answer: answer.into(), fails: vec![] }
}

fn bad() -> Outcome {
    out("bad-op")
}

/// `catch_unwind` + anomaly collection around one call into the real code.
fn guarded<X>(f: impl FnOnce() -> Result<X, String>) -> (Result<X, String>, Vec<String>) {
    let _ = take_anomalies();
    let r = match catch(f) {
        Ok(r) => r,
        Err(_) => Err("panic".to_string()),
    };
    (r, take_anomalies())
}

fn anomalies_to_fails(o: &mut Outcome, an: Vec<String>) {
    for a in an {
        o.fails.push((a.clone(), a));
    }
}

pub fn exec(reg: &Registry, st: &mut State, line: &str) -> Outcome {
    let line = line.trim();
    let (op, rest) = match line.split_once(' ') {
        Some((a, b)) => (a, b.trim()),
        None => (line, ""),
    };
    if op == "shape" {
        let Some((name, sexp)) = rest.split_once(' ') else { return bad() };
        let Some(idx) = reg.iter().position(|(n, _)| *n == name) else { return bad() };
        let Some(sh) = parse_one(sexp).and_then(|x| to_shape(&x)) else { return bad() };
        if sh != reg[idx].1.shape() {
            return bad();
        }
        st.cur = Some(idx);
        return out("ok");
    }
    let Some(idx) = st.cur else { return bad() };
    let t: &dyn DynType = &*reg[idx].1;
    let shape = t.shape();
    match op {
        "enc" | "encs" | "sert" | "tbs" | "sera" => {
            let (cap, vtext) = if op == "encs" {
                let Some((c, v)) = rest.split_once(' ') else { return bad() };
                let Ok(c) = c.parse::<usize>() else { return bad() };
                (Some(c), v)
            } else {
                (None, rest)
            };
            let Some(v) = parse_one(vtext).and_then(|x| to_val(&shape, &x)) else { return bad() };
            if !valid_bits(&shape, &v, true) {
                return bad();
            }
            match op {
                "enc" | "encs" => op_enc(t, &shape, &v, cap),
                "sert" => {
                    let (r, an) = guarded(|| t.ser_type(&v).ok_or_else(|| "bad-op".to_string())?);
                    let mut o = match r {
                        Ok(b) => {
                            let mut o = out(format!("ok {}", hex(&b)));
                            if b != ref_bytes(&shape, &v).0 {
                                o.fails.push(("independent_encoding_mismatch".into(), format!("serialize_type wrote {}", hex(&b))));
                            }
                            o
                        }
                        Err(e) => out(e),
                    };
                    anomalies_to_fails(&mut o, an);
                    o
                }
                "tbs" => {
                    let (r, an) = guarded(|| t.test_buffer(&v).ok_or_else(|| "bad-op".to_string())?);
                    let mut o = match r {
                        Ok((v2, n)) => {
                            let mut o = out(format!("ok {} {}", n, show_val(&shape, &v2)));
                            if v2 != v {
                                o.fails.push(("test_buffer_owned".into(), format!("TestByteSet::new(v).owned() = {}", show_val(&shape, &v2))));
                            }
                            if n != ref_bytes(&shape, &v).0.len() {
                                o.fails.push(("test_buffer_owned".into(), format!("underlying_data().len() = {n}")));
                            }
                            o
                        }
                        Err(e) => {
                            let mut o = out(e.clone());
                            let expected = e == "err:ToPrimitiveError" && !crate::sx::fits(&shape, &v);
                            if e != "bad-op" && !expected {
                                o.fails.push(("test_buffer_owned".into(), format!("TestByteSet round trip failed: {e}")));
                            }
                            o
                        }
                    };
                    anomalies_to_fails(&mut o, an);
                    o
                }
                _ => {
                    // sera
                    if !t.is_account() {
                        return bad();
                    }
                    let (r, an) = guarded(|| t.ser_account(&v).ok_or_else(|| "bad-op".to_string())?);
                    let mut o = match r {
                        Ok(b) => {
                            let mut o = out(format!("ok {}", hex(&b)));
                            if b != ref_bytes(&shape, &v).0 {
                                o.fails.push(("account_roundtrip".into(), format!("serialize_account wrote {}", hex(&b))));
                            }
                            // and back
                            let (r2, _) = guarded(|| t.des_account(&b).ok_or_else(|| "bad-op".to_string())?);
                            if r2 != Ok(v.clone()) {
                                o.fails.push(("account_roundtrip".into(), "deserialize_account(serialize_account(v)) != v".into()));
                            }
                            o
                        }
                        Err(e) => {
                            let mut o = out(e.clone());
                            o.fails.push(("account_roundtrip".into(), format!("serialize_account failed: {e}")));
                            o
                        }
                    };
                    anomalies_to_fails(&mut o, an);
                    o
                }
            }
        }
        "tbr" => {
            let Some((t1, t2)) = rest.split_once(" | ") else { return bad() };
            let Some(v1) = parse_one(t1).and_then(|x| to_val(&shape, &x)) else { return bad() };
            let Some(v2) = parse_one(t2).and_then(|x| to_val(&shape, &x)) else { return bad() };
            if !valid_bits(&shape, &v1, true) || !valid_bits(&shape, &v2, true) || !crate::sx::fits(&shape, &v1) || !crate::sx::fits(&shape, &v2) {
                return bad();
            }
            if t.is_account() {
                return bad();
            }
            let (r, an) = guarded(|| t.resize(&v1, &v2).ok_or_else(|| "bad-op".to_string())?);
            let mut o = match r {
                Ok((data, v)) => {
                    let mut o = out(format!("ok {} {}", hex(&data), show_val(&shape, &v)));
                    let (rb, _) = ref_bytes(&shape, &v2);
                    if data != rb {
                        o.fails.push(("test_buffer_owned".into(), format!("underlying_data() after set_from_owned is {} (len {}), expected {} (len {})", hex(&data), data.len(), hex(&rb), rb.len())));
                    }
                    if v != v2 {
                        o.fails.push(("test_buffer_owned".into(), format!("owned() after set_from_owned = {}", show_val(&shape, &v))));
                    }
                    o
                }
                Err(e) => {
                    let mut o = out(e.clone());
                    if e != "bad-op" {
                        o.fails.push(("test_buffer_owned".into(), format!("TestByteSet resize round trip failed: {e}")));
                    }
                    o
                }
            };
            anomalies_to_fails(&mut o, an);
            o
        }
        "init" => {
            let Some(a) = parse_one(rest).and_then(|x| to_init(&x)) else { return bad() };
            let Some(expect) = denote(&shape, &a) else { return bad() };
            let (r, an) = guarded(|| Ok(t.init(&a)));
            let mut o = match r {
                Ok(None) => bad(),
                Ok(Some((n, Ok(b)))) => {
                    let mut o = out(format!("ok {} {}", n, hex(&b)));
                    if b.len() != n {
                        o.fails.push(("init_size".into(), format!("INIT_BYTES {n} but buffer {}", b.len())));
                    }
                    let (b2, _) = ref_bytes(&shape, &expect);
                    if b2 != b {
                        o.fails.push(("init_denotes".into(), format!("init wrote {} expected {}", hex(&b), hex(&b2))));
                    }
                    let (r2, _) = guarded(|| t.owned(&b));
                    if r2 != Ok(expect.clone()) {
                        o.fails.push(("init_denotes".into(), format!("initialized bytes parse to {:?}", r2.map(|v| show_val(&shape, &v)))));
                    }
                    // accounts: serialize_account_from_init(i) must deserialize to the denotation of i
                    if t.is_account() {
                        let (r3, _) = guarded(|| t.des_account(&b).ok_or_else(|| "bad-op".to_string())?);
                        if r3 != Ok(expect.clone()) {
                            o.fails.push(("account_roundtrip".into(), format!("deserialize_account(serialize_account_from_init(i)) = {:?}, expected {}", r3.map(|v| show_val(&shape, &v)), show_val(&shape, &expect))));
                        }
                    }
                    o
                }
                Ok(Some((_, Err(e)))) => {
                    let mut o = out(e.clone());
                    o.fails.push(("init_size".into(), format!("init failed in an INIT_BYTES buffer: {e}")));
                    o
                }
                Err(e) => {
                    let mut o = out(e.clone());
                    o.fails.push(("init_size".into(), format!("init: {e}")));
                    o
                }
            };
            anomalies_to_fails(&mut o, an);
            o
        }
        "dec" | "ptr" | "owned" | "view" | "iter" | "xview" | "desa" => {
            let Some(bytes) = unhex(rest) else { return bad() };
            match op {
                "ptr" => {
                    let (r, an) = guarded(|| t.ptr(&bytes));
                    let mut o = match r {
                        Ok((consumed, dl)) => {
                            let mut o = out(format!("ok {consumed} {dl}"));
                            // `AccountDiscriminant::data_len` is the inner type's (it excludes the prefix)
                            let dlen = if let Shape::Disc(d, _) = &shape { d.len() } else { 0 };
                            if consumed > bytes.len() || dl + dlen != consumed {
                                o.fails.push(("extent_outside_input".into(), format!("consumed {consumed} data_len {dl} input {}", bytes.len())));
                            }
                            o
                        }
                        Err(e) => out(e),
                    };
                    anomalies_to_fails(&mut o, an);
                    o
                }
                "dec" => {
                    let (r, an) = guarded(|| {
                        // `owned` first: its error class is the one `UnsizedType::owned` reports
                        let v = t.owned(&bytes)?;
                        let (n, _) = t.ptr(&bytes)?;
                        Ok((n, v))
                    });
                    let mut o = match r {
                        Ok((n, v)) => {
                            let mut o = out(format!("ok {} {}", n, show_val(&shape, &v)));
                            check_val(&mut o, &shape, &v, true);
                            check_canonical(&mut o, &shape, &v, &bytes);
                            o
                        }
                        Err(e) => out(e),
                    };
                    anomalies_to_fails(&mut o, an);
                    o
                }
                "desa" => {
                    if !t.is_account() {
                        return bad();
                    }
                    let (r, an) = guarded(|| t.des_account(&bytes).ok_or_else(|| "bad-op".to_string())?);
                    let Shape::Disc(d, _) = &shape else { return bad() };
                    let mut o = match r {
                        Ok(v) => {
                            let mut o = out(format!("ok {}", show_val(&shape, &v)));
                            check_val(&mut o, &shape, &v, true);
                            if bytes.len() < d.len() || &bytes[..d.len()] != d.as_slice() {
                                o.fails.push(("account_accepts_wrong_discriminant".into(), format!("deserialize_account accepted {}", hex(&bytes))));
                            }
                            o
                        }
                        Err(e) => out(e),
                    };
                    anomalies_to_fails(&mut o, an);
                    o
                }
                _ => {
                    let (r, an) = guarded(|| match op {
                        "owned" => t.owned(&bytes),
                        "view" => t.view(Mode::Get, &bytes),
                        "iter" => t.view(Mode::Iter, &bytes),
                        _ => t.xview(&bytes),
                    });
                    let mut o = match r {
                        Ok(v) => {
                            let mut o = out(format!("ok {}", show_val(&shape, &v)));
                            check_val(&mut o, &shape, &v, op == "owned");
                            check_canonical(&mut o, &shape, &v, &bytes);
                            o
                        }
                        Err(e) => out(e),
                    };
                    anomalies_to_fails(&mut o, an);
                    o
                }
            }
        }
        _ => bad(),
    }
}

fn check_val(o: &mut Outcome, shape: &Shape, v: &crate::sx::Val, owned: bool) {
    if !valid_bits(shape, v, owned) {
        o.fails.push(("invalid_value_admitted".into(), format!("produced {}", show_val(shape, v))));
    }
}

/// Shapes whose every accepted byte string is the canonical encoding of the value it parses to
/// (no offset tables, no sorted containers): there, accepting bytes that differ from the value's
/// encoding means some byte (e.g. an unknown enum discriminant) was misread.
fn canonical_only(s: &Shape) -> bool {
    match s {
        Shape::Fixed(_) | Shape::List(..) | Shape::Str(_) | Shape::Rem => true,
        Shape::Set(..) | Shape::Map(..) | Shape::Ulist(_) | Shape::Umap(..) => false,
        Shape::Struct(_, fs) => fs.iter().all(canonical_only),
        Shape::Enum(vs) => vs.iter().all(|(_, p)| p.as_ref().map(canonical_only).unwrap_or(true)),
        Shape::Disc(_, i) => canonical_only(i),
    }
}

fn check_canonical(o: &mut Outcome, shape: &Shape, v: &crate::sx::Val, bytes: &[u8]) {
    // `AccountDiscriminant::get_ptr/owned` skip the prefix without comparing it (the comparison is
    // `check_discriminant` / `validate_account_info`), so only the inner value is compared here.
    if let Shape::Disc(d, inner) = shape {
        if bytes.len() >= d.len() {
            check_canonical(o, inner, v, &bytes[d.len()..]);
        }
        return;
    }
    if canonical_only(shape) {
        let (rb, _) = ref_bytes(shape, v);
        if rb.len() > bytes.len() || rb != bytes[..rb.len()] {
            o.fails.push(("accepted_bytes_differ_from_value".into(), format!("{} parsed to {} whose encoding is {}", hex(bytes), show_val(shape, v), hex(&rb))));
        }
    }
}

fn op_enc(t: &dyn DynType, shape: &Shape, v: &crate::sx::Val, cap: Option<usize>) -> Outcome {
    let (r, an) = guarded(|| t.enc(v, cap).ok_or_else(|| "bad-op".to_string()));
    let mut o = match r {
        Err(e) => {
            let mut o = out(e.clone());
            if e == "panic" {
                o.fails.push(("size_accounting".into(), "byte_size/from_owned panicked on an owned value".into()));
            }
            o
        }
        Ok(e) => match e.res {
            Err(class) => {
                let mut o = out(class.clone());
                // a count that does not fit its length type must be reported as ToPrimitiveError
                // (never a panic); with a short buffer AdvanceError may come first
                let unfit = !crate::sx::fits(shape, v);
                let expected = unfit && (class == "err:ToPrimitiveError" || (cap.is_some() && class == "err:AdvanceError"));
                if cap.map(|c| c >= e.byte_size).unwrap_or(true) && !expected {
                    o.fails.push(("size_accounting".into(), format!("from_owned failed ({class}) in a buffer of byte_size {} bytes", e.byte_size)));
                }
                o
            }
            Ok((count, written, tail_ok, remaining)) => {
                let mut o = out(format!("ok {} {} {}", e.byte_size, count, hex(&written)));
                let capv = cap.unwrap_or(e.byte_size + 3);
                if count != e.byte_size || remaining + count != capv || !tail_ok {
                    o.fails.push((
                        "size_accounting".into(),
                        format!("byte_size {} returned {} consumed {} tail_untouched {}", e.byte_size, count, capv - remaining, tail_ok),
                    ));
                }
                let (rb, _) = ref_bytes(shape, v);
                if rb != written {
                    o.fails.push(("independent_encoding_mismatch".into(), format!("from_owned wrote {} expected {}", hex(&written), hex(&rb))));
                }
                // round trip through owned()
                let (r2, _) = guarded(|| t.owned(&written));
                if r2 != Ok(v.clone()) {
                    o.fails.push(("roundtrip_mismatch".into(), format!("owned(from_owned(v)) = {:?}", r2.map(|x| show_val(shape, &x)))));
                }
                let (r3, _) = guarded(|| t.ptr(&written));
                let dlen = if let Shape::Disc(d, _) = shape { d.len() } else { 0 };
                if r3 != Ok((written.len(), written.len() - dlen.min(written.len()))) {
                    o.fails.push(("size_accounting".into(), format!("get_ptr on the written bytes covers {:?} of {}", r3, written.len())));
                }
                o
            }
        },
    };
    anomalies_to_fails(&mut o, an);
    o
}
