//! Case generation: random valid values / initializer arguments by shape, an INDEPENDENT reference
//! encoder (written from the encoding column of notes/unsized_grammar.md, not from the code under
//! test) that also reports where every length / offset / discriminant / flag field sits, and the
//! byte-string mutators of C04.
use crate::sx::{Fixed, Init, Shape, Val};
use hx_common::Rng;

pub fn gen_fixed(f: &Fixed, rng: &mut Rng) -> Vec<u8> {
    match f {
        Fixed::Pod(n) => {
            if rng.chance(1, 4) {
                vec![*rng.pick(&[0u8, 1, 0x7f, 0x80, 0xff]); *n]
            } else {
                rng.bytes(*n)
            }
        }
        Fixed::Bool => vec![rng.below(2) as u8],
        Fixed::Cenum(k) => vec![rng.below(*k as u64) as u8],
        Fixed::Rec(fs) => fs.iter().flat_map(|f| gen_fixed(f, rng)).collect(),
        Fixed::Podd(d) => match rng.below(4) {
            0 => d.clone(),
            1 => vec![0u8; d.len()],
            _ => rng.bytes(d.len()),
        },
    }
}

fn le(w: usize, n: u128) -> Vec<u8> {
    (0..w).map(|i| (n >> (8 * i)) as u8).collect()
}

fn distinct_keys(kw: usize, n: usize, rng: &mut Rng) -> Vec<Vec<u8>> {
    let mut ks: Vec<u128> = vec![];
    let max: u128 = if kw >= 16 { u128::MAX } else { (1u128 << (8 * kw)) - 1 };
    while ks.len() < n {
        let k = match rng.below(4) {
            0 => rng.below(8) as u128,
            1 => max - rng.below(4) as u128,
            _ => (rng.next() as u128) & max,
        };
        if !ks.contains(&k) {
            ks.push(k);
        }
    }
    ks.sort();
    ks.into_iter().map(|k| le(kw, k)).collect()
}

const WORDS: &[&str] = &["", "a", "hi", "é", "日本", "🦀", "star", "x\u{7f}y", "\u{800}", "\u{10ffff}"];

/// A random value of the shape that the Rust owned type can hold. `budget` bounds container sizes.
pub fn gen_val(s: &Shape, rng: &mut Rng, budget: usize) -> Val {
    let count = |rng: &mut Rng| -> usize {
        match rng.below(6) {
            0 => 0,
            1 => 1,
            _ => rng.below(budget.max(1) as u64 + 1) as usize,
        }
    };
    match s {
        Shape::Fixed(f) => Val::Bytes(gen_fixed(f, rng)),
        Shape::List(e, _) => {
            let n = count(rng);
            Val::Seq((0..n).map(|_| gen_fixed(e, rng)).collect())
        }
        Shape::Set(e, _) => {
            let n = count(rng).min(1usize << (8 * e.size().min(2)));
            Val::Seq(distinct_keys(e.size(), n, rng))
        }
        Shape::Map(kw, v, _) => {
            let n = count(rng).min(1usize << (8 * (*kw).min(2)));
            Val::Seq(
                distinct_keys(*kw, n, rng)
                    .into_iter()
                    .map(|mut k| {
                        k.extend(gen_fixed(v, rng));
                        k
                    })
                    .collect(),
            )
        }
        Shape::Str(_) => {
            let n = rng.below(4) as usize;
            let mut st = String::new();
            for _ in 0..n {
                st.push_str(*rng.pick::<&str>(WORDS));
            }
            Val::Bytes(st.into_bytes())
        }
        Shape::Rem => {
            let n = count(rng) * 2;
            Val::Bytes(rng.bytes(n))
        }
        Shape::Ulist(e) => {
            let n = count(rng).min(3);
            Val::Useq((0..n).map(|_| gen_val(e, rng, budget.saturating_sub(1).max(1))).collect())
        }
        Shape::Umap(kw, e) => {
            let n = count(rng).min(3);
            Val::Umap(distinct_keys(*kw, n, rng).into_iter().map(|k| (k, gen_val(e, rng, budget.saturating_sub(1).max(1)))).collect())
        }
        Shape::Struct(sz, fs) => Val::Record(gen_fixed(&Fixed::Rec(sz.clone()), rng), fs.iter().map(|f| gen_val(f, rng, budget)).collect()),
        Shape::Enum(vars) => {
            let i = rng.below(vars.len() as u64) as usize;
            Val::Variant(i, vars[i].1.as_ref().map(|p| Box::new(gen_val(p, rng, budget))))
        }
        Shape::Disc(_, inner) => gen_val(inner, rng, budget),
    }
}

/// The default (`DefaultInit`) value.
pub fn default_val(s: &Shape) -> Val {
    crate::sx::denote(s, &Init::Default).expect("every family type has a default")
}

/// A random initializer argument (the executor answers `bad-op` for forms a harness type cannot
/// express, so callers filter through the registry).
pub fn gen_init(s: &Shape, rng: &mut Rng) -> Init {
    if rng.chance(1, 5) {
        return Init::Default;
    }
    match s {
        Shape::Fixed(f) => Init::Owned(gen_fixed(f, rng)),
        Shape::List(e, _) => Init::Array((0..rng.below(5)).map(|_| gen_fixed(e, rng)).collect()),
        Shape::Rem => Init::Array((0..rng.below(5)).map(|_| rng.bytes(1)).collect()),
        Shape::Ulist(e) => {
            let n = 1 + rng.below(3) as usize;
            let first = gen_init(e, rng);
            let mut v = vec![first.clone()];
            for _ in 1..n {
                v.push(same_form(e, &first, rng));
            }
            Init::Uarray(v)
        }
        Shape::Struct(sz, fs) => {
            let sa = if sz.is_empty() {
                Init::Default
            } else if rng.chance(1, 3) {
                Init::Default
            } else {
                Init::Owned(gen_fixed(&Fixed::Rec(sz.clone()), rng))
            };
            Init::Fields(Box::new(sa), fs.iter().map(|f| gen_init(f, rng)).collect())
        }
        Shape::Enum(vars) => {
            let i = rng.below(vars.len() as u64) as usize;
            match &vars[i].1 {
                None => Init::Variant(i, Box::new(Init::Default)),
                Some(p) => Init::Variant(i, Box::new(gen_init(p, rng))),
            }
        }
        Shape::Disc(_, inner) => gen_init(inner, rng),
        _ => Init::Default,
    }
}

/// Same Rust argument *type* as `a` (same constructors and array lengths), fresh byte values.
fn same_form(s: &Shape, a: &Init, rng: &mut Rng) -> Init {
    match (s, a) {
        (_, Init::Default) => Init::Default,
        (Shape::Fixed(f), Init::Owned(_)) => Init::Owned(gen_fixed(f, rng)),
        (Shape::List(e, _), Init::Array(es)) => Init::Array(es.iter().map(|_| gen_fixed(e, rng)).collect()),
        (Shape::Rem, Init::Array(es)) => Init::Array(es.iter().map(|_| rng.bytes(1)).collect()),
        (Shape::Ulist(e), Init::Uarray(is)) => Init::Uarray(is.iter().map(|i| same_form(e, i, rng)).collect()),
        (Shape::Struct(sz, fs), Init::Fields(sa, is)) => {
            let sa2 = match &**sa {
                Init::Owned(_) => Init::Owned(gen_fixed(&Fixed::Rec(sz.clone()), rng)),
                _ => Init::Default,
            };
            Init::Fields(Box::new(sa2), fs.iter().zip(is).map(|(f, i)| same_form(f, i, rng)).collect())
        }
        (Shape::Enum(vars), Init::Variant(i, a)) => match &vars[*i].1 {
            Some(p) => Init::Variant(*i, Box::new(same_form(p, a, rng))),
            None => Init::Variant(*i, Box::new(Init::Default)),
        },
        (Shape::Disc(_, inner), a) => same_form(inner, a, rng),
        (_, a) => a.clone(),
    }
}

#[derive(Debug, Clone, Copy, PartialEq, Eq)]
pub enum FieldKind {
    /// length prefix of a List/Set/Map/String
    Len,
    /// `unsized_size` of an UnsizedList
    Usz,
    /// `len` of an UnsizedList
    ULen,
    /// the length copy
    ULenCopy,
    /// an element offset
    Offset,
    /// a key of an UnsizedMap offset entry
    Key,
    /// an enum discriminant byte
    Disc,
    /// a bool / cenum byte
    Flag,
    /// a byte of the account discriminant
    AcctDisc,
}

#[derive(Debug, Clone, Copy)]
pub struct Field {
    pub off: usize,
    pub w: usize,
    pub kind: FieldKind,
}

fn flags_of(f: &Fixed, base: usize, out: &mut Vec<Field>) {
    match f {
        Fixed::Pod(_) | Fixed::Podd(_) => {}
        Fixed::Bool | Fixed::Cenum(_) => out.push(Field { off: base, w: 1, kind: FieldKind::Flag }),
        Fixed::Rec(fs) => {
            let mut o = base;
            for f in fs {
                flags_of(f, o, out);
                o += f.size();
            }
        }
    }
}

/// Reference encoding of a value, appending to `buf`; records the interesting fields.
pub fn ref_encode(s: &Shape, v: &Val, buf: &mut Vec<u8>, fields: &mut Vec<Field>) -> Option<()> {
    match (s, v) {
        (Shape::Fixed(f), Val::Bytes(b)) => {
            flags_of(f, buf.len(), fields);
            buf.extend(b);
        }
        (Shape::List(e, lw), Val::Seq(es)) | (Shape::Set(e, lw), Val::Seq(es)) => {
            fields.push(Field { off: buf.len(), w: *lw, kind: FieldKind::Len });
            buf.extend(le(*lw, es.len() as u128));
            for x in es {
                flags_of(e, buf.len(), fields);
                buf.extend(x);
            }
        }
        (Shape::Map(kw, val, lw), Val::Seq(es)) => {
            fields.push(Field { off: buf.len(), w: *lw, kind: FieldKind::Len });
            buf.extend(le(*lw, es.len() as u128));
            for x in es {
                flags_of(val, buf.len() + kw, fields);
                buf.extend(x);
            }
        }
        (Shape::Str(lw), Val::Bytes(b)) => {
            fields.push(Field { off: buf.len(), w: *lw, kind: FieldKind::Len });
            buf.extend(le(*lw, b.len() as u128));
            buf.extend(b);
        }
        (Shape::Rem, Val::Bytes(b)) => buf.extend(b),
        (Shape::Ulist(_), Val::Useq(_)) | (Shape::Umap(..), Val::Umap(_)) => {
            let (e, items): (&Shape, Vec<(Vec<u8>, &Val)>) = match (s, v) {
                (Shape::Ulist(e), Val::Useq(vs)) => (e, vs.iter().map(|v| (vec![], v)).collect()),
                (Shape::Umap(_, e), Val::Umap(kvs)) => (e, kvs.iter().map(|(k, v)| (k.clone(), v)).collect()),
                _ => unreachable!(),
            };
            let base = buf.len();
            let n = items.len();
            let cw = 4 + items.first().map(|(k, _)| k.len()).unwrap_or(0);
            // elements first, into a scratch buffer, to learn their sizes
            let data_base = base + 8 + n * cw + 4;
            let mut data = vec![];
            let mut inner_fields = vec![];
            let mut offs = vec![];
            for (_, v) in &items {
                offs.push(data.len());
                let mut eb = vec![];
                let mut ef = vec![];
                ref_encode(e, v, &mut eb, &mut ef)?;
                for f in ef {
                    inner_fields.push(Field { off: data_base + data.len() + f.off, ..f });
                }
                data.extend(eb);
            }
            fields.push(Field { off: base, w: 4, kind: FieldKind::Usz });
            buf.extend(le(4, data.len() as u128));
            fields.push(Field { off: base + 4, w: 4, kind: FieldKind::ULen });
            buf.extend(le(4, n as u128));
            for ((k, _), o) in items.iter().zip(&offs) {
                fields.push(Field { off: buf.len(), w: 4, kind: FieldKind::Offset });
                buf.extend(le(4, *o as u128));
                if !k.is_empty() {
                    fields.push(Field { off: buf.len(), w: k.len(), kind: FieldKind::Key });
                }
                buf.extend(k);
            }
            fields.push(Field { off: buf.len(), w: 4, kind: FieldKind::ULenCopy });
            buf.extend(le(4, n as u128));
            buf.extend(data);
            fields.extend(inner_fields);
        }
        (Shape::Struct(sz, fs), Val::Record(b, vs)) => {
            flags_of(&Fixed::Rec(sz.clone()), buf.len(), fields);
            buf.extend(b);
            if fs.len() != vs.len() {
                return None;
            }
            for (f, v) in fs.iter().zip(vs) {
                ref_encode(f, v, buf, fields)?;
            }
        }
        (Shape::Enum(vars), Val::Variant(i, p)) => {
            let (d, ps) = vars.get(*i)?;
            fields.push(Field { off: buf.len(), w: 1, kind: FieldKind::Disc });
            buf.push(*d);
            match (ps, p) {
                (None, None) => {}
                (Some(ps), Some(p)) => ref_encode(ps, p, buf, fields)?,
                _ => return None,
            }
        }
        (Shape::Disc(d, inner), v) => {
            for i in 0..d.len() {
                fields.push(Field { off: buf.len() + i, w: 1, kind: FieldKind::AcctDisc });
            }
            buf.extend(d);
            ref_encode(inner, v, buf, fields)?;
        }
        _ => return None,
    }
    Some(())
}

pub fn ref_bytes(s: &Shape, v: &Val) -> (Vec<u8>, Vec<Field>) {
    let (mut b, mut f) = (vec![], vec![]);
    ref_encode(s, v, &mut b, &mut f).expect("generated value matches its shape");
    (b, f)
}

fn rd(b: &[u8]) -> u128 {
    let mut k = 0u128;
    for (i, x) in b.iter().enumerate().take(16) {
        k |= (*x as u128) << (8 * i);
    }
    k
}

/// Replacement values for one field: 0, 1, max−1, max, 2^31, 2^32−1 (when they fit), 2^63 for u64,
/// and in-range-but-inconsistent neighbours of the current value.
pub fn field_values(cur: u128, w: usize) -> Vec<u128> {
    let max: u128 = if w >= 16 { u128::MAX } else { (1u128 << (8 * w)) - 1 };
    let mut vs = vec![0, 1, max - 1, max, cur + 1, cur.wrapping_sub(1) & max, cur + 2, cur + 7];
    for c in [1u128 << 31, (1u128 << 32) - 1, 1u128 << 63, (1u128 << 56) + 1] {
        if c <= max {
            vs.push(c);
        }
    }
    let mut out = vec![];
    for v in vs {
        let v = v & max;
        if v != cur && !out.contains(&v) {
            out.push(v);
        }
    }
    out
}

/// All single-field corruptions of a valid encoding: `(description, bytes)`.
pub fn field_mutants(bytes: &[u8], fields: &[Field]) -> Vec<(String, Vec<u8>)> {
    let mut out = vec![];
    for f in fields {
        let cur = rd(&bytes[f.off..f.off + f.w]);
        for v in field_values(cur, f.w) {
            let mut b = bytes.to_vec();
            b[f.off..f.off + f.w].copy_from_slice(&le(f.w, v));
            out.push((format!("{:?}@{}={}", f.kind, f.off, v), b));
        }
    }
    // offset tables: swap neighbours (unordered offsets), point two entries at the same element
    let offs: Vec<&Field> = fields.iter().filter(|f| f.kind == FieldKind::Offset).collect();
    for w in offs.windows(2) {
        let (a, b) = (w[0], w[1]);
        let mut m = bytes.to_vec();
        let (x, y) = (bytes[a.off..a.off + 4].to_vec(), bytes[b.off..b.off + 4].to_vec());
        if x != y {
            m[a.off..a.off + 4].copy_from_slice(&y);
            m[b.off..b.off + 4].copy_from_slice(&x);
            out.push((format!("swap_offsets@{}", a.off), m));
        }
        let mut m = bytes.to_vec();
        m[b.off..b.off + 4].copy_from_slice(&x);
        out.push((format!("dup_offset@{}", b.off), m));
    }
    out
}
