mod family;
mod sx;
mod ux;
#[allow(unused_imports)]
pub use family::StarFrameDeclaredProgram;

fn main() {
    let reg = family::registry();
    for (n, t) in &reg {
        println!("{n} {}", t.shape().show());
    }
}
