//! hx-codec: correspondence + property-oracle harness for C05 (codec round trip, exact sizes) and
//! C04 (safe parsing of arbitrary bytes), driving the real `star_frame::unsize` code.
mod c04;
mod c05;
mod exec;
mod family;
mod gen;
mod sx;
mod ux;
#[allow(unused_imports)]
pub use family::StarFrameDeclaredProgram;

use hx_common::Args;
use std::path::PathBuf;

/// Cases of `/verif/corpus/<prop>/*.replay` (sorted by file name), run first on every check.
pub fn corpus_cases(prop: &str) -> Vec<Vec<String>> {
    let dir = PathBuf::from(std::env::var("VERIF_DIR").unwrap_or_else(|_| "/verif".into())).join("corpus").join(prop);
    let mut files: Vec<PathBuf> = match std::fs::read_dir(&dir) {
        Ok(rd) => rd.filter_map(|e| e.ok().map(|e| e.path())).filter(|p| p.extension().map(|x| x == "replay").unwrap_or(false)).collect(),
        Err(_) => vec![],
    };
    files.sort();
    let mut cases: Vec<Vec<String>> = vec![];
    for f in files {
        let text = std::fs::read_to_string(&f).unwrap_or_default();
        for l in text.lines() {
            let l = l.trim_end();
            if l.is_empty() || l.starts_with('#') {
                continue;
            }
            if l.starts_with("case") || cases.is_empty() {
                cases.push(vec![]);
            }
            cases.last_mut().unwrap().push(l.to_string());
        }
    }
    cases
}

/// `catch_unwind` mapped into the answer classes.
pub fn hx_catch<X>(f: impl FnOnce() -> Result<X, String>) -> Result<X, String> {
    match hx_common::catch(f) {
        Ok(r) => r,
        Err(_) => Err("panic".to_string()),
    }
}

fn main() {
    let argv: Vec<String> = std::env::args().collect();
    if argv.get(1).map(|s| s == "__child").unwrap_or(false) {
        let resume = argv.get(4).and_then(|s| s.parse().ok()).unwrap_or(0);
        c04::child(&PathBuf::from(&argv[2]), &PathBuf::from(&argv[3]), resume);
        return;
    }
    if argv.get(1).map(|s| s == "shapes").unwrap_or(false) {
        for (n, t) in family::registry().iter() {
            println!("{n} {}", t.shape().show());
        }
        return;
    }
    hx_common::quiet_panics();
    let args = Args::parse();
    match args.prop.as_str() {
        "C05" => c05::main(&args),
        "C04" => c04::main(&args),
        other => panic!("hx-codec does not handle {other}"),
    }
}
