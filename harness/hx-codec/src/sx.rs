//! Shapes, values and initializer arguments of /verif/notes/unsized_grammar.md: bracket-tree
//! parser, converters and canonical printers (Rust mirror of `lean/Unsized/Unsized/Text.lean`),
//! plus the harness-side validity oracle (`valid_bits`, `valid_owned`) and the value an
//! initializer denotes (`denote`) — both written from the grammar / Rust owned types, not from Lean.
use hx_common::{hex, unhex};

#[derive(Debug, Clone, PartialEq, Eq)]
pub enum Sx {
    Atom(String),
    Node(char, Vec<Sx>),
}

fn closer(c: char) -> char {
    match c {
        '(' => ')',
        '[' => ']',
        '{' => '}',
        _ => '>',
    }
}

pub fn parse_sx(s: &str) -> Option<Vec<Sx>> {
    let mut stack: Vec<(char, Vec<Sx>)> = vec![];
    let mut cur: Vec<Sx> = vec![];
    let mut atom = String::new();
    let flush = |atom: &mut String, cur: &mut Vec<Sx>| {
        if !atom.is_empty() {
            cur.push(Sx::Atom(std::mem::take(atom)));
        }
    };
    for c in s.chars() {
        match c {
            ' ' | '\t' | '\n' | '\r' => flush(&mut atom, &mut cur),
            '(' | '[' | '{' | '<' => {
                flush(&mut atom, &mut cur);
                stack.push((c, std::mem::take(&mut cur)));
            }
            ')' | ']' | '}' | '>' => {
                flush(&mut atom, &mut cur);
                let (o, parent) = stack.pop()?;
                if closer(o) != c {
                    return None;
                }
                let kids = std::mem::replace(&mut cur, parent);
                cur.push(Sx::Node(o, kids));
            }
            _ => atom.push(c),
        }
    }
    flush(&mut atom, &mut cur);
    if stack.is_empty() {
        Some(cur)
    } else {
        None
    }
}

pub fn parse_one(s: &str) -> Option<Sx> {
    let mut v = parse_sx(s)?;
    if v.len() == 1 {
        v.pop()
    } else {
        None
    }
}

#[derive(Debug, Clone, PartialEq, Eq)]
pub enum Fixed {
    Pod(usize),
    Bool,
    Cenum(usize),
    Rec(Vec<Fixed>),
    /// pod-like, NOT Zeroable, `DefaultInit` writes these bytes
    Podd(Vec<u8>),
}

impl Fixed {
    pub fn size(&self) -> usize {
        match self {
            Fixed::Pod(n) => *n,
            Fixed::Bool | Fixed::Cenum(_) => 1,
            Fixed::Rec(fs) => fs.iter().map(Fixed::size).sum(),
            Fixed::Podd(d) => d.len(),
        }
    }
    /// `is_valid_bit_pattern` on the bytes.
    pub fn valid(&self, b: &[u8]) -> bool {
        if b.len() != self.size() {
            return false;
        }
        match self {
            Fixed::Pod(_) | Fixed::Podd(_) => true,
            Fixed::Bool => b[0] < 2,
            Fixed::Cenum(k) => (b[0] as usize) < *k,
            Fixed::Rec(fs) => {
                let mut o = 0;
                for f in fs {
                    if !f.valid(&b[o..o + f.size()]) {
                        return false;
                    }
                    o += f.size();
                }
                true
            }
        }
    }
    pub fn show(&self) -> String {
        match self {
            Fixed::Pod(n) => format!("(pod {n})"),
            Fixed::Bool => "(bool)".into(),
            Fixed::Cenum(k) => format!("(cenum {k})"),
            Fixed::Podd(d) => format!("(podd {})", hex(d)),
            Fixed::Rec(fs) => {
                let mut s = "(rec".to_string();
                for f in fs {
                    s.push(' ');
                    s.push_str(&f.show());
                }
                s.push(')');
                s
            }
        }
    }
}

#[derive(Debug, Clone, PartialEq, Eq)]
pub enum Shape {
    Fixed(Fixed),
    List(Fixed, usize),
    Set(Fixed, usize),
    Map(usize, Fixed, usize),
    Str(usize),
    Rem,
    Ulist(Box<Shape>),
    Umap(usize, Box<Shape>),
    Struct(Vec<Fixed>, Vec<Shape>),
    /// (discriminant byte, payload or None for a unit variant)
    Enum(Vec<(u8, Option<Shape>)>),
    Disc(Vec<u8>, Box<Shape>),
}

impl Shape {
    pub fn show(&self) -> String {
        match self {
            Shape::Fixed(f) => f.show(),
            Shape::List(e, lw) => format!("(list {} {lw})", e.show()),
            Shape::Set(e, lw) => format!("(set {} {lw})", e.show()),
            Shape::Map(kw, v, lw) => format!("(map {kw} {} {lw})", v.show()),
            Shape::Str(lw) => format!("(str {lw})"),
            Shape::Rem => "(rem)".into(),
            Shape::Ulist(e) => format!("(ulist {})", e.show()),
            Shape::Umap(kw, e) => format!("(umap {kw} {})", e.show()),
            Shape::Struct(sz, fs) => {
                let mut s = format!("(struct {}", Fixed::Rec(sz.clone()).show());
                for f in fs {
                    s.push(' ');
                    s.push_str(&f.show());
                }
                s.push(')');
                s
            }
            Shape::Enum(vs) => {
                let mut s = "(enum".to_string();
                for (d, p) in vs {
                    match p {
                        None => s.push_str(&format!(" ({d} unit)")),
                        Some(p) => s.push_str(&format!(" ({d} {})", p.show())),
                    }
                }
                s.push(')');
                s
            }
            Shape::Disc(d, inner) => format!("(disc {} {})", hex(d), inner.show()),
        }
    }
    /// Does the type end in `RemainingBytes`?
    pub fn zst(&self) -> bool {
        match self {
            Shape::Rem => true,
            Shape::Struct(_, fs) => fs.last().map(Shape::zst).unwrap_or(false),
            Shape::Enum(vs) => vs.iter().any(|(_, p)| p.as_ref().map(Shape::zst).unwrap_or(false)),
            Shape::Disc(_, i) => i.zst(),
            _ => false,
        }
    }
}

#[derive(Debug, Clone, PartialEq, Eq)]
pub enum Val {
    Bytes(Vec<u8>),
    Seq(Vec<Vec<u8>>),
    Useq(Vec<Val>),
    Umap(Vec<(Vec<u8>, Val)>),
    Record(Vec<u8>, Vec<Val>),
    Variant(usize, Option<Box<Val>>),
}

pub fn show_val(s: &Shape, v: &Val) -> String {
    match (s, v) {
        (Shape::Fixed(_), Val::Bytes(b)) | (Shape::Rem, Val::Bytes(b)) => hex(b),
        (Shape::List(..), Val::Seq(es)) | (Shape::Set(..), Val::Seq(es)) => {
            format!("[{}]", es.iter().map(|e| hex(e)).collect::<Vec<_>>().join(" "))
        }
        (Shape::Map(kw, ..), Val::Seq(es)) => format!(
            "[{}]",
            es.iter()
                .map(|e| {
                    let k = (*kw).min(e.len());
                    format!("{}:{}", hex(&e[..k]), hex(&e[k..]))
                })
                .collect::<Vec<_>>()
                .join(" ")
        ),
        (Shape::Str(_), Val::Bytes(b)) => {
            format!("[{}]", b.iter().map(|x| hex(&[*x])).collect::<Vec<_>>().join(" "))
        }
        (Shape::Ulist(e), Val::Useq(vs)) => {
            format!("({})", vs.iter().map(|v| show_val(e, v)).collect::<Vec<_>>().join(" "))
        }
        (Shape::Umap(_, e), Val::Umap(kvs)) => format!(
            "({})",
            kvs.iter().map(|(k, v)| format!("({} {})", hex(k), show_val(e, v))).collect::<Vec<_>>().join(" ")
        ),
        (Shape::Struct(_, fs), Val::Record(sz, vs)) => {
            let mut s = format!("{{{}", hex(sz));
            for (f, v) in fs.iter().zip(vs) {
                s.push(' ');
                s.push_str(&show_val(f, v));
            }
            s.push('}');
            s
        }
        (Shape::Enum(vars), Val::Variant(i, p)) => match (vars.get(*i), p) {
            (Some((_, Some(ps))), Some(p)) => format!("<{i} {}>", show_val(ps, p)),
            _ => format!("<{i}>"),
        },
        (Shape::Disc(_, inner), v) => show_val(inner, v),
        _ => "?".into(),
    }
}

fn atoms_hex(kids: &[Sx]) -> Option<Vec<Vec<u8>>> {
    kids.iter()
        .map(|k| match k {
            Sx::Atom(a) => unhex(a),
            _ => None,
        })
        .collect()
}

pub fn to_fixed(x: &Sx) -> Option<Fixed> {
    let Sx::Node('(', kids) = x else { return None };
    let Some(Sx::Atom(head)) = kids.first() else { return None };
    match (head.as_str(), &kids[1..]) {
        ("pod", [Sx::Atom(n)]) => Some(Fixed::Pod(n.parse().ok()?)),
        ("bool", []) => Some(Fixed::Bool),
        ("cenum", [Sx::Atom(k)]) => Some(Fixed::Cenum(k.parse().ok()?)),
        ("rec", fs) => Some(Fixed::Rec(fs.iter().map(to_fixed).collect::<Option<_>>()?)),
        ("podd", [Sx::Atom(h)]) => Some(Fixed::Podd(unhex(h)?)),
        _ => None,
    }
}

pub fn to_shape(x: &Sx) -> Option<Shape> {
    let Sx::Node('(', kids) = x else { return None };
    let Some(Sx::Atom(head)) = kids.first() else { return None };
    match (head.as_str(), &kids[1..]) {
        ("list", [e, Sx::Atom(lw)]) => Some(Shape::List(to_fixed(e)?, lw.parse().ok()?)),
        ("set", [e, Sx::Atom(lw)]) => Some(Shape::Set(to_fixed(e)?, lw.parse().ok()?)),
        ("map", [Sx::Atom(kw), v, Sx::Atom(lw)]) => Some(Shape::Map(kw.parse().ok()?, to_fixed(v)?, lw.parse().ok()?)),
        ("str", [Sx::Atom(lw)]) => Some(Shape::Str(lw.parse().ok()?)),
        ("rem", []) => Some(Shape::Rem),
        ("ulist", [e]) => Some(Shape::Ulist(Box::new(to_shape(e)?))),
        ("umap", [Sx::Atom(kw), e]) => Some(Shape::Umap(kw.parse().ok()?, Box::new(to_shape(e)?))),
        ("struct", [sz, fs @ ..]) => {
            let Fixed::Rec(sz) = to_fixed(sz)? else { return None };
            Some(Shape::Struct(sz, fs.iter().map(to_shape).collect::<Option<_>>()?))
        }
        ("enum", vs) => {
            let mut out = vec![];
            for v in vs {
                let Sx::Node('(', kv) = v else { return None };
                match kv.as_slice() {
                    [Sx::Atom(d), Sx::Atom(u)] if u == "unit" => out.push((d.parse().ok()?, None)),
                    [Sx::Atom(d), p] => out.push((d.parse().ok()?, Some(to_shape(p)?))),
                    _ => return None,
                }
            }
            Some(Shape::Enum(out))
        }
        ("disc", [Sx::Atom(d), inner]) => Some(Shape::Disc(unhex(d)?, Box::new(to_shape(inner)?))),
        _ => to_fixed(x).map(Shape::Fixed),
    }
}

pub fn to_val(s: &Shape, x: &Sx) -> Option<Val> {
    match (s, x) {
        (Shape::Fixed(_), Sx::Atom(a)) | (Shape::Rem, Sx::Atom(a)) => Some(Val::Bytes(unhex(a)?)),
        (Shape::List(..), Sx::Node('[', kids)) | (Shape::Set(..), Sx::Node('[', kids)) => Some(Val::Seq(atoms_hex(kids)?)),
        (Shape::Map(..), Sx::Node('[', kids)) => {
            let mut es = vec![];
            for k in kids {
                let Sx::Atom(a) = k else { return None };
                let mut it = a.split(':');
                let (k, v) = (it.next()?, it.next()?);
                if it.next().is_some() {
                    return None;
                }
                let mut e = unhex(k)?;
                e.extend(unhex(v)?);
                es.push(e);
            }
            Some(Val::Seq(es))
        }
        (Shape::Str(_), Sx::Node('[', kids)) => Some(Val::Bytes(atoms_hex(kids)?.concat())),
        (Shape::Ulist(e), Sx::Node('(', kids)) => Some(Val::Useq(kids.iter().map(|k| to_val(e, k)).collect::<Option<_>>()?)),
        (Shape::Umap(_, e), Sx::Node('(', kids)) => {
            let mut out = vec![];
            for k in kids {
                let Sx::Node('(', kv) = k else { return None };
                let [Sx::Atom(key), v] = kv.as_slice() else { return None };
                out.push((unhex(key)?, to_val(e, v)?));
            }
            Some(Val::Umap(out))
        }
        (Shape::Struct(_, fs), Sx::Node('{', kids)) => {
            let (Sx::Atom(sz), rest) = kids.split_first().map(|(a, b)| (a.clone(), b))? else { return None };
            if rest.len() != fs.len() {
                return None;
            }
            Some(Val::Record(unhex(&sz)?, fs.iter().zip(rest).map(|(f, k)| to_val(f, k)).collect::<Option<_>>()?))
        }
        (Shape::Enum(vars), Sx::Node('<', kids)) => {
            let (Sx::Atom(i), rest) = kids.split_first().map(|(a, b)| (a.clone(), b))? else { return None };
            let i: usize = i.parse().ok()?;
            match (&vars.get(i)?.1, rest) {
                (None, []) => Some(Val::Variant(i, None)),
                (Some(p), [x]) => Some(Val::Variant(i, Some(Box::new(to_val(p, x)?)))),
                _ => None,
            }
        }
        (Shape::Disc(_, inner), x) => to_val(inner, x),
        _ => None,
    }
}

#[derive(Debug, Clone, PartialEq, Eq)]
pub enum Init {
    Default,
    Owned(Vec<u8>),
    Array(Vec<Vec<u8>>),
    Uarray(Vec<Init>),
    Fields(Box<Init>, Vec<Init>),
    Variant(usize, Box<Init>),
}

pub fn to_init(x: &Sx) -> Option<Init> {
    match x {
        Sx::Atom(a) if a == "default" || a == "-" => Some(Init::Default),
        Sx::Node('(', kids) => {
            let Some(Sx::Atom(head)) = kids.first() else { return None };
            match (head.as_str(), &kids[1..]) {
                ("own", [Sx::Atom(h)]) => Some(Init::Owned(unhex(h)?)),
                ("arr", es) => Some(Init::Array(atoms_hex(es)?)),
                ("uarr", is) => Some(Init::Uarray(is.iter().map(to_init).collect::<Option<_>>()?)),
                ("fields", [sz, is @ ..]) => Some(Init::Fields(Box::new(to_init(sz)?), is.iter().map(to_init).collect::<Option<_>>()?)),
                ("var", [Sx::Atom(i)]) => Some(Init::Variant(i.parse().ok()?, Box::new(Init::Default))),
                ("var", [Sx::Atom(i), a]) => Some(Init::Variant(i.parse().ok()?, Box::new(to_init(a)?))),
                _ => None,
            }
        }
        _ => None,
    }
}

pub fn show_init(a: &Init) -> String {
    match a {
        Init::Default => "default".into(),
        Init::Owned(b) => format!("(own {})", hex(b)),
        Init::Array(es) => {
            let mut s = "(arr".to_string();
            for e in es {
                s.push(' ');
                s.push_str(&hex(e));
            }
            s.push(')');
            s
        }
        Init::Uarray(is) => {
            let mut s = "(uarr".to_string();
            for i in is {
                s.push(' ');
                s.push_str(&show_init(i));
            }
            s.push(')');
            s
        }
        Init::Fields(sz, is) => {
            let mut s = format!("(fields {}", show_init(sz));
            for i in is {
                s.push(' ');
                s.push_str(&show_init(i));
            }
            s.push(')');
            s
        }
        Init::Variant(i, a) => format!("(var {i} {})", show_init(a)),
    }
}

// ------------------------------------------------------------------------------------------------
// harness-side oracles (independent of the Lean model)

fn key(b: &[u8]) -> u128 {
    let mut k = 0u128;
    for (i, x) in b.iter().enumerate().take(16) {
        k |= (*x as u128) << (8 * i);
    }
    k
}

fn strictly_sorted(keys: impl Iterator<Item = u128>) -> bool {
    let ks: Vec<u128> = keys.collect();
    ks.windows(2).all(|w| w[0] < w[1])
}

/// Every fixed field observable in `v` has a valid bit pattern and the right width, the value has
/// the structure of the shape. `owned = true` additionally requires what Rust's owned types
/// guarantee (strict key order of `BTreeSet/BTreeMap`, UTF-8 of `String`).
pub fn valid_bits(s: &Shape, v: &Val, owned: bool) -> bool {
    match (s, v) {
        (Shape::Fixed(f), Val::Bytes(b)) => f.valid(b),
        (Shape::List(e, _), Val::Seq(es)) => es.iter().all(|x| e.valid(x)),
        (Shape::Set(e, _), Val::Seq(es)) => es.iter().all(|x| e.valid(x)) && (!owned || strictly_sorted(es.iter().map(|x| key(x)))),
        (Shape::Map(kw, val, _), Val::Seq(es)) => {
            es.iter().all(|x| x.len() == kw + val.size() && val.valid(&x[*kw..]))
                && (!owned || strictly_sorted(es.iter().map(|x| key(&x[..*kw]))))
        }
        (Shape::Str(_), Val::Bytes(b)) => std::str::from_utf8(b).is_ok(),
        (Shape::Rem, Val::Bytes(_)) => true,
        (Shape::Ulist(e), Val::Useq(vs)) => vs.iter().all(|v| valid_bits(e, v, owned)),
        (Shape::Umap(kw, e), Val::Umap(kvs)) => {
            kvs.iter().all(|(k, v)| k.len() == *kw && valid_bits(e, v, owned)) && (!owned || strictly_sorted(kvs.iter().map(|(k, _)| key(k))))
        }
        (Shape::Struct(sz, fs), Val::Record(b, vs)) => {
            Fixed::Rec(sz.clone()).valid(b) && fs.len() == vs.len() && fs.iter().zip(vs).all(|(f, v)| valid_bits(f, v, owned))
        }
        (Shape::Enum(vars), Val::Variant(i, p)) => match (vars.get(*i), p) {
            (Some((_, None)), None) => true,
            (Some((_, Some(ps))), Some(p)) => valid_bits(ps, p, owned),
            _ => false,
        },
        (Shape::Disc(_, inner), v) => valid_bits(inner, v, owned),
        _ => false,
    }
}

/// `T::default_init()`: zeroes, except for the types with a hand-written non-zero default.
fn zero_val(f: &Fixed) -> Vec<u8> {
    match f {
        Fixed::Podd(d) => d.clone(),
        _ => vec![0u8; f.size()],
    }
}

fn init_fixed(f: &Fixed, a: &Init) -> Option<Vec<u8>> {
    match a {
        Init::Default => Some(zero_val(f)),
        Init::Owned(b) if f.valid(b) => Some(b.clone()),
        _ => None,
    }
}

/// The owned value an initializer denotes (None: not an initializer of that shape).
pub fn denote(s: &Shape, a: &Init) -> Option<Val> {
    match (s, a) {
        (Shape::Fixed(f), a) => Some(Val::Bytes(init_fixed(f, a)?)),
        (Shape::List(..), Init::Default) | (Shape::Set(..), Init::Default) | (Shape::Map(..), Init::Default) => Some(Val::Seq(vec![])),
        (Shape::List(e, _), Init::Array(es)) if es.iter().all(|x| e.valid(x)) => Some(Val::Seq(es.clone())),
        (Shape::Str(_), Init::Default) | (Shape::Rem, Init::Default) => Some(Val::Bytes(vec![])),
        (Shape::Rem, Init::Array(es)) if es.iter().all(|x| x.len() == 1) => Some(Val::Bytes(es.concat())),
        (Shape::Ulist(_), Init::Default) => Some(Val::Useq(vec![])),
        (Shape::Ulist(e), Init::Uarray(is)) => Some(Val::Useq(is.iter().map(|i| denote(e, i)).collect::<Option<_>>()?)),
        (Shape::Umap(..), Init::Default) => Some(Val::Umap(vec![])),
        (Shape::Struct(sz, fs), Init::Default) => {
            Some(Val::Record(zero_val(&Fixed::Rec(sz.clone())), fs.iter().map(|f| denote(f, &Init::Default)).collect::<Option<_>>()?))
        }
        (Shape::Struct(sz, fs), Init::Fields(sa, is)) if is.len() == fs.len() => {
            let szb = if sz.is_empty() { vec![] } else { init_fixed(&Fixed::Rec(sz.clone()), sa)? };
            Some(Val::Record(szb, fs.iter().zip(is).map(|(f, i)| denote(f, i)).collect::<Option<_>>()?))
        }
        (Shape::Enum(vars), Init::Default) => match &vars.first()?.1 {
            None => Some(Val::Variant(0, None)),
            Some(p) => Some(Val::Variant(0, Some(Box::new(denote(p, &Init::Default)?)))),
        },
        (Shape::Enum(vars), Init::Variant(i, a)) => match &vars.get(*i)?.1 {
            None => Some(Val::Variant(*i, None)),
            Some(p) => Some(Val::Variant(*i, Some(Box::new(denote(p, a)?)))),
        },
        (Shape::Disc(_, inner), a) => denote(inner, a),
        _ => None,
    }
}

/// Do all counts fit their length prefix (else `from_owned` is expected to panic)?
pub fn fits(s: &Shape, v: &Val) -> bool {
    let lim = |lw: &usize, n: usize| *lw >= 8 || (n as u128) < (1u128 << (8 * lw));
    match (s, v) {
        (Shape::List(_, lw), Val::Seq(es)) | (Shape::Set(_, lw), Val::Seq(es)) | (Shape::Map(_, _, lw), Val::Seq(es)) => lim(lw, es.len()),
        (Shape::Str(lw), Val::Bytes(b)) => lim(lw, b.len()),
        (Shape::Ulist(e), Val::Useq(vs)) => vs.iter().all(|v| fits(e, v)),
        (Shape::Umap(_, e), Val::Umap(kvs)) => kvs.iter().all(|(_, v)| fits(e, v)),
        (Shape::Struct(_, fs), Val::Record(_, vs)) => fs.iter().zip(vs).all(|(f, v)| fits(f, v)),
        (Shape::Enum(vars), Val::Variant(i, Some(p))) => match vars.get(*i) {
            Some((_, Some(ps))) => fits(ps, p),
            _ => true,
        },
        (Shape::Disc(_, inner), v) => fits(inner, v),
        _ => true,
    }
}
