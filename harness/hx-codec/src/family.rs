//! The curated family of concrete unsized types and the type-erased registry the op interpreter
//! dispatches through.
use crate::{
    sx::{Fixed, Init, Shape, Val},
    ux::{anomaly, Fx, Mode, RunInit, Ux, WithInit, ANOM, BOUNDS},
    ux_enum, ux_fixed, ux_generic_struct, ux_struct,
};
use hx_common::guard::GuardBuf;
use star_frame::{
    account_set::{account::discriminant::AccountDiscriminant, ProgramAccount},
    client::{DeserializeAccount, DeserializeType, SerializeAccount, SerializeType},
    prelude::*,
    unsize::{
        init::{DefaultInit, UnsizedInit},
        wrapper::{DataMutDrop, ExclusiveWrapperTop, SharedWrapper, UnsizedDataMut, UnsizedTypeDataAccess},
        UnsizedType,
    },
};
use std::marker::PhantomData;

// ------------------------------------------------------------------------------------------------
// programs (for the account-discriminant wrapper)

#[derive(StarFrameProgram)]
#[program(instruction_set = (), id = "HxCodec111111111111111111111111111111111111", no_entrypoint, skip_idl)]
pub struct CodecProgram;

/// A second program whose account discriminant is 2 bytes wide.
pub struct Program2;
impl StarFrameProgram for Program2 {
    type InstructionSet = ();
    type AccountDiscriminant = [u8; 2];
    const ID: Pubkey = pubkey!("HxCodec222222222222222222222222222222222222");
}

/// Programs whose account discriminant TYPE has an alignment > 1 (u16 / u32 / u64): a client helper
/// that reinterprets the first bytes of the account data as that type would depend on the address.
pub struct Program16;
impl StarFrameProgram for Program16 {
    type InstructionSet = ();
    type AccountDiscriminant = u16;
    const ID: Pubkey = pubkey!("HxCodec333333333333333333333333333333333333");
}
pub struct Program32;
impl StarFrameProgram for Program32 {
    type InstructionSet = ();
    type AccountDiscriminant = u32;
    const ID: Pubkey = pubkey!("HxCodec444444444444444444444444444444444444");
}
pub struct Program64;
impl StarFrameProgram for Program64 {
    type InstructionSet = ();
    type AccountDiscriminant = u64;
    const ID: Pubkey = pubkey!("HxCodec555555555555555555555555555555555555");
}

/// 1-byte and 16-byte account discriminants.
pub struct Program8;
impl StarFrameProgram for Program8 {
    type InstructionSet = ();
    type AccountDiscriminant = u8;
    const ID: Pubkey = pubkey!("HxCodec666666666666666666666666666666666666");
}
pub struct Program128;
impl StarFrameProgram for Program128 {
    type InstructionSet = ();
    type AccountDiscriminant = u128;
    const ID: Pubkey = pubkey!("HxCodec777777777777777777777777777777777777");
}

// ------------------------------------------------------------------------------------------------
// fixed types

#[zero_copy]
#[derive(Debug, PartialEq, Eq, PartialOrd, Ord)]
#[repr(u8)]
pub enum Color {
    Red,
    Green,
    Blue,
}
impl Fx for Color {
    fn fshape() -> Fixed {
        Fixed::Cenum(3)
    }
}

/// Non-`Zeroable` user types with a hand-written `DefaultInitable`: their `DefaultInit` value is NOT
/// the zero pattern (shape `(podd HEX)`).
#[derive(Copy, Clone, Debug, PartialEq, Eq, Align1, CheckedBitPattern, NoUninit)]
#[repr(C, packed)]
pub struct Version {
    pub major: u8,
    pub minor: u8,
}
impl star_frame::unsize::init::DefaultInitable for Version {
    fn default_init() -> Self {
        Version { major: 1, minor: 0 }
    }
}
impl Fx for Version {
    fn fshape() -> Fixed {
        Fixed::Podd(vec![1, 0])
    }
}
#[derive(Copy, Clone, Debug, PartialEq, Eq, Align1, CheckedBitPattern, NoUninit)]
#[repr(C, packed)]
pub struct Magic(pub [u8; 4]);
impl star_frame::unsize::init::DefaultInitable for Magic {
    fn default_init() -> Self {
        Magic(*b"SFv1")
    }
}
impl Fx for Magic {
    fn fshape() -> Fixed {
        Fixed::Podd(b"SFv1".to_vec())
    }
}

#[zero_copy]
#[derive(Debug, PartialEq, Eq)]
pub struct Rec1 {
    pub flag: bool,
    pub n: PackedValue<u16>,
    pub c: Color,
}
impl Fx for Rec1 {
    fn fshape() -> Fixed {
        Fixed::Rec(vec![Fixed::Bool, Fixed::Pod(2), Fixed::Cenum(3)])
    }
}
ux_fixed!(Rec1, Color, Version, Magic);

// ------------------------------------------------------------------------------------------------
// structs and enums

ux_struct!(S1, S1Owned, S1Sized, S1Init, sized { a: u8, flag: bool }, fields { list: List<u8, u8>, tail: RemainingBytes });
ux_struct!(S2, S2Owned, S2Init, fields { l1: List<PackedValue<u16>, u8>, l2: List<bool, u16> });
ux_struct!(S1x, S1xOwned, S1xSized, S1xInit, sized { r: Rec1 }, fields { s: UnsizedString<u8> });
ux_struct!(
    S3, S3Owned, S3Sized, S3Init,
    sized { n: PackedValue<u32>, c: Color },
    fields { inner: S1x, ul: UnsizedList<S2>, m: Map<u8, u8, u8> }
);
ux_enum!(
    E1, E1Owned,
    first { A = 0 init E1InitA },
    rest { B = 5 (List<u8, u8>) init E1InitB, C = 7 (S2) init E1InitC, D = 200 (Rec1) init E1InitD }
);
ux_enum!(
    E2, E2Owned,
    first { X = 1 (UnsizedList<E1>) init E2InitX },
    rest { Y = 2 init E2InitY, Z = 9 (RemainingBytes) init E2InitZ }
);
ux_struct!(S4, S4Owned, S4Sized, S4Init, sized { k: u8 }, fields { e: E1, s: Set<u8, u8>, e2: E2 });
ux_struct!(S5, S5Owned, S5Sized, S5Init, sized { v: bool }, fields { e: E1, st: UnsizedString<u8> });
ux_struct!(S6, S6Owned, S6Init, fields { tail: RemainingBytes });
ux_struct!(S7, S7Owned, S7Init, fields { m: Map<u8, u8, u8>, tail: RemainingBytes });
ux_struct!(
    S8, S8Owned, S8Sized, S8Init,
    sized { tag: u8 },
    fields { s: Set<PackedValue<u16>, u64>, m: Map<PackedValue<u16>, bool, u16>, tail: RemainingBytes }
);

/// A GENERIC `#[unsized_type]` struct: for generic structs the macro writes the sized part's
/// `CheckedBitPattern` impl itself (`struct_impl.rs` `sized_bytemuck_derives`) instead of deriving it.
#[unsized_type(skip_idl)]
pub struct G1<A: star_frame::unsize::impls::UnsizedGenerics, B>
where
    B: UnsizedType + ?Sized,
{
    pub flag: bool,
    pub a: A,
    #[unsized_start]
    pub items: List<A, u8>,
    pub b: B,
}

mod generic_impls {
    use super::*;
    use crate::ux::{InitK, R};
    use star_frame::unsize::impls::UnsizedGenerics;
    impl<A: Fx + UnsizedGenerics, B: Ux + ?Sized> WithInit for G1<A, B>
    where
        B: UnsizedInit<DefaultInit>,
        G1Sized<A, B>: UnsizedInit<DefaultInit>,
    {
        fn with_init<K: InitK<Self>>(a: &Init, k: K) -> Option<K::Out> {
            match a {
                Init::Default => Some(k.go(DefaultInit)),
                _ => None,
            }
        }
    }
    impl<A: Fx + UnsizedGenerics, B: Ux + ?Sized> Ux for G1<A, B>
    where
        B: UnsizedInit<DefaultInit>,
        G1Sized<A, B>: UnsizedInit<DefaultInit>,
    {
        fn shape() -> Shape {
            Shape::Struct(vec![Fixed::Bool, A::fshape()], vec![<List<A, u8> as Ux>::shape(), B::shape()])
        }
        fn to_val(o: &G1Owned<A, B>) -> Val {
            let mut sz = o.flag.to_b();
            sz.extend({ o.a }.to_b());
            Val::Record(sz, vec![<List<A, u8> as Ux>::to_val(&o.items), B::to_val(&o.b)])
        }
        fn from_val(v: &Val) -> Option<G1Owned<A, B>> {
            let Val::Record(sz, vs) = v else { return None };
            if sz.len() != 1 + std::mem::size_of::<A>() || vs.len() != 2 {
                return None;
            }
            Some(G1Owned { flag: Fx::from_b(&sz[..1])?, a: A::from_b(&sz[1..])?, items: <List<A, u8> as Ux>::from_val(&vs[0])?, b: B::from_val(&vs[1])? })
        }
        fn view(m: Mode, p: &G1<A, B>) -> R<Val> {
            let sz: &G1Sized<A, B> = p;
            crate::ux::touch(sz);
            Ok(Val::Record(bytemuck::bytes_of(sz).to_vec(), vec![<List<A, u8> as Ux>::view(m, &p.items)?, B::view(m, &p.b)?]))
        }
        fn view_mut(p: &mut G1<A, B>) -> R<Val> {
            let szb = {
                let sz: &mut G1Sized<A, B> = p;
                bytemuck::bytes_of(sz).to_vec()
            };
            Ok(Val::Record(szb, vec![<List<A, u8> as Ux>::view_mut(&mut p.items)?, B::view_mut(&mut p.b)?]))
        }
    }
}

// non-zero defaults in every position `DefaultInit` reaches: bare, unsized struct field, list
// element type, `#[default_init]` enum payload, UnsizedList / UnsizedMap element, account field
ux_struct!(SV1, SV1Owned, SV1Sized, SV1Init, sized { tag: u8 }, fields { ver: Version, items: List<Version, u8> });
ux_enum!(
    EV1, EV1Owned,
    first { V = 3 (Version) init EV1InitV },
    rest { W = 4 (List<u8, u8>) init EV1InitW, M = 9 (Magic) init EV1InitM }
);
ux_struct!(SV2, SV2Owned, SV2Init, fields { e: EV1, magic: Magic, s: SV1 });
ux_struct!(AcctV, AcctVOwned, AcctVInit, args [, program_account, program = Program16, discriminant = 0x5EEDu16], fields { ver: Version, e: EV1, tail: RemainingBytes });

// enums whose `#[default_init]` variant sits in every position relative to unit variants (the shape
// lists the default variant first — a naming of the variants, not the Rust declaration order)
ux_enum!(
    ED1, ED1Owned,
    decl { Empty, #[default_init] Items(List<u8, u8>), Pair(S2) },
    first { Items = 1 (List<u8, u8>) init ED1InitItems },
    rest { Empty = 0 init ED1InitEmpty, Pair = 2 (S2) init ED1InitPair }
);
ux_enum!(
    ED2, ED2Owned,
    decl { #[default_init] Items(List<u8, u16>) = 2, Empty = 5, Other(List<u8, u32>) = 9 },
    first { Items = 2 (List<u8, u16>) init ED2InitItems },
    rest { Empty = 5 init ED2InitEmpty, Other = 9 (List<u8, u32>) init ED2InitOther }
);
ux_enum!(
    ED3, ED3Owned,
    decl { A, B, #[default_init] C(List<PackedValue<u16>, u32>), D(List<u8, u8>) },
    first { C = 2 (List<PackedValue<u16>, u32>) init ED3InitC },
    rest { A = 0 init ED3InitA, B = 1 init ED3InitB, D = 3 (List<u8, u8>) init ED3InitD }
);
ux_enum!(
    ED4, ED4Owned,
    decl { X(List<u8, u8>) = 1, Y = 4, Z(S1x) = 7, #[default_init] W(S2) = 200 },
    first { W = 200 (S2) init ED4InitW },
    rest { X = 1 (List<u8, u8>) init ED4InitX, Y = 4 init ED4InitY, Z = 7 (S1x) init ED4InitZ }
);
ux_enum!(
    ED5, ED5Owned,
    decl { P(List<u8, u16>), #[default_init] Q, R(List<u8, u32>) },
    first { Q = 1 init ED5InitQ },
    rest { P = 0 (List<u8, u16>) init ED5InitP, R = 2 (List<u8, u32>) init ED5InitR }
);
ux_enum!(
    ED6, ED6Owned,
    decl { U0, L16(List<u8, u16>), U1 = 10, #[default_init] L32(List<u8, u32>), S(S1x) },
    first { L32 = 11 (List<u8, u32>) init ED6InitL32 },
    rest { U0 = 0 init ED6InitU0, L16 = 1 (List<u8, u16>) init ED6InitL16, U1 = 10 init ED6InitU1, S = 12 (S1x) init ED6InitS }
);
ux_enum!(
    ED7, ED7Owned,
    decl { First(Version), Gap, #[default_init] Last(Magic) },
    first { Last = 2 (Magic) init ED7InitLast },
    rest { First = 0 (Version) init ED7InitFirst, Gap = 1 init ED7InitGap }
);
ux_struct!(SD1, SD1Owned, SD1Sized, SD1Init, sized { tag: u8 }, fields { e: ED1, f: ED6, g: ED5 });
ux_struct!(AcctD, AcctDOwned, AcctDInit, args [, program_account, program = Program32, discriminant = 0x0D15EA5Eu32], fields { e: ED3, d: ED4 });

// accounts whose body can serialize to ZERO bytes (only a RemainingBytes field), one per discriminant
// width: 1, 2 ([u8; 2]), 2 (u16), 4, 8 (default sighash), 8 (u64), 16
ux_struct!(Blob1, Blob1Owned, Blob1Init, args [, program_account, program = Program8, discriminant = 0xB1u8], fields { blob: RemainingBytes });
ux_struct!(Blob2, Blob2Owned, Blob2Init, args [, program_account, program = Program2, discriminant = [0xB2, 0x02]], fields { blob: RemainingBytes });
ux_struct!(Blob16, Blob16Owned, Blob16Init, args [, program_account, program = Program16, discriminant = 0xB216u16], fields { blob: RemainingBytes });
ux_struct!(Blob32, Blob32Owned, Blob32Init, args [, program_account, program = Program32, discriminant = 0xB2320000u32], fields { blob: RemainingBytes });
ux_struct!(Blob8, Blob8Owned, Blob8Init, args [, program_account], fields { blob: RemainingBytes });
ux_struct!(Blob64, Blob64Owned, Blob64Init, args [, program_account, program = Program64, discriminant = 0xB264u64], fields { blob: RemainingBytes });
ux_struct!(Blob128, Blob128Owned, Blob128Init, args [, program_account, program = Program128, discriminant = 0xB2128_0000_0000_0000_0000_0000u128], fields { blob: RemainingBytes });

// generic structs with and without the phantom marker; bool / checked enum first, middle and last
ux_generic_struct!(GP1, GP1Owned, GP1Sized, args [], sized { first: bool, a: A, last: Color });
ux_generic_struct!(GN1, GN1Owned, GN1Sized, args [, skip_phantom_generics], sized { first: bool, a: A, last: Color });
ux_generic_struct!(GP2, GP2Owned, GP2Sized, args [], sized { a: A, mid: bool, last: bool });
ux_generic_struct!(GN2, GN2Owned, GN2Sized, args [, skip_phantom_generics], sized { a: A, mid: bool, last: bool });
ux_generic_struct!(GN3, GN3Owned, GN3Sized, args [, skip_phantom_generics], sized { first: Color, mid: Rec1, a: A });

// accounts of programs with aligned discriminant types
ux_struct!(Acct16, Acct16Owned, Acct16Init, args [, program_account, program = Program16, discriminant = 0xBEEFu16], fields { items: List<u8, u8>, tail: RemainingBytes });
ux_struct!(Acct32, Acct32Owned, Acct32Init, args [, program_account, program = Program32, discriminant = 0xA1B2C3D4u32], fields { names: UnsizedList<UnsizedString<u8>> });
ux_struct!(Acct64, Acct64Owned, Acct64Init, args [, program_account, program = Program64, discriminant = 0x1122334455667788u64], fields { e: E1, m: Map<u8, bool, u8> });

// program accounts
#[unsized_type(program_account, skip_idl)]
pub struct Acct1 {
    pub owner_tag: PackedValue<u64>,
    pub live: bool,
    #[unsized_start]
    pub items: List<PackedValue<u16>, u8>,
    pub names: UnsizedList<UnsizedString<u8>>,
}
#[unsized_type(program_account, skip_idl, program = Program2, discriminant = [0xC0, 0xDE])]
pub struct Acct2 {
    #[unsized_start]
    pub e: E1,
    pub tail: RemainingBytes,
}

/// Hand-written `Ux` for the two account structs (same shape as the macro output).
mod acct_impls {
    use super::*;
    use crate::ux::{InitK, R};
    impl WithInit for Acct1Sized {
        fn with_init<K: InitK<Self>>(a: &Init, k: K) -> Option<K::Out> {
            match a {
                Init::Default => Some(k.go(DefaultInit)),
                Init::Owned(b) => Some(k.go(bytemuck::checked::try_pod_read_unaligned::<Acct1Sized>(b).ok()?)),
                _ => None,
            }
        }
    }
    ux_struct!(@init Acct1, Acct1Init, [sized: Acct1Sized, items: List<PackedValue<u16>, u8>, names: UnsizedList<UnsizedString<u8>>]);
    impl Ux for Acct1 {
        fn shape() -> Shape {
            Shape::Struct(
                vec![Fixed::Pod(8), Fixed::Bool],
                vec![<List<PackedValue<u16>, u8> as Ux>::shape(), <UnsizedList<UnsizedString<u8>> as Ux>::shape()],
            )
        }
        fn to_val(o: &Acct1Owned) -> Val {
            let mut sz = { o.owner_tag }.to_b();
            sz.extend(o.live.to_b());
            Val::Record(sz, vec![<List<PackedValue<u16>, u8> as Ux>::to_val(&o.items), <UnsizedList<UnsizedString<u8>> as Ux>::to_val(&o.names)])
        }
        fn from_val(v: &Val) -> Option<Acct1Owned> {
            let Val::Record(sz, vs) = v else { return None };
            if sz.len() != 9 || vs.len() != 2 {
                return None;
            }
            Some(Acct1Owned {
                owner_tag: Fx::from_b(&sz[..8])?,
                live: Fx::from_b(&sz[8..])?,
                items: <List<PackedValue<u16>, u8> as Ux>::from_val(&vs[0])?,
                names: <UnsizedList<UnsizedString<u8>> as Ux>::from_val(&vs[1])?,
            })
        }
        fn view(m: Mode, p: &Acct1) -> R<Val> {
            let sz: &Acct1Sized = p;
            crate::ux::touch(sz);
            Ok(Val::Record(
                bytemuck::bytes_of(sz).to_vec(),
                vec![<List<PackedValue<u16>, u8> as Ux>::view(m, &p.items)?, <UnsizedList<UnsizedString<u8>> as Ux>::view(m, &p.names)?],
            ))
        }
        fn view_mut(p: &mut Acct1) -> R<Val> {
            let szb = {
                let sz: &mut Acct1Sized = p;
                bytemuck::bytes_of(sz).to_vec()
            };
            Ok(Val::Record(
                szb,
                vec![<List<PackedValue<u16>, u8> as Ux>::view_mut(&mut p.items)?, <UnsizedList<UnsizedString<u8>> as Ux>::view_mut(&mut p.names)?],
            ))
        }
    }
    ux_struct!(@init Acct2, Acct2Init, [e: E1, tail: RemainingBytes]);
    impl Ux for Acct2 {
        fn shape() -> Shape {
            Shape::Struct(vec![], vec![<E1 as Ux>::shape(), Shape::Rem])
        }
        fn to_val(o: &Acct2Owned) -> Val {
            Val::Record(vec![], vec![<E1 as Ux>::to_val(&o.e), Val::Bytes(o.tail.clone())])
        }
        fn from_val(v: &Val) -> Option<Acct2Owned> {
            let Val::Record(sz, vs) = v else { return None };
            if !sz.is_empty() || vs.len() != 2 {
                return None;
            }
            Some(Acct2Owned { e: <E1 as Ux>::from_val(&vs[0])?, tail: <RemainingBytes as Ux>::from_val(&vs[1])? })
        }
        fn view(m: Mode, p: &Acct2) -> R<Val> {
            Ok(Val::Record(vec![], vec![<E1 as Ux>::view(m, &p.e)?, <RemainingBytes as Ux>::view(m, &p.tail)?]))
        }
        fn view_mut(p: &mut Acct2) -> R<Val> {
            Ok(Val::Record(vec![], vec![<E1 as Ux>::view_mut(&mut p.e)?, <RemainingBytes as Ux>::view_mut(&mut p.tail)?]))
        }
    }
}

// ------------------------------------------------------------------------------------------------
// type-erased operations

/// `err:<Class>`: `ErrorCode` variant name for star_frame errors (looked up by error code — the
/// `name()` of a star_frame error is its message text), `ProgramError` variant name otherwise.
pub fn class_of(e: star_frame::errors::Error) -> String {
    let pe: ProgramError = e.into();
    let name = match pe {
        ProgramError::Custom(code) => match code {
            1000 => "ExpectedWritable",
            1001 => "ExpectedSigner",
            1002 => "AddressMismatch",
            1003 => "DiscriminantMismatch",
            2000 => "UnsizedUnexpected",
            2001 => "PointerOutOfBounds",
            2002 => "RawSliceAdvance",
            3000 => "IndexOutOfBounds",
            3001 => "InvalidRange",
            9000 => "ToPrimitiveError",
            9001 => "IoError",
            9002 => "PodCastError",
            9003 => "CheckedCastError",
            9004 => "AdvanceError",
            9005 => "Utf8Error",
            9006 => "TryFromIntError",
            9007 => "TryFromSliceError",
            9008 => "BorrowError",
            9009 => "BorrowMutError",
            _ => return format!("err:Custom{code}"),
        }
        .to_string(),
        other => {
            let d = format!("{other:?}");
            d.split('(').next().unwrap_or("other").to_string()
        }
    };
    format!("err:{name}")
}

/// An input placed flush against a guard page, usable as the backing store of the wrappers.
pub struct GuardAccess {
    pub buf: GuardBuf,
}
impl GuardAccess {
    pub fn new(bytes: &[u8]) -> Self {
        let buf = GuardBuf::new(bytes.len(), true);
        buf.slice_mut().copy_from_slice(bytes);
        GuardAccess { buf }
    }
    pub fn bounds(&self) -> (usize, usize) {
        (self.buf.ptr as usize, self.buf.ptr as usize + self.buf.len)
    }
}
struct NoDrop;
impl DataMutDrop for NoDrop {}
unsafe impl UnsizedTypeDataAccess for GuardAccess {
    unsafe fn unsized_data_realloc(_this: &Self, _data: &mut *mut [u8], _new_len: usize) -> star_frame::Result<()> {
        Err(star_frame::error!(star_frame::errors::ErrorCode::UnsizedUnexpected, "no realloc in the parse harness"))
    }
    fn data_ref(this: &Self) -> star_frame::Result<impl std::ops::Deref<Target = [u8]>> {
        Ok(this.buf.slice())
    }
    fn data_mut(this: &Self) -> star_frame::Result<UnsizedDataMut<'_>> {
        let ptr: *mut [u8] = std::ptr::slice_from_raw_parts_mut(this.buf.ptr, this.buf.len);
        let (lo, hi) = this.bounds();
        Ok((ptr, lo..hi, Box::new(NoDrop)))
    }
}

pub struct EncOut {
    pub byte_size: usize,
    /// `Ok((count returned, bytes written into the first byte_size bytes, untouched tail ok, remaining slice len))`
    pub res: Result<(usize, Vec<u8>, bool, usize), String>,
}

pub trait DynType: Sync + Send {
    fn shape(&self) -> Shape;
    fn is_account(&self) -> bool {
        false
    }
    /// `byte_size`, then `from_owned` into a `cap`-byte buffer (`None`: value not representable).
    fn enc(&self, v: &Val, cap: Option<usize>) -> Option<EncOut>;
    fn ser_type(&self, v: &Val) -> Option<Result<Vec<u8>, String>>;
    fn init(&self, a: &Init) -> Option<(usize, Result<Vec<u8>, String>)>;
    fn test_buffer(&self, v: &Val) -> Option<Result<(Val, usize), String>>;
    fn ptr(&self, bytes: &[u8]) -> Result<(usize, usize), String>;
    fn owned(&self, bytes: &[u8]) -> Result<Val, String>;
    fn view(&self, m: Mode, bytes: &[u8]) -> Result<Val, String>;
    fn xview(&self, bytes: &[u8]) -> Result<Val, String>;
    fn ser_account(&self, _v: &Val) -> Option<Result<Vec<u8>, String>> {
        None
    }
    fn des_account(&self, _bytes: &[u8]) -> Option<Result<Val, String>> {
        None
    }
    /// `None`: not available for this type (the account wrapper) or value not representable.
    fn resize(&self, _v1: &Val, _v2: &Val) -> Option<Result<(Vec<u8>, Val), String>> {
        None
    }
}

/// `TestByteSet::new(v1)`, `data_mut()?.set_from_owned(v2)`, then `(underlying_data(), owned())`.
pub type ResizeFn = fn(&Val, &Val) -> Option<Result<(Vec<u8>, Val), String>>;

pub struct Entry<T: ?Sized>(PhantomData<fn() -> Box<T>>, Option<ResizeFn>);
impl<T: ?Sized> Entry<T> {
    pub const fn new() -> Self {
        Entry(PhantomData, None)
    }
    pub const fn with_resize(f: ResizeFn) -> Self {
        Entry(PhantomData, Some(f))
    }
}

pub fn resize_generic<T: Ux + ?Sized>(v1: &Val, v2: &Val) -> Option<Result<(Vec<u8>, Val), String>>
where
    T::Ptr: star_frame::unsize::UnsizedTypePtr<UnsizedType = T>,
{
    let o1 = T::from_val(v1)?;
    let o2 = T::from_val(v2)?;
    Some((|| {
        let tbs = TestByteSet::<T>::new(o1).map_err(class_of)?;
        {
            let mut w = tbs.data_mut().map_err(class_of)?;
            w.set_from_owned(o2).map_err(class_of)?;
        }
        let data = tbs.underlying_data().map_err(class_of)?;
        let o = tbs.owned().map_err(class_of)?;
        Ok((data, T::to_val(&o)))
    })())
}

fn with_bounds<X>(g: &GuardAccess, f: impl FnOnce() -> X) -> X {
    BOUNDS.with(|b| b.set(g.bounds()));
    let r = f();
    BOUNDS.with(|b| b.set((0, 0)));
    r
}

fn enc_generic<T: Ux + ?Sized>(v: &Val, cap: Option<usize>) -> Option<EncOut> {
    let owned = T::from_val(v)?;
    let byte_size = T::byte_size(&owned);
    let cap = cap.unwrap_or(byte_size + 3);
    let mut buf = vec![0xA5u8; cap];
    let res = {
        let mut slice: &mut [u8] = &mut buf[..];
        match T::from_owned(owned, &mut slice) {
            Ok(count) => Ok((count, slice.len())),
            Err(e) => Err(class_of(e)),
        }
    };
    let res = res.map(|(count, remaining)| {
        let w = byte_size.min(cap);
        let tail_ok = buf[w..].iter().all(|b| *b == 0xA5);
        (count, buf[..w].to_vec(), tail_ok, remaining)
    });
    Some(EncOut { byte_size, res })
}

impl<T: Ux + ?Sized> DynType for Entry<T> {
    fn shape(&self) -> Shape {
        T::shape()
    }
    fn enc(&self, v: &Val, cap: Option<usize>) -> Option<EncOut> {
        enc_generic::<T>(v, cap)
    }
    fn ser_type(&self, v: &Val) -> Option<Result<Vec<u8>, String>> {
        let owned = T::from_val(v)?;
        Some(<T as SerializeType>::serialize_type(owned).map_err(class_of))
    }
    fn init(&self, a: &Init) -> Option<(usize, Result<Vec<u8>, String>)> {
        let (n, r) = T::with_init(a, RunInit)?;
        Some((n, r.map_err(class_of)))
    }
    fn test_buffer(&self, v: &Val) -> Option<Result<(Val, usize), String>> {
        let owned = T::from_val(v)?;
        Some((|| {
            let tbs = TestByteSet::<T>::new(owned).map_err(class_of)?;
            let o = tbs.owned().map_err(class_of)?;
            let n = tbs.underlying_data().map_err(class_of)?.len();
            Ok((T::to_val(&o), n))
        })())
    }
    fn ptr(&self, bytes: &[u8]) -> Result<(usize, usize), String> {
        let g = GuardAccess::new(bytes);
        let s = g.buf.slice();
        let mut p: *mut [u8] = s as *const [u8] as *mut [u8];
        let before = p.len();
        let ptr = unsafe { T::get_ptr(&mut p) }.map_err(class_of)?;
        Ok((before - p.len(), T::data_len(&ptr)))
    }
    fn owned(&self, bytes: &[u8]) -> Result<Val, String> {
        let g = GuardAccess::new(bytes);
        let o = <T as DeserializeType>::deserialize_type(g.buf.slice()).map_err(class_of)?;
        Ok(T::to_val(&o))
    }
    fn view(&self, m: Mode, bytes: &[u8]) -> Result<Val, String> {
        let g = GuardAccess::new(bytes);
        let w = SharedWrapper::<T::Ptr>::new::<T>(&g).map_err(class_of)?;
        with_bounds(&g, || T::view(m, &w)).map_err(class_of)
    }
    fn xview(&self, bytes: &[u8]) -> Result<Val, String> {
        let g = GuardAccess::new(bytes);
        let mut w = ExclusiveWrapperTop::<T, GuardAccess>::new(&g).map_err(class_of)?;
        let r = with_bounds(&g, || T::view_mut(&mut w)).map_err(class_of);
        drop(w);
        r
    }
    fn resize(&self, v1: &Val, v2: &Val) -> Option<Result<(Vec<u8>, Val), String>> {
        (self.1?)(v1, v2)
    }
}

/// Entry for a program account `T`: every op goes through `AccountDiscriminant<T>`, plus the client
/// helpers `SerializeAccount` / `DeserializeAccount`.
pub struct AcctEntry<T: ?Sized>(PhantomData<fn() -> Box<T>>);
impl<T: ?Sized> AcctEntry<T> {
    pub const fn new() -> Self {
        AcctEntry(PhantomData)
    }
}
impl<T: Ux + ProgramAccount + ?Sized> DynType for AcctEntry<T> {
    fn shape(&self) -> Shape {
        <AccountDiscriminant<T> as Ux>::shape()
    }
    fn is_account(&self) -> bool {
        true
    }
    fn enc(&self, v: &Val, cap: Option<usize>) -> Option<EncOut> {
        enc_generic::<AccountDiscriminant<T>>(v, cap)
    }
    fn ser_type(&self, v: &Val) -> Option<Result<Vec<u8>, String>> {
        Entry::<AccountDiscriminant<T>>::new().ser_type(v)
    }
    fn init(&self, a: &Init) -> Option<(usize, Result<Vec<u8>, String>)> {
        Entry::<AccountDiscriminant<T>>::new().init(a)
    }
    fn test_buffer(&self, v: &Val) -> Option<Result<(Val, usize), String>> {
        Entry::<AccountDiscriminant<T>>::new().test_buffer(v)
    }
    fn ptr(&self, bytes: &[u8]) -> Result<(usize, usize), String> {
        Entry::<AccountDiscriminant<T>>::new().ptr(bytes)
    }
    fn owned(&self, bytes: &[u8]) -> Result<Val, String> {
        Entry::<AccountDiscriminant<T>>::new().owned(bytes)
    }
    fn view(&self, m: Mode, bytes: &[u8]) -> Result<Val, String> {
        Entry::<AccountDiscriminant<T>>::new().view(m, bytes)
    }
    fn xview(&self, bytes: &[u8]) -> Result<Val, String> {
        Entry::<AccountDiscriminant<T>>::new().xview(bytes)
    }
    fn ser_account(&self, v: &Val) -> Option<Result<Vec<u8>, String>> {
        let owned = T::from_val(v)?;
        Some(<T as SerializeAccount>::serialize_account(owned).map_err(class_of))
    }
    fn des_account(&self, bytes: &[u8]) -> Option<Result<Val, String>> {
        let g = GuardAccess::new(bytes);
        let r = <T as DeserializeAccount>::deserialize_account(g.buf.slice()).map(|o| T::to_val(&o)).map_err(class_of);
        // the answer must not depend on where the account bytes start: all 8 offsets of an 8-aligned buffer
        let mut backing = vec![0u64; bytes.len() / 8 + 3];
        let raw: &mut [u8] = bytemuck::cast_slice_mut(&mut backing);
        for k in 0..8 {
            raw[k..k + bytes.len()].copy_from_slice(bytes);
            let rk = crate::hx_catch(|| <T as DeserializeAccount>::deserialize_account(&raw[k..k + bytes.len()]).map(|o| T::to_val(&o)).map_err(class_of));
            if rk != r {
                anomaly("alignment_dependent_result");
            }
        }
        Some(r)
    }
}

pub type Registry = Vec<(&'static str, Box<dyn DynType>)>;

pub fn registry() -> Registry {
    macro_rules! e {
        ($n:literal, $t:ty) => {
            ($n, Box::new(Entry::<$t>::with_resize(resize_generic::<$t>)) as Box<dyn DynType>)
        };
    }
    vec![
        e!("T01", List<u8, u8>),
        e!("T02", List<PackedValue<u16>, u16>),
        e!("T03", List<bool, u32>),
        e!("T04", List<Rec1, u64>),
        e!("T05", Set<u8, u8>),
        e!("T06", Set<PackedValue<u32>, u16>),
        e!("T07", Map<u8, bool, u8>),
        e!("T08", Map<PackedValue<u16>, Rec1, u32>),
        e!("T09", UnsizedString<u8>),
        e!("T10", UnsizedString<u32>),
        e!("T11", RemainingBytes),
        e!("T12", UnsizedList<List<u8, u8>>),
        e!("T13", UnsizedList<UnsizedList<List<PackedValue<u16>, u8>>>),
        e!("T14", UnsizedMap<u8, List<u8, u8>>),
        e!("T15", UnsizedMap<PackedValue<u16>, UnsizedList<UnsizedString<u8>>>),
        e!("T16", S1),
        e!("T17", S2),
        e!("T18", S3),
        e!("T19", E1),
        e!("T20", E2),
        e!("T21", S4),
        e!("T22", UnsizedList<E1>),
        e!("T23", UnsizedMap<PackedValue<u32>, S5>),
        e!("T24", bool),
        e!("T25", Rec1),
        e!("T26", S6),
        e!("T27", UnsizedList<UnsizedMap<u8, S1x>>),
        e!("T28", List<PackedValue<u64>, u64>),
        e!("T29", UnsizedList<List<u8, u32>>),
        e!("T30", G1<Color, UnsizedList<List<u8, u8>>>),
        e!("T31", UnsizedList<G1<Rec1, UnsizedString<u8>>>),
        e!("T32", S7),
        e!("T33", S8),
        e!("T34", UnsizedMap<u8, E1>),
        e!("T35", Set<PackedValue<u16>, u64>),
        e!("T36", Map<u8, PackedValue<u32>, u16>),
        e!("T37", GP1<u8>),
        e!("T38", GP1<bool>),
        e!("T39", GN1<u8>),
        e!("T40", GN1<bool>),
        e!("T41", GP2<bool>),
        e!("T42", GN2<bool>),
        e!("T43", GN2<Color>),
        e!("T44", GN3<bool>),
        e!("T45", UnsizedList<GN1<bool>>),
        e!("T46", Version),
        e!("T47", Magic),
        e!("T48", SV1),
        e!("T49", EV1),
        e!("T50", SV2),
        e!("T51", UnsizedList<Version>),
        e!("T52", UnsizedList<EV1>),
        e!("T53", UnsizedMap<u8, SV2>),
        e!("T54", List<Magic, u16>),
        e!("T55", ED1),
        e!("T56", ED2),
        e!("T57", ED3),
        e!("T58", ED4),
        e!("T59", ED5),
        e!("T60", ED6),
        e!("T61", ED7),
        e!("T62", SD1),
        e!("T63", UnsizedList<ED3>),
        e!("T64", UnsizedMap<u8, ED6>),
        e!("T65", UnsizedList<SD1>),
        ("A08", Box::new(AcctEntry::<Blob1>::new()) as Box<dyn DynType>),
        ("A09", Box::new(AcctEntry::<Blob2>::new()) as Box<dyn DynType>),
        ("A10", Box::new(AcctEntry::<Blob16>::new()) as Box<dyn DynType>),
        ("A11", Box::new(AcctEntry::<Blob32>::new()) as Box<dyn DynType>),
        ("A12", Box::new(AcctEntry::<Blob8>::new()) as Box<dyn DynType>),
        ("A13", Box::new(AcctEntry::<Blob64>::new()) as Box<dyn DynType>),
        ("A14", Box::new(AcctEntry::<Blob128>::new()) as Box<dyn DynType>),
        ("A06", Box::new(AcctEntry::<AcctV>::new()) as Box<dyn DynType>),
        ("A07", Box::new(AcctEntry::<AcctD>::new()) as Box<dyn DynType>),
        ("A01", Box::new(AcctEntry::<Acct1>::new()) as Box<dyn DynType>),
        ("A03", Box::new(AcctEntry::<Acct16>::new()) as Box<dyn DynType>),
        ("A04", Box::new(AcctEntry::<Acct32>::new()) as Box<dyn DynType>),
        ("A05", Box::new(AcctEntry::<Acct64>::new()) as Box<dyn DynType>),
        ("A02", Box::new(AcctEntry::<Acct2>::new()) as Box<dyn DynType>),
    ]
}

pub fn take_anomalies() -> Vec<String> {
    ANOM.with(|a| std::mem::take(&mut *a.borrow_mut()))
}

#[allow(dead_code)]
fn _unused() {
    anomaly("");
}
