//! `Ux`: everything the harness needs to know about one concrete unsized type — its shape, the
//! conversion between its Rust owned value and the textual `Val`, walks over its read-side views,
//! and (continuation-passing, because `UnsizedInit<I>` is resolved statically) its initializers.
use crate::sx::{Fixed, Init, Shape, Val};
use star_frame::{
    account_set::{account::discriminant::AccountDiscriminant, ProgramAccount},
    align1::Align1,
    client::SerializeType,
    prelude::*,
    unsize::{
        impls::{ListLength, ListPtr, RemainingBytesPtr, UnsizedListPtr, CheckedPtr, OrdOffset},
        init::{DefaultInit, UnsizedInit},
        FromOwned, UnsizedType,
    },
};
use std::{
    any::Any,
    cell::{Cell, RefCell},
    collections::{BTreeMap, BTreeSet},
};

pub type R<T> = star_frame::Result<T>;

#[derive(Clone, Copy, PartialEq, Eq, Debug)]
pub enum Mode {
    Get,
    Iter,
}

thread_local! {
    /// address range of the input bytes of the current op (0,0 = unchecked)
    pub static BOUNDS: Cell<(usize, usize)> = const { Cell::new((0, 0)) };
    /// oracle anomalies observed while walking a view
    pub static ANOM: RefCell<Vec<String>> = const { RefCell::new(Vec::new()) };
}

pub fn anomaly(s: &str) {
    ANOM.with(|a| {
        let mut a = a.borrow_mut();
        if a.len() < 8 {
            a.push(s.to_string());
        }
    });
}

/// Every reference the safe API hands out must point inside the input bytes.
pub fn touch<T: ?Sized>(r: &T) {
    let (lo, hi) = BOUNDS.with(|b| b.get());
    if lo == 0 && hi == 0 {
        return;
    }
    let a = r as *const T as *const u8 as usize;
    let n = std::mem::size_of_val(r);
    if a < lo || a + n > hi {
        anomaly("exposed_reference_outside_input");
    }
}

// ------------------------------------------------------------------------------------------------
// initializer dispatch (continuation passing)

pub trait InitK<T: UnsizedType + ?Sized> {
    type Out;
    fn go<I: Clone + 'static>(self, i: I) -> Self::Out
    where
        T: UnsizedInit<I>;
}

pub trait WithInit: UnsizedType {
    /// Resolve the textual initializer to a typed `UnsizedInit` argument and hand it to `k`.
    /// `None`: this harness type has no initializer of that form.
    fn with_init<K: InitK<Self>>(a: &Init, k: K) -> Option<K::Out>;
}

/// Final continuation: `INIT_BYTES` and the bytes `init` writes into an `INIT_BYTES` buffer
/// (`SerializeType::serialize_type_from_init`).
pub struct RunInit;
impl<T: UnsizedType + ?Sized> InitK<T> for RunInit {
    type Out = (usize, R<Vec<u8>>);
    fn go<I: Clone + 'static>(self, i: I) -> Self::Out
    where
        T: UnsizedInit<I>,
    {
        // `TestByteSet::new_from_init` (= `new_default` for DefaultInit) must hold exactly those bytes
        let via_tbs = star_frame::unsize::TestByteSet::<T>::new_from_init(i.clone()).and_then(|t| t.underlying_data()).ok();
        let r = <T as SerializeType>::serialize_type_from_init(i);
        if via_tbs.as_ref() != r.as_ref().ok() {
            anomaly("test_buffer_init_differs_from_serialize_type_from_init");
        }
        (<T as UnsizedInit<I>>::INIT_BYTES, r)
    }
}

/// Continuation that only extracts the typed argument if it has type `I`.
pub struct Downcast<I>(std::marker::PhantomData<I>);
impl<I: 'static> Default for Downcast<I> {
    fn default() -> Self {
        Downcast(std::marker::PhantomData)
    }
}
impl<T: UnsizedType + ?Sized, I: 'static> InitK<T> for Downcast<I> {
    type Out = Option<I>;
    fn go<J: Clone + 'static>(self, j: J) -> Option<I>
    where
        T: UnsizedInit<J>,
    {
        (Box::new(j) as Box<dyn Any>).downcast::<I>().ok().map(|b| *b)
    }
}

// ------------------------------------------------------------------------------------------------
// fixed types

pub trait Fx: CheckedBitPattern + NoUninit + Align1 + Copy + 'static {
    fn fshape() -> Fixed;
    fn to_b(&self) -> Vec<u8> {
        bytemuck::bytes_of(self).to_vec()
    }
    fn from_b(b: &[u8]) -> Option<Self> {
        bytemuck::checked::try_pod_read_unaligned::<Self>(b).ok()
    }
}
pub trait KeyTy: Fx + Pod + Ord {}
pub trait LenTy: ListLength + num_traits::Zero + 'static {}
impl LenTy for u8 {}
impl LenTy for u16 {}
impl LenTy for u32 {}
impl LenTy for u64 {}

macro_rules! fx_pod {
    ($($t:ty),*) => {$(
        impl Fx for $t { fn fshape() -> Fixed { Fixed::Pod(std::mem::size_of::<$t>()) } }
    )*};
}
fx_pod!(u8, PackedValue<u16>, PackedValue<u32>, PackedValue<u64>, PackedValue<u128>, [u8; 3], [u8; 2]);
impl KeyTy for u8 {}
impl KeyTy for PackedValue<u16> {}
impl KeyTy for PackedValue<u32> {}
impl KeyTy for PackedValue<u64> {}
impl Fx for bool {
    fn fshape() -> Fixed {
        Fixed::Bool
    }
}

pub trait Ux: UnsizedType + FromOwned + WithInit {
    fn shape() -> Shape;
    fn to_val(o: &Self::Owned) -> Val;
    /// `None` unless `v` is a value the Rust owned type can hold (widths, bit patterns, strict key
    /// order, UTF-8): such op lines are answered `bad-op`.
    fn from_val(v: &Val) -> Option<Self::Owned>;
    fn view(m: Mode, p: &Self::Ptr) -> R<Val>;
    fn view_mut(p: &mut Self::Ptr) -> R<Val>;
}

/// `WithInit` for a fixed type: `DefaultInit` or the owned value.
pub fn fixed_with_init<T: Fx + UnsizedType + UnsizedInit<DefaultInit> + UnsizedInit<T>, K: InitK<T>>(a: &Init, k: K) -> Option<K::Out> {
    match a {
        Init::Default => Some(k.go(DefaultInit)),
        Init::Owned(b) => Some(k.go(T::from_b(b)?)),
        _ => None,
    }
}

#[macro_export]
macro_rules! ux_fixed {
    ($($t:ty),*) => {$(
        impl $crate::ux::WithInit for $t {
            fn with_init<K: $crate::ux::InitK<Self>>(a: &$crate::sx::Init, k: K) -> Option<K::Out> {
                $crate::ux::fixed_with_init::<$t, K>(a, k)
            }
        }
        impl $crate::ux::Ux for $t {
            fn shape() -> $crate::sx::Shape { $crate::sx::Shape::Fixed(<$t as $crate::ux::Fx>::fshape()) }
            fn to_val(o: &Self) -> $crate::sx::Val { $crate::sx::Val::Bytes($crate::ux::Fx::to_b(o)) }
            fn from_val(v: &$crate::sx::Val) -> Option<Self> {
                match v { $crate::sx::Val::Bytes(b) => <$t as $crate::ux::Fx>::from_b(b), _ => None }
            }
            fn view(_m: $crate::ux::Mode, p: &star_frame::unsize::impls::CheckedPtr<$t>) -> $crate::ux::R<$crate::sx::Val> {
                let x: &$t = &**p;
                $crate::ux::touch(x);
                Ok($crate::sx::Val::Bytes($crate::ux::Fx::to_b(x)))
            }
            fn view_mut(p: &mut star_frame::unsize::impls::CheckedPtr<$t>) -> $crate::ux::R<$crate::sx::Val> {
                let x: &mut $t = &mut **p;
                $crate::ux::touch(x);
                Ok($crate::sx::Val::Bytes($crate::ux::Fx::to_b(x)))
            }
        }
    )*};
}
ux_fixed!(u8, PackedValue<u32>, bool);

#[allow(dead_code)]
fn _assert_ptr_types(_: CheckedPtr<u8>) {}

// ------------------------------------------------------------------------------------------------
// List / Set / Map / UnsizedString / RemainingBytes

fn elems_from<T: Fx>(es: &[Vec<u8>]) -> Option<Vec<T>> {
    es.iter().map(|e| T::from_b(e)).collect()
}

/// `[T; N]` (N ≤ 4) initializers; also cross-checks the by-reference impl `&[T; N]`.
macro_rules! with_array {
    ($vec:expr, $k:expr, $chk:expr, [$($n:literal),*]) => {{
        let v = $vec;
        match v.len() {
            $($n => {
                let arr: [_; $n] = match v.try_into() { Ok(a) => a, Err(_) => unreachable!() };
                $chk(&arr as &dyn Any);
                Some($k.go(arr))
            })*
            _ => None,
        }
    }};
}

impl<T: Fx, L: LenTy> WithInit for List<T, L> {
    fn with_init<K: InitK<Self>>(a: &Init, k: K) -> Option<K::Out> {
        match a {
            Init::Default => Some(k.go(DefaultInit)),
            Init::Array(es) => {
                let v: Vec<T> = elems_from(es)?;
                // the by-reference initializer must write the same bytes
                macro_rules! refcheck {
                    ($n:literal) => {
                        if v.len() == $n {
                            let arr: [T; $n] = v.clone().try_into().ok().unwrap();
                            let a = <Self as SerializeType>::serialize_type_from_init::<&[T; $n]>(&arr).ok();
                            let b = <Self as SerializeType>::serialize_type_from_init::<[T; $n]>(arr).ok();
                            if a != b || <Self as UnsizedInit<&[T; $n]>>::INIT_BYTES != <Self as UnsizedInit<[T; $n]>>::INIT_BYTES {
                                anomaly("ref_array_init_differs");
                            }
                        }
                    };
                }
                refcheck!(0);
                refcheck!(1);
                refcheck!(2);
                refcheck!(3);
                refcheck!(4);
                with_array!(v, k, |_: &dyn Any| {}, [0, 1, 2, 3, 4])
            }
            _ => None,
        }
    }
}

impl<T: Fx, L: LenTy> Ux for List<T, L> {
    fn shape() -> Shape {
        Shape::List(T::fshape(), std::mem::size_of::<L>())
    }
    fn to_val(o: &Vec<T>) -> Val {
        Val::Seq(o.iter().map(Fx::to_b).collect())
    }
    fn from_val(v: &Val) -> Option<Vec<T>> {
        match v {
            Val::Seq(es) => elems_from(es),
            _ => None,
        }
    }
    fn view(m: Mode, p: &ListPtr<T, L>) -> R<Val> {
        let l: &List<T, L> = p;
        let n = l.len();
        let mut es = Vec::with_capacity(n);
        match m {
            Mode::Get => {
                for i in 0..n {
                    match l.get(i) {
                        Some(x) => {
                            touch(x);
                            es.push(x.to_b());
                        }
                        None => anomaly("get_none_below_len"),
                    }
                }
                if l.get(n).is_some() || l.get(n + 1).is_some() {
                    anomaly("get_some_past_len");
                }
            }
            Mode::Iter => {
                for x in l.iter() {
                    touch(x);
                    es.push(x.to_b());
                }
            }
        }
        Ok(Val::Seq(es))
    }
    fn view_mut(p: &mut ListPtr<T, L>) -> R<Val> {
        let l: &mut List<T, L> = p;
        let n = l.len();
        let mut es = Vec::with_capacity(n);
        for i in 0..n {
            match l.get_mut(i) {
                Some(x) => {
                    touch(x);
                    es.push(x.to_b());
                }
                None => anomaly("get_mut_none_below_len"),
            }
        }
        if l.get_mut(n).is_some() || l.get_mut(n + 1).is_some() {
            anomaly("get_mut_some_past_len");
        }
        Ok(Val::Seq(es))
    }
}

fn le_key(b: &[u8]) -> u128 {
    let mut k = 0u128;
    for (i, x) in b.iter().enumerate().take(16) {
        k |= (*x as u128) << (8 * i);
    }
    k
}
fn strict(keys: &[u128]) -> bool {
    keys.windows(2).all(|w| w[0] < w[1])
}

impl<T: KeyTy, L: LenTy> WithInit for Set<T, L> {
    fn with_init<K: InitK<Self>>(a: &Init, k: K) -> Option<K::Out> {
        match a {
            Init::Default => Some(k.go(DefaultInit)),
            _ => None,
        }
    }
}
impl<T: KeyTy, L: LenTy> Ux for Set<T, L> {
    fn shape() -> Shape {
        Shape::Set(T::fshape(), std::mem::size_of::<L>())
    }
    fn to_val(o: &BTreeSet<T>) -> Val {
        Val::Seq(o.iter().map(Fx::to_b).collect())
    }
    fn from_val(v: &Val) -> Option<BTreeSet<T>> {
        match v {
            Val::Seq(es) => {
                let v: Vec<T> = elems_from(es)?;
                if !strict(&es.iter().map(|e| le_key(e)).collect::<Vec<_>>()) {
                    return None;
                }
                Some(v.into_iter().collect())
            }
            _ => None,
        }
    }
    fn view(m: Mode, p: &Set<T, L>) -> R<Val> {
        let n = p.len();
        let mut es = Vec::with_capacity(n);
        match m {
            Mode::Get => {
                for i in 0..n {
                    match p.get_by_index(i) {
                        Some(x) => {
                            touch(x);
                            es.push(x.to_b());
                        }
                        None => anomaly("get_none_below_len"),
                    }
                }
                if p.get_by_index(n).is_some() || p.get_by_index(n + 1).is_some() {
                    anomaly("get_some_past_len");
                }
            }
            Mode::Iter => {
                for x in p.iter() {
                    touch(x);
                    es.push(x.to_b());
                }
            }
        }
        Ok(Val::Seq(es))
    }
    fn view_mut(p: &mut Set<T, L>) -> R<Val> {
        // a set exposes no mutable element access
        Self::view(Mode::Get, p)
    }
}

impl<K0: KeyTy, V: Fx + Zeroable, L: LenTy> WithInit for Map<K0, V, L> {
    fn with_init<K: InitK<Self>>(a: &Init, k: K) -> Option<K::Out> {
        match a {
            Init::Default => Some(k.go(DefaultInit)),
            _ => None,
        }
    }
}
impl<K0: KeyTy, V: Fx + Zeroable, L: LenTy> Ux for Map<K0, V, L> {
    fn shape() -> Shape {
        Shape::Map(std::mem::size_of::<K0>(), V::fshape(), std::mem::size_of::<L>())
    }
    fn to_val(o: &BTreeMap<K0, V>) -> Val {
        Val::Seq(
            o.iter()
                .map(|(k, v)| {
                    let mut e = k.to_b();
                    e.extend(v.to_b());
                    e
                })
                .collect(),
        )
    }
    fn from_val(v: &Val) -> Option<BTreeMap<K0, V>> {
        let kw = std::mem::size_of::<K0>();
        match v {
            Val::Seq(es) => {
                let mut out = BTreeMap::new();
                let mut keys = vec![];
                for e in es {
                    if e.len() != kw + std::mem::size_of::<V>() {
                        return None;
                    }
                    keys.push(le_key(&e[..kw]));
                    out.insert(K0::from_b(&e[..kw])?, V::from_b(&e[kw..])?);
                }
                if !strict(&keys) {
                    return None;
                }
                Some(out)
            }
            _ => None,
        }
    }
    fn view(m: Mode, p: &Map<K0, V, L>) -> R<Val> {
        let n = p.len();
        let mut es = Vec::with_capacity(n);
        let mut push = |k: &K0, v: &V| {
            touch(k);
            touch(v);
            let mut e = k.to_b();
            e.extend(v.to_b());
            es.push(e);
        };
        match m {
            Mode::Get => {
                for i in 0..n {
                    match p.get_by_index(i) {
                        Some((k, v)) => push(k, v),
                        None => anomaly("get_none_below_len"),
                    }
                }
                if p.get_by_index(n).is_some() || p.get_by_index(n + 1).is_some() {
                    anomaly("get_some_past_len");
                }
            }
            Mode::Iter => {
                for (k, v) in p.iter() {
                    push(k, v);
                }
            }
        }
        Ok(Val::Seq(es))
    }
    fn view_mut(p: &mut Map<K0, V, L>) -> R<Val> {
        let n = p.len();
        let mut es = Vec::with_capacity(n);
        for i in 0..n {
            match p.get_by_index_mut(i) {
                Some((k, v)) => {
                    touch(k);
                    touch(v);
                    let mut e = k.to_b();
                    e.extend(v.to_b());
                    es.push(e);
                }
                None => anomaly("get_mut_none_below_len"),
            }
        }
        if p.get_by_index_mut(n).is_some() {
            anomaly("get_mut_some_past_len");
        }
        Ok(Val::Seq(es))
    }
}

impl<L: LenTy> WithInit for UnsizedString<L> {
    fn with_init<K: InitK<Self>>(a: &Init, k: K) -> Option<K::Out> {
        // `UnsizedStringInit { chars }` has a private field: only `DefaultInit` is reachable.
        match a {
            Init::Default => Some(k.go(DefaultInit)),
            _ => None,
        }
    }
}
impl<L: LenTy> Ux for UnsizedString<L> {
    fn shape() -> Shape {
        Shape::Str(std::mem::size_of::<L>())
    }
    fn to_val(o: &String) -> Val {
        Val::Bytes(o.as_bytes().to_vec())
    }
    fn from_val(v: &Val) -> Option<String> {
        match v {
            Val::Bytes(b) => String::from_utf8(b.clone()).ok(),
            _ => None,
        }
    }
    fn view(_m: Mode, p: &UnsizedString<L>) -> R<Val> {
        let s = p.as_str()?;
        touch(s);
        Ok(Val::Bytes(s.as_bytes().to_vec()))
    }
    fn view_mut(p: &mut UnsizedString<L>) -> R<Val> {
        let s = p.as_mut_str()?;
        touch(s);
        Ok(Val::Bytes(s.as_bytes().to_vec()))
    }
}

impl WithInit for RemainingBytes {
    fn with_init<K: InitK<Self>>(a: &Init, k: K) -> Option<K::Out> {
        match a {
            Init::Default => Some(k.go(DefaultInit)),
            Init::Array(es) => {
                if es.iter().any(|e| e.len() != 1) {
                    return None;
                }
                let v: Vec<u8> = es.concat();
                macro_rules! refcheck {
                    ($n:literal) => {
                        if v.len() == $n {
                            let arr: [u8; $n] = v.clone().try_into().ok().unwrap();
                            let a = <Self as SerializeType>::serialize_type_from_init::<&[u8; $n]>(&arr).ok();
                            let b = <Self as SerializeType>::serialize_type_from_init::<[u8; $n]>(arr).ok();
                            if a != b {
                                anomaly("ref_array_init_differs");
                            }
                        }
                    };
                }
                refcheck!(0);
                refcheck!(1);
                refcheck!(2);
                refcheck!(3);
                refcheck!(4);
                with_array!(v, k, |_: &dyn Any| {}, [0, 1, 2, 3, 4])
            }
            _ => None,
        }
    }
}
impl Ux for RemainingBytes {
    fn shape() -> Shape {
        Shape::Rem
    }
    fn to_val(o: &Vec<u8>) -> Val {
        Val::Bytes(o.clone())
    }
    fn from_val(v: &Val) -> Option<Vec<u8>> {
        match v {
            Val::Bytes(b) => Some(b.clone()),
            _ => None,
        }
    }
    fn view(_m: Mode, p: &RemainingBytesPtr) -> R<Val> {
        let b: &[u8] = p;
        touch(b);
        Ok(Val::Bytes(b.to_vec()))
    }
    fn view_mut(p: &mut RemainingBytesPtr) -> R<Val> {
        let b: &mut [u8] = p;
        touch(b);
        Ok(Val::Bytes(b.to_vec()))
    }
}

// ------------------------------------------------------------------------------------------------
// UnsizedList / UnsizedMap

/// `[I; N]` for `UnsizedList<T>`: resolve the first element's argument type `I`, require all others
/// to have the same type, build the array.
struct KUarr<'a, K> {
    rest: &'a [Init],
    k: K,
}
impl<'a, T: Ux + ?Sized, K: InitK<UnsizedList<T>>> InitK<T> for KUarr<'a, K> {
    type Out = Option<K::Out>;
    fn go<I: Clone + 'static>(self, i0: I) -> Self::Out
    where
        T: UnsizedInit<I>,
    {
        let mut v: Vec<I> = vec![i0];
        for a in self.rest {
            v.push(T::with_init(a, Downcast::<I>::default())??);
        }
        let k = self.k;
        macro_rules! arm {
            ($($n:literal),*) => {
                match v.len() {
                    $($n => {
                        let arr: [I; $n] = match v.try_into() { Ok(a) => a, Err(_) => unreachable!() };
                        Some(k.go(arr))
                    })*
                    _ => None,
                }
            };
        }
        arm!(1, 2, 3)
    }
}

impl<T: Ux + ?Sized> WithInit for UnsizedList<T> {
    fn with_init<K: InitK<Self>>(a: &Init, k: K) -> Option<K::Out> {
        match a {
            Init::Default => Some(k.go(DefaultInit)),
            Init::Uarray(is) if !is.is_empty() => T::with_init(&is[0], KUarr { rest: &is[1..], k }).flatten(),
            _ => None,
        }
    }
}

impl<T: Ux + ?Sized> Ux for UnsizedList<T> {
    fn shape() -> Shape {
        Shape::Ulist(Box::new(T::shape()))
    }
    fn to_val(o: &Vec<T::Owned>) -> Val {
        Val::Useq(o.iter().map(T::to_val).collect())
    }
    fn from_val(v: &Val) -> Option<Vec<T::Owned>> {
        match v {
            Val::Useq(vs) => vs.iter().map(T::from_val).collect(),
            _ => None,
        }
    }
    fn view(m: Mode, p: &UnsizedListPtr<T, PackedValue<u32>>) -> R<Val> {
        let n = p.len();
        let mut vs = vec![];
        match m {
            Mode::Get => {
                for i in 0..n {
                    match p.get(i)? {
                        Some(e) => vs.push(T::view(m, &e)?),
                        None => anomaly("get_none_below_len"),
                    }
                }
                if p.get(n)?.is_some() || p.get(n + 1)?.is_some() {
                    anomaly("get_some_past_len");
                }
            }
            Mode::Iter => {
                for item in p.iter() {
                    let e = item?;
                    vs.push(T::view(m, &e)?);
                }
            }
        }
        Ok(Val::Useq(vs))
    }
    fn view_mut(p: &mut UnsizedListPtr<T, PackedValue<u32>>) -> R<Val> {
        let n = p.len();
        let mut vs = vec![];
        for i in 0..n {
            match p.get_mut(i)? {
                Some(e) => vs.push(T::view_mut(e)?),
                None => anomaly("get_mut_none_below_len"),
            }
        }
        if p.get_mut(n)?.is_some() {
            anomaly("get_mut_some_past_len");
        }
        Ok(Val::Useq(vs))
    }
}

impl<K0: KeyTy, V: Ux + ?Sized> WithInit for UnsizedMap<K0, V> {
    fn with_init<K: InitK<Self>>(a: &Init, k: K) -> Option<K::Out> {
        match a {
            Init::Default => Some(k.go(DefaultInit)),
            _ => None,
        }
    }
}
impl<K0: KeyTy, V: Ux + ?Sized> Ux for UnsizedMap<K0, V> {
    fn shape() -> Shape {
        Shape::Umap(std::mem::size_of::<K0>(), Box::new(V::shape()))
    }
    fn to_val(o: &BTreeMap<K0, V::Owned>) -> Val {
        Val::Umap(o.iter().map(|(k, v)| (k.to_b(), V::to_val(v))).collect())
    }
    fn from_val(v: &Val) -> Option<BTreeMap<K0, V::Owned>> {
        match v {
            Val::Umap(kvs) => {
                let mut out = BTreeMap::new();
                let mut keys = vec![];
                for (k, v) in kvs {
                    keys.push(le_key(k));
                    out.insert(K0::from_b(k)?, V::from_val(v)?);
                }
                if !strict(&keys) {
                    return None;
                }
                Some(out)
            }
            _ => None,
        }
    }
    fn view(m: Mode, p: &UnsizedMap<K0, V>) -> R<Val> {
        let n = p.len();
        let mut kvs = vec![];
        match m {
            Mode::Get => {
                for i in 0..n {
                    match p.get_by_index(i)? {
                        Some((k, e)) => kvs.push((k.to_b(), V::view(m, &e)?)),
                        None => anomaly("get_none_below_len"),
                    }
                }
                if p.get_by_index(n)?.is_some() || p.get_by_index(n + 1)?.is_some() {
                    anomaly("get_some_past_len");
                }
            }
            Mode::Iter => {
                for item in p.iter() {
                    let (k, e) = item?;
                    kvs.push((k.to_b(), V::view(m, &e)?));
                }
            }
        }
        Ok(Val::Umap(kvs))
    }
    fn view_mut(p: &mut UnsizedMap<K0, V>) -> R<Val> {
        let n = p.len();
        let mut kvs = vec![];
        for i in 0..n {
            match p.get_by_index_mut(i)? {
                Some((k, e)) => kvs.push((k.to_b(), V::view_mut(e)?)),
                None => anomaly("get_mut_none_below_len"),
            }
        }
        if p.get_by_index_mut(n)?.is_some() {
            anomaly("get_mut_some_past_len");
        }
        Ok(Val::Umap(kvs))
    }
}

#[allow(dead_code)]
fn _uses(_: Option<OrdOffset<u8>>) {}

// ------------------------------------------------------------------------------------------------
// AccountDiscriminant<T>

struct KDisc<K>(K);
impl<T: Ux + ProgramAccount + ?Sized, K: InitK<AccountDiscriminant<T>>> InitK<T> for KDisc<K> {
    type Out = K::Out;
    fn go<I: Clone + 'static>(self, i: I) -> K::Out
    where
        T: UnsizedInit<I>,
    {
        self.0.go(i)
    }
}
impl<T: Ux + ProgramAccount + ?Sized> WithInit for AccountDiscriminant<T> {
    fn with_init<K: InitK<Self>>(a: &Init, k: K) -> Option<K::Out> {
        T::with_init(a, KDisc(k))
    }
}
impl<T: Ux + ProgramAccount + ?Sized> Ux for AccountDiscriminant<T> {
    fn shape() -> Shape {
        Shape::Disc(T::discriminant_bytes(), Box::new(T::shape()))
    }
    fn to_val(o: &T::Owned) -> Val {
        T::to_val(o)
    }
    fn from_val(v: &Val) -> Option<T::Owned> {
        T::from_val(v)
    }
    fn view(m: Mode, p: &T::Ptr) -> R<Val> {
        T::view(m, p)
    }
    fn view_mut(p: &mut T::Ptr) -> R<Val> {
        T::view_mut(p)
    }
}

// ------------------------------------------------------------------------------------------------
// macros for `#[unsized_type]` structs and enums

/// Split the sized bytes of a struct into its fields.
pub fn split_sized(b: &[u8], widths: &[usize]) -> Option<Vec<Vec<u8>>> {
    if b.len() != widths.iter().sum::<usize>() {
        return None;
    }
    let mut o = 0;
    Some(
        widths
            .iter()
            .map(|w| {
                let r = b[o..o + w].to_vec();
                o += w;
                r
            })
            .collect(),
    )
}

/// `#[unsized_type] struct` WITH a sized part. Arity (number of unsized fields) 1..=3 for the
/// generated `…Init` struct dispatch.
#[macro_export]
macro_rules! ux_struct {
    (
        $name:ident, $owned:ident, $sized:ident, $init:ident,
        sized { $($sf:ident : $st:ty),+ },
        fields { $f0:ident : $t0:ty $(, $f:ident : $t:ty)* }
    ) => {
        #[unsized_type(skip_idl)]
        pub struct $name {
            $(pub $sf: $st,)+
            #[unsized_start]
            pub $f0: $t0,
            $(pub $f: $t,)*
        }
        impl $crate::ux::WithInit for $sized {
            fn with_init<K: $crate::ux::InitK<Self>>(a: &$crate::sx::Init, k: K) -> Option<K::Out> {
                match a {
                    $crate::sx::Init::Default => Some(k.go(DefaultInit)),
                    $crate::sx::Init::Owned(b) => Some(k.go(bytemuck::checked::try_pod_read_unaligned::<$sized>(b).ok()?)),
                    _ => None,
                }
            }
        }
        $crate::ux_struct!(@init $name, $init, [sized : $sized, $f0 : $t0 $(, $f : $t)*]);
        impl $crate::ux::Ux for $name {
            fn shape() -> $crate::sx::Shape {
                $crate::sx::Shape::Struct(
                    vec![$(<$st as $crate::ux::Fx>::fshape()),+],
                    vec![<$t0 as $crate::ux::Ux>::shape() $(, <$t as $crate::ux::Ux>::shape())*],
                )
            }
            fn to_val(o: &$owned) -> $crate::sx::Val {
                let mut sz = vec![];
                $(sz.extend($crate::ux::Fx::to_b(&{ o.$sf }));)+
                $crate::sx::Val::Record(sz, vec![<$t0 as $crate::ux::Ux>::to_val(&o.$f0) $(, <$t as $crate::ux::Ux>::to_val(&o.$f))*])
            }
            fn from_val(v: &$crate::sx::Val) -> Option<$owned> {
                let $crate::sx::Val::Record(sz, vs) = v else { return None };
                let parts = $crate::ux::split_sized(sz, &[$(std::mem::size_of::<$st>()),+])?;
                let mut pi = parts.iter();
                let mut vi = vs.iter();
                let o = $owned {
                    $($sf: <$st as $crate::ux::Fx>::from_b(pi.next()?)?,)+
                    $f0: <$t0 as $crate::ux::Ux>::from_val(vi.next()?)?,
                    $($f: <$t as $crate::ux::Ux>::from_val(vi.next()?)?,)*
                };
                if vi.next().is_some() { return None; }
                Some(o)
            }
            fn view(m: $crate::ux::Mode, p: &$name) -> $crate::ux::R<$crate::sx::Val> {
                let sz: &$sized = &**p;
                $crate::ux::touch(sz);
                let szb = bytemuck::bytes_of(sz).to_vec();
                Ok($crate::sx::Val::Record(szb, vec![
                    <$t0 as $crate::ux::Ux>::view(m, &p.$f0)?
                    $(, <$t as $crate::ux::Ux>::view(m, &p.$f)?)*
                ]))
            }
            fn view_mut(p: &mut $name) -> $crate::ux::R<$crate::sx::Val> {
                let szb = {
                    let sz: &mut $sized = &mut **p;
                    $crate::ux::touch(sz);
                    bytemuck::bytes_of(sz).to_vec()
                };
                Ok($crate::sx::Val::Record(szb, vec![
                    <$t0 as $crate::ux::Ux>::view_mut(&mut p.$f0)?
                    $(, <$t as $crate::ux::Ux>::view_mut(&mut p.$f)?)*
                ]))
            }
        }
    };
    // ---- no sized part
    (
        $name:ident, $owned:ident, $init:ident,
        fields { $f0:ident : $t0:ty $(, $f:ident : $t:ty)* }
    ) => {
        $crate::ux_struct!($name, $owned, $init, args [], fields { $f0 : $t0 $(, $f : $t)* });
    };
    // ---- no sized part, extra `#[unsized_type(...)]` arguments (program accounts)
    (
        $name:ident, $owned:ident, $init:ident, args [$($arg:tt)*],
        fields { $f0:ident : $t0:ty $(, $f:ident : $t:ty)* }
    ) => {
        #[unsized_type(skip_idl $($arg)*)]
        pub struct $name {
            #[unsized_start]
            pub $f0: $t0,
            $(pub $f: $t,)*
        }
        $crate::ux_struct!(@init $name, $init, [$f0 : $t0 $(, $f : $t)*]);
        impl $crate::ux::Ux for $name {
            fn shape() -> $crate::sx::Shape {
                $crate::sx::Shape::Struct(vec![], vec![<$t0 as $crate::ux::Ux>::shape() $(, <$t as $crate::ux::Ux>::shape())*])
            }
            fn to_val(o: &$owned) -> $crate::sx::Val {
                $crate::sx::Val::Record(vec![], vec![<$t0 as $crate::ux::Ux>::to_val(&o.$f0) $(, <$t as $crate::ux::Ux>::to_val(&o.$f))*])
            }
            fn from_val(v: &$crate::sx::Val) -> Option<$owned> {
                let $crate::sx::Val::Record(sz, vs) = v else { return None };
                if !sz.is_empty() { return None; }
                let mut vi = vs.iter();
                let o = $owned {
                    $f0: <$t0 as $crate::ux::Ux>::from_val(vi.next()?)?,
                    $($f: <$t as $crate::ux::Ux>::from_val(vi.next()?)?,)*
                };
                if vi.next().is_some() { return None; }
                Some(o)
            }
            fn view(m: $crate::ux::Mode, p: &$name) -> $crate::ux::R<$crate::sx::Val> {
                Ok($crate::sx::Val::Record(vec![], vec![
                    <$t0 as $crate::ux::Ux>::view(m, &p.$f0)?
                    $(, <$t as $crate::ux::Ux>::view(m, &p.$f)?)*
                ]))
            }
            fn view_mut(p: &mut $name) -> $crate::ux::R<$crate::sx::Val> {
                Ok($crate::sx::Val::Record(vec![], vec![
                    <$t0 as $crate::ux::Ux>::view_mut(&mut p.$f0)?
                    $(, <$t as $crate::ux::Ux>::view_mut(&mut p.$f)?)*
                ]))
            }
        }
    };
    // ---- `…Init { slot: I, … }` dispatch; slots = sized (if any) followed by the unsized fields
    (@init $name:ident, $init:ident, [$a:ident : $ta:ty]) => {
        impl $crate::ux::WithInit for $name {
            fn with_init<K: $crate::ux::InitK<Self>>(arg: &$crate::sx::Init, k: K) -> Option<K::Out> {
                use $crate::sx::Init;
                match arg {
                    Init::Default => Some(k.go(DefaultInit)),
                    Init::Fields(_, is) if is.len() == 1 => {
                        struct K0<K>(K);
                        impl<K: $crate::ux::InitK<$name>> $crate::ux::InitK<$ta> for K0<K> {
                            type Out = K::Out;
                            fn go<A: Clone + 'static>(self, a: A) -> K::Out where $ta: UnsizedInit<A> {
                                self.0.go($init { $a: a })
                            }
                        }
                        <$ta as $crate::ux::WithInit>::with_init(&is[0], K0(k))
                    }
                    _ => None,
                }
            }
        }
    };
    (@init $name:ident, $init:ident, [$a:ident : $ta:ty, $b:ident : $tb:ty]) => {
        impl $crate::ux::WithInit for $name {
            fn with_init<K: $crate::ux::InitK<Self>>(arg: &$crate::sx::Init, k: K) -> Option<K::Out> {
                use $crate::sx::Init;
                match arg {
                    Init::Default => Some(k.go(DefaultInit)),
                    Init::Fields(sz, is) => {
                        let slots: Vec<&Init> = $crate::ux::init_slots(stringify!($a), sz, is);
                        if slots.len() != 2 { return None; }
                        struct K0<'a, K>(&'a Init, K);
                        impl<'a, K: $crate::ux::InitK<$name>> $crate::ux::InitK<$ta> for K0<'a, K> {
                            type Out = Option<K::Out>;
                            fn go<A: Clone + 'static>(self, a: A) -> Self::Out where $ta: UnsizedInit<A> {
                                struct K1<A, K>(A, K);
                                impl<A: Clone + 'static, K: $crate::ux::InitK<$name>> $crate::ux::InitK<$tb> for K1<A, K> where $ta: UnsizedInit<A> {
                                    type Out = K::Out;
                                    fn go<B: Clone + 'static>(self, b: B) -> K::Out where $tb: UnsizedInit<B> {
                                        self.1.go($init { $a: self.0, $b: b })
                                    }
                                }
                                <$tb as $crate::ux::WithInit>::with_init(self.0, K1(a, self.1))
                            }
                        }
                        <$ta as $crate::ux::WithInit>::with_init(slots[0], K0(slots[1], k)).flatten()
                    }
                    _ => None,
                }
            }
        }
    };
    (@init $name:ident, $init:ident, [$a:ident : $ta:ty, $b:ident : $tb:ty, $c:ident : $tc:ty]) => {
        impl $crate::ux::WithInit for $name {
            fn with_init<K: $crate::ux::InitK<Self>>(arg: &$crate::sx::Init, k: K) -> Option<K::Out> {
                use $crate::sx::Init;
                match arg {
                    Init::Default => Some(k.go(DefaultInit)),
                    Init::Fields(sz, is) => {
                        let slots: Vec<&Init> = $crate::ux::init_slots(stringify!($a), sz, is);
                        if slots.len() != 3 { return None; }
                        struct K0<'a, K>(&'a Init, &'a Init, K);
                        impl<'a, K: $crate::ux::InitK<$name>> $crate::ux::InitK<$ta> for K0<'a, K> {
                            type Out = Option<K::Out>;
                            fn go<A: Clone + 'static>(self, a: A) -> Self::Out where $ta: UnsizedInit<A> {
                                struct K1<'a, A, K>(A, &'a Init, K);
                                impl<'a, A: Clone + 'static, K: $crate::ux::InitK<$name>> $crate::ux::InitK<$tb> for K1<'a, A, K> where $ta: UnsizedInit<A> {
                                    type Out = Option<K::Out>;
                                    fn go<B: Clone + 'static>(self, b: B) -> Self::Out where $tb: UnsizedInit<B> {
                                        struct K2<A, B, K>(A, B, K);
                                        impl<A: Clone + 'static, B: Clone + 'static, K: $crate::ux::InitK<$name>> $crate::ux::InitK<$tc> for K2<A, B, K>
                                        where $ta: UnsizedInit<A>, $tb: UnsizedInit<B> {
                                            type Out = K::Out;
                                            fn go<C: Clone + 'static>(self, c: C) -> K::Out where $tc: UnsizedInit<C> {
                                                self.2.go($init { $a: self.0, $b: self.1, $c: c })
                                            }
                                        }
                                        <$tc as $crate::ux::WithInit>::with_init(self.1, K2(self.0, b, self.2))
                                    }
                                }
                                <$tb as $crate::ux::WithInit>::with_init(self.0, K1(a, self.1, self.2)).flatten()
                            }
                        }
                        <$ta as $crate::ux::WithInit>::with_init(slots[0], K0(slots[1], slots[2], k)).flatten()
                    }
                    _ => None,
                }
            }
        }
    };
    (@init $name:ident, $init:ident, [$($rest:tt)*]) => {
        impl $crate::ux::WithInit for $name {
            fn with_init<K: $crate::ux::InitK<Self>>(arg: &$crate::sx::Init, k: K) -> Option<K::Out> {
                match arg {
                    $crate::sx::Init::Default => Some(k.go(DefaultInit)),
                    _ => None,
                }
            }
        }
    };
}

/// The init slots of a `(fields SIZED I1 … In)` argument: the sized slot participates only when
/// the first slot of the init struct is called `sized`.
pub fn init_slots<'a>(first: &str, sz: &'a Init, is: &'a [Init]) -> Vec<&'a Init> {
    let mut v = vec![];
    if first == "sized" {
        v.push(sz);
    }
    v.extend(is.iter());
    v
}

/// `#[unsized_type] #[repr(u8)] enum`; variant 0 carries `#[default_init]`.
#[macro_export]
macro_rules! ux_enum {
    // declaration order = shape order, the `#[default_init]` variant declared first
    (
        $name:ident, $owned:ident,
        first { $v0:ident = $d0:literal $( ( $p0:ty ) )? init $i0:ident },
        rest { $( $v:ident = $d:literal $( ( $p:ty ) )? init $i:ident ),* }
    ) => {
        $crate::ux_enum!(@def $name, $v0 = $d0 $(($p0))?, [$($v = $d $(($p))?),*]);
        $crate::ux_enum!(@impl $name, $owned, first { $v0 = $d0 $(($p0))? init $i0 }, rest { $($v = $d $(($p))? init $i),* });
    };
    // explicit Rust declaration `decl { … }` (any order, `#[default_init]` anywhere, implicit or
    // explicit discriminants); `first`/`rest` describe the SHAPE: the `#[default_init]` variant listed
    // first, then the others, each with its actual discriminant value
    (
        $name:ident, $owned:ident,
        decl { $($decl:tt)* },
        first { $v0:ident = $d0:literal $( ( $p0:ty ) )? init $i0:ident },
        rest { $( $v:ident = $d:literal $( ( $p:ty ) )? init $i:ident ),* }
    ) => {
        #[unsized_type(skip_idl)]
        #[repr(u8)]
        pub enum $name { $($decl)* }
        $crate::ux_enum!(@impl $name, $owned, first { $v0 = $d0 $(($p0))? init $i0 }, rest { $($v = $d $(($p))? init $i),* });
    };
    (
        @impl $name:ident, $owned:ident,
        first { $v0:ident = $d0:literal $( ( $p0:ty ) )? init $i0:ident },
        rest { $( $v:ident = $d:literal $( ( $p:ty ) )? init $i:ident ),* }
    ) => {
        impl $crate::ux::Ux for $name {
            fn shape() -> $crate::sx::Shape {
                $crate::sx::Shape::Enum(vec![
                    ($d0, $crate::ux_enum!(@pshape $($p0)?))
                    $(, ($d, $crate::ux_enum!(@pshape $($p)?)))*
                ])
            }
            fn to_val(o: &$owned) -> $crate::sx::Val {
                #[allow(unused_mut, unused_assignments)]
                {
                    let mut idx = 0usize;
                    $crate::ux_enum!(@toval o, $owned, idx, $v0 $(($p0))?);
                    $( idx += 1; $crate::ux_enum!(@toval o, $owned, idx, $v $(($p))?); )*
                }
                unreachable!()
            }
            fn from_val(v: &$crate::sx::Val) -> Option<$owned> {
                let $crate::sx::Val::Variant(i, payload) = v else { return None };
                #[allow(unused_mut, unused_assignments)]
                {
                    let mut idx = 0usize;
                    $crate::ux_enum!(@fromval i, payload, $owned, idx, $v0 $(($p0))?);
                    $( idx += 1; $crate::ux_enum!(@fromval i, payload, $owned, idx, $v $(($p))?); )*
                }
                None
            }
            fn view(m: $crate::ux::Mode, p: &star_frame::unsize::wrapper::StartPointer<$name>) -> $crate::ux::R<$crate::sx::Val> {
                #[allow(unused_mut, unused_assignments)]
                {
                    let mut idx = 0usize;
                    $crate::ux_enum!(@view m, p, $name, idx, $v0 $(($p0))?);
                    $( idx += 1; $crate::ux_enum!(@view m, p, $name, idx, $v $(($p))?); )*
                }
                unreachable!()
            }
            fn view_mut(p: &mut star_frame::unsize::wrapper::StartPointer<$name>) -> $crate::ux::R<$crate::sx::Val> {
                #[allow(unused_mut, unused_assignments)]
                {
                    let mut idx = 0usize;
                    $crate::ux_enum!(@viewmut p, $name, idx, $v0 $(($p0))?);
                    $( idx += 1; $crate::ux_enum!(@viewmut p, $name, idx, $v $(($p))?); )*
                }
                unreachable!()
            }
        }
        impl $crate::ux::WithInit for $name {
            fn with_init<K: $crate::ux::InitK<Self>>(arg: &$crate::sx::Init, k: K) -> Option<K::Out> {
                use $crate::sx::Init;
                match arg {
                    Init::Default => Some(k.go(DefaultInit)),
                    Init::Variant(i, a) => {
                        let _ = a;
                        #[allow(unused_mut, unused_assignments)]
                        {
                            let mut idx = 0usize;
                            if *i == idx { $crate::ux_enum!(@init $name, k, a, $i0 $(, $p0)?); }
                            $( idx += 1; if *i == idx { $crate::ux_enum!(@init $name, k, a, $i $(, $p)?); } )*
                        }
                        None
                    }
                    _ => None,
                }
            }
        }
    };
    (@def $name:ident, $v0:ident = $d0:literal $(($p0:ty))?, [$($v:ident = $d:literal $(($p:ty))?),*]) => {
        #[unsized_type(skip_idl)]
        #[repr(u8)]
        pub enum $name {
            #[default_init]
            $v0 $(($p0))? = $d0,
            $($v $(($p))? = $d,)*
        }
    };
    (@pshape) => { None };
    (@pshape $p:ty) => { Some(<$p as $crate::ux::Ux>::shape()) };
    (@toval $o:ident, $owned:ident, $idx:ident, $v:ident) => {
        if let $owned::$v = $o { return $crate::sx::Val::Variant($idx, None); }
    };
    (@toval $o:ident, $owned:ident, $idx:ident, $v:ident ($p:ty)) => {
        if let $owned::$v(x) = $o { return $crate::sx::Val::Variant($idx, Some(Box::new(<$p as $crate::ux::Ux>::to_val(x)))); }
    };
    (@fromval $i:ident, $payload:ident, $owned:ident, $idx:ident, $v:ident) => {
        if *$i == $idx { return if $payload.is_none() { Some($owned::$v) } else { None }; }
    };
    (@fromval $i:ident, $payload:ident, $owned:ident, $idx:ident, $v:ident ($p:ty)) => {
        if *$i == $idx { return Some($owned::$v(<$p as $crate::ux::Ux>::from_val($payload.as_deref()?)?)); }
    };
    (@view $m:ident, $ptr:ident, $name:ident, $idx:ident, $v:ident) => {
        if let $name::$v = &**$ptr { return Ok($crate::sx::Val::Variant($idx, None)); }
    };
    (@view $m:ident, $ptr:ident, $name:ident, $idx:ident, $v:ident ($p:ty)) => {
        if let $name::$v(inner) = &**$ptr { return Ok($crate::sx::Val::Variant($idx, Some(Box::new(<$p as $crate::ux::Ux>::view($m, inner)?)))); }
    };
    (@viewmut $ptr:ident, $name:ident, $idx:ident, $v:ident) => {
        if let $name::$v = &mut **$ptr { return Ok($crate::sx::Val::Variant($idx, None)); }
    };
    (@viewmut $ptr:ident, $name:ident, $idx:ident, $v:ident ($p:ty)) => {
        if let $name::$v(inner) = &mut **$ptr { return Ok($crate::sx::Val::Variant($idx, Some(Box::new(<$p as $crate::ux::Ux>::view_mut(inner)?)))); }
    };
    // unit variant init struct
    (@init $name:ident, $k:ident, $a:ident, $i:ident) => {
        return Some($k.go($i));
    };
    (@init $name:ident, $k:ident, $a:ident, $i:ident, $p:ty) => {
        {
            struct KV<K>(K);
            impl<K: $crate::ux::InitK<$name>> $crate::ux::InitK<$p> for KV<K> {
                type Out = K::Out;
                fn go<A: Clone + 'static>(self, a: A) -> K::Out where $p: UnsizedInit<A> {
                    self.0.go($i(a))
                }
            }
            return <$p as $crate::ux::WithInit>::with_init($a, KV($k));
        }
    };
}

/// A GENERIC `#[unsized_type]` struct with one type parameter `A` (a fixed type used in the sized
/// part and as the list element) and one unsized field `items: List<A, u8>`. For generic structs the
/// macro writes the `CheckedBitPattern` impl of the `…Sized` part itself; `args` selects
/// `skip_phantom_generics` (no leading `PhantomData` marker in the sized struct) or not.
#[macro_export]
macro_rules! ux_generic_struct {
    ($name:ident, $owned:ident, $sized:ident, args [$($arg:tt)*], sized { $($sf:ident : $st:ty),+ }) => {
        #[unsized_type(skip_idl $($arg)*)]
        pub struct $name<A: star_frame::unsize::impls::UnsizedGenerics> {
            $(pub $sf: $st,)+
            #[unsized_start]
            pub items: List<A, u8>,
        }
        impl<A: $crate::ux::Fx + star_frame::unsize::impls::UnsizedGenerics> $crate::ux::WithInit for $name<A>
        where
            $sized<A>: UnsizedInit<DefaultInit>,
        {
            fn with_init<K: $crate::ux::InitK<Self>>(a: &$crate::sx::Init, k: K) -> Option<K::Out> {
                match a {
                    $crate::sx::Init::Default => Some(k.go(DefaultInit)),
                    _ => None,
                }
            }
        }
        impl<A: $crate::ux::Fx + star_frame::unsize::impls::UnsizedGenerics> $crate::ux::Ux for $name<A>
        where
            $sized<A>: UnsizedInit<DefaultInit>,
        {
            fn shape() -> $crate::sx::Shape {
                $crate::sx::Shape::Struct(vec![$(<$st as $crate::ux::Fx>::fshape()),+], vec![<List<A, u8> as $crate::ux::Ux>::shape()])
            }
            fn to_val(o: &$owned<A>) -> $crate::sx::Val {
                let mut sz = vec![];
                $(sz.extend($crate::ux::Fx::to_b(&{ o.$sf }));)+
                $crate::sx::Val::Record(sz, vec![<List<A, u8> as $crate::ux::Ux>::to_val(&o.items)])
            }
            fn from_val(v: &$crate::sx::Val) -> Option<$owned<A>> {
                let $crate::sx::Val::Record(sz, vs) = v else { return None };
                if vs.len() != 1 { return None; }
                let parts = $crate::ux::split_sized(sz, &[$(std::mem::size_of::<$st>()),+])?;
                let mut pi = parts.iter();
                Some($owned {
                    $($sf: <$st as $crate::ux::Fx>::from_b(pi.next()?)?,)+
                    items: <List<A, u8> as $crate::ux::Ux>::from_val(&vs[0])?,
                })
            }
            fn view(m: $crate::ux::Mode, p: &$name<A>) -> $crate::ux::R<$crate::sx::Val> {
                let sz: &$sized<A> = p;
                $crate::ux::touch(sz);
                Ok($crate::sx::Val::Record(bytemuck::bytes_of(sz).to_vec(), vec![<List<A, u8> as $crate::ux::Ux>::view(m, &p.items)?]))
            }
            fn view_mut(p: &mut $name<A>) -> $crate::ux::R<$crate::sx::Val> {
                let szb = {
                    let sz: &mut $sized<A> = p;
                    bytemuck::bytes_of(sz).to_vec()
                };
                Ok($crate::sx::Val::Record(szb, vec![<List<A, u8> as $crate::ux::Ux>::view_mut(&mut p.items)?]))
            }
        }
    };
}
