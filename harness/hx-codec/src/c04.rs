//! C04 — safe parsing of arbitrary bytes is memory-safe and never admits invalid values.
//!
//! Every op runs in a CHILD process (this binary re-executed with `__child`), with the input bytes
//! placed flush against a `PROT_NONE` guard page, so an out-of-bounds read is a SIGSEGV of the
//! child — observed by the parent as the answer `crash` (an oracle failure) for exactly that op.
use crate::{
    exec::{exec, State},
    family::{registry, Registry},
    gen::{default_val, field_mutants, gen_val, ref_bytes},
};
use hx_common::{hex, Args, Recorder, Rng};
use std::{
    fs,
    io::Write,
    path::{Path, PathBuf},
    process::Command,
};

pub const RULE: &str = "a case is non-trivial if its input is not a valid encoding (truncated, extended, corrupted or random) or some API answers err/panic";

const OPS: &[&str] = &["ptr", "owned", "view", "iter", "xview"];

fn push_case(cases: &mut Vec<Vec<String>>, id: &mut usize, name: &str, header: &str, kind: &str, bytes: &[u8], acct: bool) {
    let h = hex(bytes);
    let mut l = vec![format!("case {id} {name} {kind}"), header.to_string()];
    for op in OPS {
        l.push(format!("{op} {h}"));
    }
    if acct {
        l.push(format!("desa {h}"));
    }
    cases.push(l);
    *id += 1;
}

pub fn generate(reg: &Registry, args: &Args) -> Vec<Vec<String>> {
    let mut rng = Rng::new(args.seed ^ 0xC04);
    let mut cases = vec![];
    let mut id = 0usize;
    let (n_bases, n_random, max_trunc) = if args.thorough() { (12, 150, 400) } else { (4, 30, 48) };
    for (name, t) in reg.iter() {
        let shape = t.shape();
        let header = format!("shape {name} {}", shape.show());
        let acct = t.is_account();
        let mut r = rng.fork();
        let mut bases = vec![default_val(&shape)];
        for k in 0..n_bases {
            bases.push(gen_val(&shape, &mut r, [2usize, 3, 4][k % 3]));
        }
        for (bi, v) in bases.iter().enumerate() {
            let (rb, fields) = ref_bytes(&shape, v);
            push_case(&mut cases, &mut id, name, &header, "valid", &rb, acct);
            // truncations at every length (sampled when long), extensions
            let lens: Vec<usize> = if rb.len() <= max_trunc {
                (0..rb.len()).collect()
            } else {
                let mut ls: Vec<usize> = (0..16).chain(rb.len() - 16..rb.len()).collect();
                for _ in 0..max_trunc - 32 {
                    ls.push(r.below(rb.len() as u64) as usize);
                }
                ls.sort();
                ls.dedup();
                ls
            };
            for n in lens {
                push_case(&mut cases, &mut id, name, &header, "trunc", &rb[..n], acct);
            }
            for extra in [1usize, 4, 9] {
                let mut b = rb.clone();
                b.extend(r.bytes(extra));
                push_case(&mut cases, &mut id, name, &header, "extend", &b, acct);
            }
            // every length / offset / discriminant / flag field replaced
            let muts = field_mutants(&rb, &fields);
            let keep = if args.thorough() || bi == 0 { muts.len() } else { muts.len().min(160) };
            let step = (muts.len() as f64 / keep.max(1) as f64).max(1.0);
            let mut k = 0.0f64;
            while (k as usize) < muts.len() {
                let (what, b) = &muts[k as usize];
                let kind = format!("field {}", what.split('@').next().unwrap_or(""));
                push_case(&mut cases, &mut id, name, &header, &kind, b, acct);
                k += step;
            }
            // a few random byte flips of the valid encoding
            for _ in 0..(if args.thorough() { 30 } else { 10 }) {
                if rb.is_empty() {
                    break;
                }
                let mut b = rb.clone();
                for _ in 0..1 + r.below(3) {
                    let i = r.below(b.len() as u64) as usize;
                    b[i] = r.next() as u8;
                }
                push_case(&mut cases, &mut id, name, &header, "flip", &b, acct);
            }
        }
        // random byte strings; small alphabets make plausible headers likelier
        for k in 0..n_random {
            let n = r.below(48) as usize;
            let b: Vec<u8> = match k % 3 {
                0 => r.bytes(n),
                1 => (0..n).map(|_| *r.pick(&[0u8, 0, 0, 1, 2, 3, 4, 8, 12, 0xff])).collect(),
                _ => (0..n).map(|_| r.below(6) as u8).collect(),
            };
            push_case(&mut cases, &mut id, name, &header, "random", &b, acct);
        }
    }
    cases
}

fn sanitize(s: &str) -> String {
    s.replace(['\t', '\n', '\r'], " ")
}

/// Child mode: execute `ops_file` from line `resume` on (earlier `shape` lines only restore the
/// state), append one line per op to `out_file`: `answer` then `\tclass\tdetail` per failure.
pub fn child(ops_file: &Path, out_file: &Path, resume: usize) {
    hx_common::quiet_panics();
    let reg = registry();
    let text = fs::read_to_string(ops_file).expect("ops file");
    let mut out = fs::OpenOptions::new().create(true).append(true).open(out_file).expect("out file");
    let mut st = State { cur: None };
    for (i, line) in text.lines().enumerate() {
        if line.starts_with("case") {
            st = State { cur: None };
            if i >= resume {
                writeln!(out, "case").unwrap();
            }
            continue;
        }
        if i < resume {
            if line.starts_with("shape ") {
                let _ = exec(&reg, &mut st, line);
            }
            continue;
        }
        let o = exec(&reg, &mut st, line);
        let mut s = o.answer.clone();
        for (c, d) in &o.fails {
            s.push('\t');
            s.push_str(&sanitize(c));
            s.push('\t');
            s.push_str(&sanitize(d));
        }
        writeln!(out, "{s}").unwrap();
        out.flush().unwrap();
    }
}

/// Run one batch of cases in child processes; returns one `(answer, fails)` per line.
fn run_batch(exe: &Path, dir: &Path, tag: usize, lines: &[String]) -> Vec<(String, Vec<(String, String)>)> {
    let ops_file = dir.join(format!("batch{tag}.ops"));
    let out_file = dir.join(format!("batch{tag}.out"));
    fs::write(&ops_file, lines.join("\n") + "\n").unwrap();
    let _ = fs::remove_file(&out_file);
    let mut results: Vec<(String, Vec<(String, String)>)> = vec![];
    let mut resume = 0usize;
    let mut spawns = 0;
    while results.len() < lines.len() {
        spawns += 1;
        let _ = fs::remove_file(&out_file);
        let status = Command::new(exe).arg("__child").arg(&ops_file).arg(&out_file).arg(resume.to_string()).status().expect("spawn child");
        let text = fs::read_to_string(&out_file).unwrap_or_default();
        for l in text.lines() {
            let mut parts = l.split('\t');
            let answer = parts.next().unwrap_or("").to_string();
            let rest: Vec<&str> = parts.collect();
            let fails = rest.chunks(2).filter(|c| c.len() == 2).map(|c| (c[0].to_string(), c[1].to_string())).collect();
            results.push((answer, fails));
        }
        if results.len() < lines.len() {
            // the child died on line `results.len()`
            let how = match status.code() {
                Some(c) => format!("exit code {c}"),
                None => {
                    use std::os::unix::process::ExitStatusExt;
                    format!("signal {}", status.signal().unwrap_or(0))
                }
            };
            let idx = results.len();
            results.push(("crash".into(), vec![("crash".into(), format!("child process died ({how}) while executing: {}", lines[idx]))]));
            resume = results.len();
            if spawns > 2000 {
                while results.len() < lines.len() {
                    results.push(("crash".into(), vec![]));
                }
            }
        }
    }
    let _ = fs::remove_file(&ops_file);
    let _ = fs::remove_file(&out_file);
    results
}

pub type OpResult = (String, Vec<(String, String)>);

/// Run all cases in child processes (batches of whole cases, a small pool of threads, one child per
/// batch, resumed after a crash). Returns the batches (flattened op lines) and one result per line.
pub fn run_in_children(cases: &[Vec<String>], args: &Args) -> (Vec<(usize, Vec<String>)>, Vec<Vec<OpResult>>) {
    let exe: PathBuf = std::env::current_exe().expect("current exe");
    let dir = args.out.join("child");
    fs::create_dir_all(&dir).unwrap();
    // batches of whole cases, run by a small pool of threads (each batch = one child process)
    let per = 250usize;
    let batches: Vec<(usize, Vec<String>)> = cases.chunks(per).enumerate().map(|(i, cs)| (i, cs.iter().flatten().cloned().collect())).collect();
    let nthreads = std::thread::available_parallelism().map(|n| n.get()).unwrap_or(4).clamp(1, 12);
    let results: Vec<Vec<(String, Vec<(String, String)>)>> = {
        let next = std::sync::atomic::AtomicUsize::new(0);
        let slots: Vec<std::sync::Mutex<Option<Vec<(String, Vec<(String, String)>)>>>> = batches.iter().map(|_| std::sync::Mutex::new(None)).collect();
        std::thread::scope(|s| {
            for _ in 0..nthreads {
                s.spawn(|| loop {
                    let i = next.fetch_add(1, std::sync::atomic::Ordering::SeqCst);
                    if i >= batches.len() {
                        break;
                    }
                    let r = run_batch(&exe, &dir, batches[i].0, &batches[i].1);
                    *slots[i].lock().unwrap() = Some(r);
                });
            }
        });
        slots.into_iter().map(|m| m.into_inner().unwrap().unwrap()).collect()
    };
    let _ = fs::remove_dir_all(&dir);
    (batches, results)
}

pub fn main(args: &Args) {
    let reg = registry();
    let mut rec = Recorder::new(RULE);
    let cases = match args.replay_cases() {
        Some(c) => c,
        None => {
            let mut c = crate::corpus_cases("C04");
            c.extend(generate(&reg, args));
            c
        }
    };
    let cases: Vec<Vec<String>> = cases.into_iter().filter(|c| !c.is_empty() && c[0].starts_with("case")).collect();
    let (batches, results) = run_in_children(&cases, args);
    let mut crashes = 0u64;
    for ((_, lines), res) in batches.iter().zip(results) {
        let mut nontrivial = false;
        let mut in_case = false;
        for (l, (answer, fails)) in lines.iter().zip(res) {
            if l.starts_with("case") {
                if in_case && nontrivial {
                    rec.mark_nontrivial();
                }
                if in_case {
                    rec.sample_current(5);
                }
                rec.case(l);
                in_case = true;
                nontrivial = !l.ends_with(" valid");
                let kind = l.split(' ').nth(3).unwrap_or("");
                rec.bump(&format!("input:{kind}"));
                rec.bump(&format!("type:{}", l.split(' ').nth(2).unwrap_or("")));
                continue;
            }
            if answer.starts_with("err") || answer == "panic" || answer == "crash" {
                nontrivial = true;
            }
            if answer == "crash" {
                crashes += 1;
            }
            let op = l.split(' ').next().unwrap_or("");
            rec.bump(&format!("answer:{op}:{}", answer.split(' ').next().unwrap_or("")));
            rec.op(l, &answer);
            for (class, detail) in fails {
                rec.fail(&class, &format!("{l} => {detail}"));
            }
        }
        if in_case && nontrivial {
            rec.mark_nontrivial();
        }
    }
    rec.extra.insert("child_crashes".into(), serde_json::json!(crashes));
    rec.extra.insert("types".into(), serde_json::json!(reg.iter().map(|(n, t)| format!("{n} {}", t.shape().show())).collect::<Vec<_>>()));
    rec.finish(args);
}
