//! C05 — serialize / initialize / deserialize round trip with exact size accounting.
use crate::{
    family::{registry, Registry},
    gen::{default_val, gen_init, gen_val, ref_bytes},
    sx::{show_init, show_val, Shape, Val},
};
use hx_common::{hex, Args, Recorder, Rng};

pub const RULE: &str = "a case is non-trivial if it serializes a non-default value, runs an initializer other than DefaultInit, or reaches an error/panic/rejection answer";

/// Record one case from the per-line results of the child processes.
fn record_case(rec: &mut Recorder, lines: &[String], res: &[crate::c04::OpResult]) {
    rec.case(&lines[0]);
    let mut nontrivial = lines[0].contains(" random") || lines[0].contains(" boundary") || lines[0].contains(" initarg") || lines[0].contains(" discdev") || lines[0].contains(" corpus");
    for (l, (answer, fails)) in lines[1..].iter().zip(res) {
        if answer.starts_with("err") || answer == "panic" || answer == "crash" {
            nontrivial = true;
        }
        let op = l.split(' ').next().unwrap_or("");
        rec.bump(&format!("op:{op}"));
        rec.bump(&format!("answer:{}", answer.split(' ').next().unwrap_or("")));
        rec.op(l, answer);
        for (class, detail) in fails {
            rec.fail(class, &format!("{l} => {detail}"));
        }
    }
    if nontrivial {
        rec.mark_nontrivial();
    }
    rec.sample_current(5);
}

fn value_ops(shape: &Shape, v: &Val, is_acct: bool, rng: &mut Rng, out: &mut Vec<String>) {
    let vt = show_val(shape, v);
    let (rb, _) = ref_bytes(shape, v);
    out.push(format!("enc {vt}"));
    out.push(format!("sert {vt}"));
    out.push(format!("dec {}", hex(&rb)));
    if !shape.zst() {
        let mut ext = rb.clone();
        let extra = 1 + rng.below(4) as usize;
        ext.extend(rng.bytes(extra));
        out.push(format!("dec {}", hex(&ext)));
    }
    out.push(format!("tbs {vt}"));
    if !rb.is_empty() {
        out.push(format!("encs {} {vt}", rb.len() - 1));
        if rng.chance(1, 2) {
            out.push(format!("encs {} {vt}", rng.below(rb.len() as u64)));
        }
    }
    out.push(format!("encs {} {vt}", rb.len() + 5));
    if is_acct {
        out.push(format!("sera {vt}"));
        out.push(format!("desa {}", hex(&rb)));
    }
}

/// A value with `n` elements in the first prefixed container found (for prefix-overflow boundaries).
fn boundary_val(s: &Shape, n: usize, rng: &mut Rng) -> Option<Val> {
    match s {
        Shape::List(e, _) => Some(Val::Seq((0..n).map(|_| crate::gen::gen_fixed(e, rng)).collect())),
        Shape::Set(e, _) if e.size() >= 2 || n <= 256 => {
            Some(Val::Seq((0..n).map(|i| (0..e.size()).map(|b| ((i >> (8 * b)) & 0xff) as u8).collect()).collect()))
        }
        Shape::Map(kw, v, _) if *kw >= 2 || n <= 256 => Some(Val::Seq(
            (0..n)
                .map(|i| {
                    let mut k: Vec<u8> = (0..*kw).map(|b| ((i >> (8 * b)) & 0xff) as u8).collect();
                    k.extend(crate::gen::gen_fixed(v, rng));
                    k
                })
                .collect(),
        )),
        Shape::Str(_) => Some(Val::Bytes(vec![b'a'; n])),
        Shape::Struct(_, fs) => {
            let Val::Record(sz, mut vs) = default_val(s) else { return None };
            for (i, f) in fs.iter().enumerate() {
                if let Some(b) = boundary_val(f, n, rng) {
                    vs[i] = b;
                    return Some(Val::Record(sz, vs));
                }
            }
            None
        }
        Shape::Ulist(e) => {
            // a small element first: the oversized one is met after the header AND an element
            let big = boundary_val(e, n, rng)?;
            Some(Val::Useq(vec![crate::gen::gen_val(e, rng, 2), big]))
        }
        _ => None,
    }
}

fn has_sorted(s: &Shape) -> bool {
    match s {
        Shape::Set(..) | Shape::Map(..) | Shape::Umap(..) => true,
        Shape::Struct(_, fs) => fs.iter().any(has_sorted),
        Shape::Ulist(e) => has_sorted(e),
        Shape::Enum(vs) => vs.iter().any(|(_, p)| p.as_ref().map(has_sorted).unwrap_or(false)),
        Shape::Disc(_, i) => has_sorted(i),
        _ => false,
    }
}

fn first_lw(s: &Shape) -> Option<usize> {
    match s {
        Shape::List(_, lw) | Shape::Set(_, lw) | Shape::Map(_, _, lw) | Shape::Str(lw) => Some(*lw),
        Shape::Struct(_, fs) => fs.iter().find_map(first_lw),
        Shape::Ulist(e) => first_lw(e),
        _ => None,
    }
}

pub fn generate(reg: &Registry, args: &Args) -> Vec<Vec<String>> {
    let mut rng = Rng::new(args.seed);
    let mut cases: Vec<Vec<String>> = vec![];
    let n_random = if args.thorough() { 150 } else { 30 };
    let n_init = if args.thorough() { 60 } else { 14 };
    let mut id = 0usize;
    for (name, t) in reg.iter() {
        let shape = t.shape();
        let header = format!("shape {name} {}", shape.show());
        let is_acct = t.is_account();
        let mut r = rng.fork();
        // default value
        {
            let mut l = vec![format!("case {id} {name} default"), header.clone()];
            value_ops(&shape, &default_val(&shape), is_acct, &mut r, &mut l);
            l.push("init default".into());
            cases.push(l);
            id += 1;
        }
        for k in 0..n_random {
            let budget = [1usize, 2, 3, 5, 8][k % 5];
            let v = gen_val(&shape, &mut r, budget);
            let mut l = vec![format!("case {id} {name} random"), header.clone()];
            value_ops(&shape, &v, is_acct, &mut r, &mut l);
            cases.push(l);
            id += 1;
        }
        // test buffer after a resize through data_mut(): grow and shrink
        if !is_acct {
            let n_pairs = if args.thorough() { 20 } else { 5 };
            let mut l = vec![format!("case {id} {name} random resize"), header.clone()];
            for k in 0..n_pairs {
                let v1 = if k == 0 { default_val(&shape) } else { gen_val(&shape, &mut r, [1usize, 4, 2, 6][k % 4]) };
                let v2 = if k == 1 { default_val(&shape) } else { gen_val(&shape, &mut r, [5usize, 1, 3, 2][k % 4]) };
                l.push(format!("tbr {} | {}", show_val(&shape, &v1), show_val(&shape, &v2)));
            }
            cases.push(l);
            id += 1;
        }
        // prefix boundaries: 255 / 256 elements under a u8 prefix, 65535 / 65536 under u16 (thorough)
        if let Some(lw) = first_lw(&shape) {
            let mut ns = vec![];
            if lw == 1 {
                ns.extend([255usize, 256, 300]);
            }
            // (lists and strings only: the model's sorted-insert / pairwise-order checks are quadratic)
            if lw == 2 && args.thorough() && !has_sorted(&shape) {
                ns.extend([65535usize, 65536]);
            }
            for n in ns {
                if let Some(v) = boundary_val(&shape, n, &mut r) {
                    if !crate::sx::valid_bits(&shape, &v, true) {
                        continue;
                    }
                    let vt = show_val(&shape, &v);
                    let mut l = vec![format!("case {id} {name} boundary {n}"), header.clone(), format!("enc {vt}"), format!("sert {vt}"), format!("tbs {vt}")];
                    if crate::sx::fits(&shape, &v) {
                        l.push(format!("dec {}", hex(&ref_bytes(&shape, &v).0)));
                    } else {
                        // which error comes first depends on how much was written before the unfit list
                        for cap in [0usize, 1, 2, 3, 4, 8, 9, 11, 12, 13, 15, 16, 17, 19, 20, 21, 22, 23, 24, 30, 40] {
                            l.push(format!("encs {cap} {vt}"));
                        }
                    }
                    cases.push(l);
                    id += 1;
                }
            }
        }
        // initializer arguments
        {
            let mut l = vec![format!("case {id} {name} initarg"), header.clone()];
            let mut seen = std::collections::BTreeSet::new();
            for _ in 0..n_init * 3 {
                let a = gen_init(&shape, &mut r);
                if t.init(&a).is_none() {
                    continue;
                }
                let text = show_init(&a);
                if seen.insert(text.clone()) {
                    l.push(format!("init {text}"));
                }
                if seen.len() >= n_init {
                    break;
                }
            }
            cases.push(l);
            id += 1;
        }
        // account helpers: every single-byte deviation of the discriminant, truncations around it
        if let Shape::Disc(d, _) = &shape {
            for k in 0..3 {
                let v = if k == 0 { default_val(&shape) } else { gen_val(&shape, &mut r, 3) };
                let (rb, _) = ref_bytes(&shape, &v);
                let mut l = vec![format!("case {id} {name} discdev"), header.clone(), format!("sera {}", show_val(&shape, &v)), format!("desa {}", hex(&rb))];
                for i in 0..d.len() {
                    for delta in [1u8, 0xff, 0x80] {
                        let mut b = rb.clone();
                        b[i] = b[i].wrapping_add(delta);
                        l.push(format!("desa {}", hex(&b)));
                    }
                    for val in [0u8, 0xff] {
                        if rb[i] != val {
                            let mut b = rb.clone();
                            b[i] = val;
                            l.push(format!("desa {}", hex(&b)));
                        }
                    }
                    // discriminant prefix only: first i bytes right, rest of the data shifted
                    let mut b = rb[..i].to_vec();
                    b.extend(&rb[d.len()..]);
                    l.push(format!("desa {}", hex(&b)));
                }
                for n in 0..=(d.len() + 1).min(rb.len()) {
                    l.push(format!("desa {}", hex(&rb[..n])));
                    l.push(format!("dec {}", hex(&rb[..n])));
                }
                cases.push(l);
                id += 1;
            }
        }
    }
    cases
}

pub fn main(args: &Args) {
    let reg = registry();
    let mut rec = Recorder::new(RULE);
    let cases = match args.replay_cases() {
        Some(c) => c,
        None => {
            let mut c = crate::corpus_cases("C05");
            c.extend(generate(&reg, args));
            c
        }
    };
    // Like C04, every op runs in a child process: a mutated library can abort (e.g. a debug assertion
    // failing while a wrapper unwinds); that must be the answer `crash` of ONE op, not the end of the run.
    let cases: Vec<Vec<String>> = cases.into_iter().filter(|c| !c.is_empty() && c[0].starts_with("case")).collect();
    let (batches, results) = crate::c04::run_in_children(&cases, args);
    let mut crashes = 0u64;
    for ((_, lines), res) in batches.iter().zip(results) {
        let starts: Vec<usize> = lines.iter().enumerate().filter(|(_, l)| l.starts_with("case")).map(|(i, _)| i).collect();
        for (k, &st) in starts.iter().enumerate() {
            let en = starts.get(k + 1).copied().unwrap_or(lines.len());
            crashes += res[st + 1..en].iter().filter(|r| r.0 == "crash").count() as u64;
            record_case(&mut rec, &lines[st..en], &res[st + 1..en]);
        }
    }
    rec.extra.insert("child_crashes".into(), serde_json::json!(crashes));
    rec.extra.insert("types".into(), serde_json::json!(reg.iter().map(|(n, t)| format!("{n} {}", t.shape().show())).collect::<Vec<_>>()));
    rec.finish(args);
}
