//! The harness program and its `#[unsized_type]` program accounts.
use star_frame::prelude::*;

#[derive(StarFrameProgram)]
#[program(instruction_set = (), id = "HxReb11111111111111111111111111111111111111", no_entrypoint)]
pub struct HxReborrow;

/// `two`: two byte lists.
#[unsized_type(program_account, skip_idl)]
pub struct Two {
    #[unsized_start]
    pub a: List<u8>,
    pub b: List<u8>,
}

/// `tail`: a byte list followed by a (possibly empty) `RemainingBytes` tail.
#[unsized_type(program_account, skip_idl)]
pub struct Tail {
    #[unsized_start]
    pub a: List<u8>,
    pub tail: RemainingBytes,
}

/// `ul`: an 8-byte sized header, a byte list, an `UnsizedList` of byte lists, a byte list.
#[unsized_type(program_account, skip_idl)]
pub struct Ul {
    pub hdr: [u8; 8],
    #[unsized_start]
    pub a: List<u8>,
    pub items: UnsizedList<List<u8>>,
    pub b: List<u8>,
}
