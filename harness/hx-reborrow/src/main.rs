//! Correspondence harness for C07 (re-borrowing account data after any resize history).
mod c07;
pub mod types;
pub use types::StarFrameDeclaredProgram;

fn main() {
    let args = hx_common::Args::parse();
    hx_common::quiet_panics();
    match args.prop.as_str() {
        "C07" => c07::run(&args),
        other => panic!("hx-reborrow: unknown property {other}"),
    }
}
