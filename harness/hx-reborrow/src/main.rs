//! Correspondence harness for C07 (re-borrowing account data after any resize history).
//!
//! The real work runs in a child process (re-exec of this binary with `HX_CHILD=1`): a change to the code
//! under test that corrupts memory makes the child abort (SIGSEGV / UB-check abort) instead of panicking.
//! The supervisor then reports the case the child was executing as an oracle failure of class
//! `process_abort`, so the check gets a failing input instead of a dead harness.
mod c07;
pub mod types;
pub use types::StarFrameDeclaredProgram;

fn main() {
    let args = hx_common::Args::parse();
    if args.prop != "C07" {
        panic!("hx-reborrow: unknown property {}", args.prop);
    }
    if std::env::var_os("HX_CHILD").is_some() {
        if std::env::var_os("HX_LOUD").is_none() {
            hx_common::quiet_panics();
        }
        c07::run(&args);
        return;
    }
    let progress = args.out.join("current_case.txt");
    let _ = std::fs::remove_file(&progress);
    let status = std::process::Command::new(std::env::current_exe().expect("current_exe"))
        .args(std::env::args().skip(1))
        .env("HX_CHILD", "1")
        .status()
        .expect("spawn child");
    if status.success() {
        let _ = std::fs::remove_file(&progress);
        return;
    }
    // the child died: report the case it was executing
    let text = std::fs::read_to_string(&progress).unwrap_or_default();
    let mut lines = text.lines();
    let header = lines.next().filter(|h| h.starts_with("case")).unwrap_or("case unknown").to_string();
    let mut rec = hx_common::Recorder::new("supervisor: the harness child process aborted; the case it was executing is reported");
    rec.case(&header);
    for l in lines {
        rec.op(l, "abort");
    }
    rec.fail("process_abort", &format!("harness child exited with {status} while executing `{header}`"));
    rec.finish(&args);
}
