//! C07 — Account data can be re-borrowed within an instruction after any resize history.
//!
//! One native, program-owned account per case; the REAL `Account<T>::data()/data_mut()`,
//! `ExclusiveWrapperTop` (range computation, pointer checks on drop and before each resize) and
//! pinocchio's borrow byte / `resize_unchecked` run on it.
//!
//! Op lines (one answer line each):
//!   `init <ty> <c0> <c1> ...`      valid serialized account of type `ty` with the given element counts
//!                                  (one count per pointer-visited field; a sized header's count must be 0)
//!   `initraw <ty> <size>`          `size` bytes: the discriminant (truncated to `size`) followed by zeros
//!   `initro <ty> <c0> ...`         like `init` but the account is NOT writable
//!        -> `ok len=<data_len>`
//!   `borrow_mut`  -> `ok h=<k> len=<data_len> delta=<resize_delta> bs=<borrow byte hex> rng=<lo>..<hi> f=<c0,c1,..>`
//!                    (rng = the wrapper's valid pointer range relative to the data pointer) | `err:<Class>` | `panic`
//!   `borrow`      -> `ok h=<k> len=.. delta=.. bs=.. f=..` | `err:<Class>` | `panic`
//!   `release <k>` -> `ok bs=<hex>` | `panic` (the drop check fired; the flag is still released)
//!   `grow <field> <n>` / `shrink <field> <n>` (through the live exclusive borrow; list: push n bytes at the end /
//!        remove the first n; RemainingBytes: set_len +n / -n; UnsizedList<List<u8>>: push n default elements /
//!        remove the first n)  -> `ok len=.. delta=.. f=..` | `err:<Class>` | `panic`
//!   `len?`        -> `len=<data_len> delta=<resize_delta> bs=<hex>`
//! Inapplicable or unparseable lines answer `bad-op`.
use crate::types::*;
use hx_common::{Args, Recorder, Rng};
use hx_native::{err_class, key_from, AcctSpec, World, MAX_PERMITTED_DATA_INCREASE as MAXINC};
use star_frame::{
    account_set::account::discriminant::AccountDiscriminant,
    client::SerializeAccount,
    prelude::*,
    unsize::{
        init::DefaultInit,
        wrapper::{ExclusiveWrapper, ExclusiveWrapperTop, SharedWrapper},
    },
};
use std::collections::BTreeMap;

#[derive(Clone, Copy, PartialEq, Eq, Debug)]
pub enum FK {
    Sized(usize),
    List,
    Rem,
    UList,
}
impl FK {
    fn width(self, count: usize) -> usize {
        match self {
            FK::Sized(w) => w,
            FK::List => 4 + count,
            FK::Rem => count,
            FK::UList => 12 + 8 * count,
        }
    }
}
const DISC: usize = 8;

type Excl<'a, T> = ExclusiveWrapperTop<'a, AccountDiscriminant<T>, AccountInfo>;
type Shared<'a, T> = SharedWrapper<'a, <T as UnsizedType>::Ptr>;

/// Everything the interpreter needs from a harness account type.
pub trait HxTy: ProgramAccount + UnsizedType + Sized + 'static {
    const NAME: &'static str;
    const FIELDS: &'static [FK];
    fn make(model: &[Vec<u8>]) -> Vec<u8>;
    fn grow(w: &mut Excl<'_, Self>, field: usize, bytes: &[u8]) -> star_frame::Result<()>;
    fn shrink(w: &mut Excl<'_, Self>, field: usize, n: usize) -> star_frame::Result<()>;
    /// Overwrite the last `bytes.len()` bytes of a RemainingBytes field (no resize).
    fn paint(_w: &mut Excl<'_, Self>, _field: usize, _bytes: &[u8]) {}
    fn view_excl(w: &Excl<'_, Self>, cap: usize) -> Vec<Vec<u8>>;
    fn view_shared(w: &Shared<'_, Self>, cap: usize) -> Vec<Vec<u8>>;
}

/// Copy of a field's bytes; a length beyond the account's data length (only possible when the value is
/// corrupt) is reported as a marker instead of being read.
fn sv(s: &[u8], cap: usize) -> Vec<u8> {
    if s.len() > cap {
        vec![0xEE; 3]
    } else {
        s.to_vec()
    }
}

fn ul_view(p: &<UnsizedList<List<u8>> as UnsizedType>::Ptr, cap: usize) -> Vec<u8> {
    if p.len() > cap {
        return vec![0xEE; 3];
    }
    // one byte per element: its length (always 0 here), so `len()` of the view is the element count
    let mut v = vec![];
    for i in 0..p.len() {
        v.push(p.index(i).map(|e| e.len() as u8).unwrap_or(0xEE));
    }
    v
}

impl HxTy for Two {
    const NAME: &'static str = "two";
    const FIELDS: &'static [FK] = &[FK::List, FK::List];
    fn make(m: &[Vec<u8>]) -> Vec<u8> {
        Two::serialize_account(TwoOwned { a: m[0].clone(), b: m[1].clone() }).unwrap()
    }
    fn grow(w: &mut Excl<'_, Self>, field: usize, bytes: &[u8]) -> star_frame::Result<()> {
        match field {
            0 => w.a().push_all(bytes.iter().copied()),
            _ => w.b().push_all(bytes.iter().copied()),
        }
    }
    fn shrink(w: &mut Excl<'_, Self>, field: usize, n: usize) -> star_frame::Result<()> {
        match field {
            0 => w.a().remove_range(0..n),
            _ => w.b().remove_range(0..n),
        }
    }
    fn view_excl(w: &Excl<'_, Self>, cap: usize) -> Vec<Vec<u8>> {
        vec![sv(w.a.as_slice(), cap), sv(w.b.as_slice(), cap)]
    }
    fn view_shared(w: &Shared<'_, Self>, cap: usize) -> Vec<Vec<u8>> {
        vec![sv(w.a.as_slice(), cap), sv(w.b.as_slice(), cap)]
    }
}

impl HxTy for Tail {
    const NAME: &'static str = "tail";
    const FIELDS: &'static [FK] = &[FK::List, FK::Rem];
    fn make(m: &[Vec<u8>]) -> Vec<u8> {
        Tail::serialize_account(TailOwned { a: m[0].clone(), tail: m[1].clone() }).unwrap()
    }
    fn grow(w: &mut Excl<'_, Self>, field: usize, bytes: &[u8]) -> star_frame::Result<()> {
        match field {
            0 => w.a().push_all(bytes.iter().copied()),
            _ => {
                let l = w.tail.len();
                w.tail().set_len(l + bytes.len())
            }
        }
    }
    fn shrink(w: &mut Excl<'_, Self>, field: usize, n: usize) -> star_frame::Result<()> {
        match field {
            0 => w.a().remove_range(0..n),
            _ => {
                let l = w.tail.len();
                w.tail().set_len(l - n)
            }
        }
    }
    fn paint(w: &mut Excl<'_, Self>, field: usize, bytes: &[u8]) {
        if field == 1 {
            let l = w.tail.len();
            w.tail[l - bytes.len()..].copy_from_slice(bytes);
        }
    }
    fn view_excl(w: &Excl<'_, Self>, cap: usize) -> Vec<Vec<u8>> {
        vec![sv(w.a.as_slice(), cap), sv(&w.tail, cap)]
    }
    fn view_shared(w: &Shared<'_, Self>, cap: usize) -> Vec<Vec<u8>> {
        vec![sv(w.a.as_slice(), cap), sv(&w.tail, cap)]
    }
}

impl HxTy for Ul {
    const NAME: &'static str = "ul";
    const FIELDS: &'static [FK] = &[FK::Sized(8), FK::List, FK::UList, FK::List];
    fn make(m: &[Vec<u8>]) -> Vec<u8> {
        Ul::serialize_account(UlOwned {
            hdr: [0xA5; 8],
            a: m[1].clone(),
            items: m[2].iter().map(|_| vec![]).collect(),
            b: m[3].clone(),
        })
        .unwrap()
    }
    fn grow(w: &mut Excl<'_, Self>, field: usize, bytes: &[u8]) -> star_frame::Result<()> {
        match field {
            1 => w.a().push_all(bytes.iter().copied()),
            2 => w.items().push_all(bytes.iter().map(|_| DefaultInit)),
            _ => w.b().push_all(bytes.iter().copied()),
        }
    }
    fn shrink(w: &mut Excl<'_, Self>, field: usize, n: usize) -> star_frame::Result<()> {
        match field {
            1 => w.a().remove_range(0..n),
            2 => w.items().remove_range(0..n),
            _ => w.b().remove_range(0..n),
        }
    }
    fn view_excl(w: &Excl<'_, Self>, cap: usize) -> Vec<Vec<u8>> {
        vec![vec![], sv(w.a.as_slice(), cap), ul_view(&w.items, cap), sv(w.b.as_slice(), cap)]
    }
    fn view_shared(w: &Shared<'_, Self>, cap: usize) -> Vec<Vec<u8>> {
        vec![vec![], sv(w.a.as_slice(), cap), ul_view(&w.items, cap), sv(w.b.as_slice(), cap)]
    }
}

fn fields_of(ty: &str) -> Option<&'static [FK]> {
    match ty {
        "two" => Some(Two::FIELDS),
        "tail" => Some(Tail::FIELDS),
        "ul" => Some(Ul::FIELDS),
        _ => None,
    }
}
fn min_len(fields: &[FK]) -> usize {
    DISC + fields.iter().map(|f| f.width(0)).sum::<usize>()
}

enum Live<'a, T: HxTy> {
    Excl(Excl<'a, T>),
    Shared(Shared<'a, T>),
}

/// Owns the live borrows of a case. If the harness itself unwinds (e.g. a view panicked on a value that a
/// panicking mutation left half-written) the wrappers are leaked rather than dropped: their drop check could
/// panic a second time, which aborts the process.
struct LiveGuard<'a, T: HxTy>(BTreeMap<u32, Live<'a, T>>);
impl<T: HxTy> LiveGuard<'_, T> {
    fn leak_all(&mut self) {
        for (_, w) in std::mem::take(&mut self.0) {
            std::mem::forget(w);
        }
    }
}
impl<T: HxTy> Drop for LiveGuard<'_, T> {
    fn drop(&mut self) {
        self.leak_all();
    }
}

fn counts(v: &[Vec<u8>]) -> String {
    v.iter().map(|f| f.len().to_string()).collect::<Vec<_>>().join(",")
}

/// Deterministic fill pattern for the bytes pushed by the `k`-th grow of a case.
fn pattern(k: u64, n: usize) -> Vec<u8> {
    (0..n).map(|i| (k.wrapping_mul(37).wrapping_add(i as u64 * 11).wrapping_add(1) & 0xff) as u8).collect()
}

struct Oracle {
    orig: usize,
    writable: bool,
    /// plain Rust model: one Vec per field (for an UnsizedList: one 0 byte per element); `None` for raw accounts
    /// that are too short to hold the type
    model: Option<Vec<Vec<u8>>>,
    slack: usize,
    excl_live: Option<u32>,
    shared_live: Vec<u32>,
}
impl Oracle {
    fn len(&self, fields: &[FK]) -> Option<usize> {
        self.model.as_ref().map(|m| DISC + m.iter().zip(fields).map(|(v, k)| k.width(v.len())).sum::<usize>() + self.slack)
    }
}

/// Run the op lines of one case (after the `init*` line) against the real code.
fn run_typed<T: HxTy>(rec: &mut Recorder, init_line: &str, lines: &[String]) {
    let toks: Vec<&str> = init_line.split(' ').collect();
    let fields = T::FIELDS;
    // ----- build the account
    let (data, oracle_model, writable, slack): (Vec<u8>, Option<Vec<Vec<u8>>>, bool, usize) = match toks[0] {
        "init" | "initro" => {
            let cs: Option<Vec<usize>> = toks[2..].iter().map(|t| t.parse::<usize>().ok()).collect();
            let Some(cs) = cs else { return bad_all(rec, init_line, lines) };
            if cs.len() != fields.len() || cs.iter().zip(fields).any(|(c, k)| matches!(k, FK::Sized(_)) && *c != 0) || cs.iter().sum::<usize>() > 200_000 {
                return bad_all(rec, init_line, lines);
            }
            let m: Vec<Vec<u8>> = cs
                .iter()
                .zip(fields)
                .enumerate()
                .map(|(i, (c, k))| if *k == FK::UList { vec![0u8; *c] } else { pattern(1000 + i as u64, *c) })
                .collect();
            (T::make(&m), Some(m), toks[0] == "init", 0)
        }
        "initraw" => {
            let Some(size) = toks.get(2).and_then(|t| t.parse::<usize>().ok()) else { return bad_all(rec, init_line, lines) };
            // shorter than the discriminant: `Account<T>` cannot even be decoded (C08's subject)
            if toks.len() != 3 || size > 200_000 || size < DISC {
                return bad_all(rec, init_line, lines);
            }
            let mut d = bytemuck::bytes_of(&<T as ProgramAccount>::DISCRIMINANT).to_vec();
            d.resize(size.max(DISC), 0);
            d.truncate(size);
            let ml = min_len(fields);
            // zero bytes parse as empty containers; a RemainingBytes tail takes whatever is left
            let m = (size >= ml).then(|| {
                fields.iter().map(|k| if *k == FK::Rem { vec![0u8; size - ml] } else { vec![] }).collect::<Vec<_>>()
            });
            let slack = if size >= ml && !fields.contains(&FK::Rem) { size - ml } else { 0 };
            (d, m, true, slack)
        }
        _ => return bad_all(rec, init_line, lines),
    };
    let orig = data.len();
    let world = World::new(&[AcctSpec::new(key_from(7), HxReborrow::ID).data(data).lamports(1_000_000).writable(writable)]);
    let info = world.info(0);
    rec.op(init_line, &format!("ok len={}", info.data_len()));
    rec.bump(&format!("ty:{}", T::NAME));
    rec.bump(&format!("orig:{}", size_bucket(orig)));

    let mut ctx = Context::default();
    let acc: Account<T> = match Account::<T>::try_from_account(info, &mut ctx) {
        Ok(a) => a,
        Err(_) => {
            for l in lines {
                rec.op(l, "bad-op");
            }
            return rec.fail("account_set_decode_failed", init_line);
        }
    };
    let mut o = Oracle { orig, writable, model: oracle_model, slack, excl_live: None, shared_live: vec![] };
    let mut guard: LiveGuard<'_, T> = LiveGuard(BTreeMap::new());
    let live = &mut guard.0;
    let mut poisoned = false;
    let mut next: u32 = 0;
    let mut grow_k: u64 = 0;
    let data_ptr = info.data_ptr() as usize;
    let mut max_shrink: i64 = 0;
    let mut reborrows_after_resize = 0u32;
    let mut resized_since_borrow = false;
    let mut nontrivial = false;
    let raw = toks[0] == "initraw";

    for l in lines {
        if poisoned {
            // a mutation panicked half-way or the view diverged from the oracle: the value may be corrupt,
            // nothing further is meaningful (and touching it could abort the process)
            for (_, w) in std::mem::take(live) {
                std::mem::forget(w);
            }
            rec.op(l, "poisoned");
            continue;
        }
        let t: Vec<&str> = l.split(' ').collect();
        let state = |w: &World| format!("len={} delta={} bs={:02x}", w.info(0).data_len(), w.info(0).resize_delta(), w.borrow_state(0));
        match t.as_slice() {
            ["len?"] => {
                rec.op(l, &state(&world));
            }
            ["borrow_mut"] => {
                let conflict = o.excl_live.is_some() || !o.shared_live.is_empty();
                let r = hx_common::catch(|| acc.data_mut());
                match r {
                    Err(_) => {
                        rec.op(l, "panic");
                        rec.fail("panic_on_borrow_mut", l);
                    }
                    Ok(Err(e)) => {
                        let c = err_class(e);
                        rec.op(l, &c);
                        rec.bump(&format!("borrow_mut:{c}"));
                        if !conflict && o.writable && o.model.is_some() {
                            rec.fail("reborrow_refused", &format!("{l} -> {c} with no live borrow, len {} orig {}", info.data_len(), o.orig));
                        }
                        if conflict {
                            nontrivial = true;
                        }
                    }
                    Ok(Ok(w)) => {
                        let seen = T::view_excl(&w, info.data_len());
                        let rng = ExclusiveWrapper::range(&w).clone();
                        let ans = format!(
                            "ok h={next} {} rng={}..{} f={}",
                            state(&world),
                            rng.start as i128 - data_ptr as i128,
                            rng.end as i128 - data_ptr as i128,
                            counts(&seen)
                        );
                        rec.op(l, &ans);
                        rec.bump("borrow_mut:ok");
                        if conflict {
                            rec.fail("overlap_admitted", &format!("{l} succeeded while excl={:?} shared={:?}", o.excl_live, o.shared_live));
                        }
                        if !o.writable {
                            rec.fail("mut_borrow_of_readonly_admitted", l);
                        }
                        if !check_view(rec, &o, &seen, fields, info.data_len(), info.resize_delta(), l) {
                            poisoned = true;
                        }
                        if resized_since_borrow {
                            reborrows_after_resize += 1;
                            resized_since_borrow = false;
                        }
                        o.excl_live = Some(next);
                        live.insert(next, Live::Excl(w));
                        next += 1;
                    }
                }
            }
            ["borrow"] => {
                let conflict = o.excl_live.is_some() || o.shared_live.len() >= 7;
                let r = hx_common::catch(|| acc.data());
                match r {
                    Err(_) => {
                        rec.op(l, "panic");
                        rec.fail("panic_on_borrow", l);
                    }
                    Ok(Err(e)) => {
                        let c = err_class(e);
                        rec.op(l, &c);
                        rec.bump(&format!("borrow:{c}"));
                        if !conflict && o.model.is_some() {
                            rec.fail("reborrow_refused", &format!("{l} -> {c} with no conflicting borrow"));
                        }
                        if conflict {
                            nontrivial = true;
                        }
                    }
                    Ok(Ok(w)) => {
                        let seen = T::view_shared(&w, info.data_len());
                        rec.op(l, &format!("ok h={next} {} f={}", state(&world), counts(&seen)));
                        rec.bump("borrow:ok");
                        if o.excl_live.is_some() {
                            rec.fail("overlap_admitted", &format!("{l} succeeded while an exclusive borrow is live"));
                        }
                        if !check_view(rec, &o, &seen, fields, info.data_len(), info.resize_delta(), l) {
                            poisoned = true;
                        }
                        if resized_since_borrow {
                            reborrows_after_resize += 1;
                            resized_since_borrow = false;
                        }
                        o.shared_live.push(next);
                        live.insert(next, Live::Shared(w));
                        next += 1;
                    }
                }
            }
            ["release", h] => {
                let Some(h) = h.parse::<u32>().ok().filter(|h| live.contains_key(h)) else {
                    rec.op(l, "bad-op");
                    continue;
                };
                let w = live.remove(&h).unwrap();
                if o.excl_live == Some(h) {
                    o.excl_live = None;
                } else {
                    o.shared_live.retain(|x| *x != h);
                }
                let r = hx_common::catch(move || drop(w));
                match r {
                    Ok(()) => rec.op(l, &format!("ok bs={:02x}", world.borrow_state(0))),
                    Err(_) => {
                        rec.op(l, "panic");
                        rec.fail("panic_on_release", &format!("{l}: drop check fired at len {} orig {} delta {}", info.data_len(), o.orig, info.resize_delta()));
                    }
                }
                if o.excl_live.is_none() && o.shared_live.is_empty() && world.borrow_state(0) != 0xff {
                    rec.fail("borrow_flag_leak", &format!("{l}: all borrows released but borrow byte is {:02x}", world.borrow_state(0)));
                }
            }
            [op @ ("grow" | "shrink"), f, n] => {
                let (Some(f), Some(n)) = (f.parse::<usize>().ok(), n.parse::<usize>().ok()) else {
                    rec.op(l, "bad-op");
                    continue;
                };
                let Some(Live::Excl(w)) = o.excl_live.and_then(|h| live.get_mut(&h)) else {
                    rec.op(l, "bad-op");
                    continue;
                };
                if f >= fields.len() || matches!(fields[f], FK::Sized(_)) || n > 100_000 {
                    rec.op(l, "bad-op");
                    continue;
                }
                let model = o.model.as_mut().expect("exclusive borrow implies a parseable account");
                let grow = *op == "grow";
                if !grow && n > model[f].len() {
                    rec.op(l, "bad-op");
                    continue;
                }
                let bytes = if fields[f] == FK::UList { vec![0u8; n] } else { pattern(grow_k, n) };
                grow_k += 1;
                let before = (info.data_len(), info.resize_delta(), T::view_excl(w, info.data_len()));
                let byte_change = fields[f].width(n) - fields[f].width(0);
                let fits = !grow || before.0 + byte_change <= o.orig + MAXINC;
                let r = hx_common::catch(|| if grow { T::grow(w, f, &bytes) } else { T::shrink(w, f, n) });
                match r {
                    Err(_) => {
                        rec.op(l, "panic");
                        rec.fail(if grow { "panic_on_grow" } else { "panic_on_shrink" }, &format!("{l} at len {} orig {}", before.0, o.orig));
                        poisoned = true;
                        for (_, w) in std::mem::take(live) {
                            std::mem::forget(w);
                        }
                    }
                    Ok(Err(e)) => {
                        let c = err_class(e);
                        rec.op(l, &c);
                        rec.bump(&format!("{op}:{c}"));
                        nontrivial = true;
                        if fits {
                            rec.fail("growth_refused", &format!("{l} -> {c} at len {} orig {}", before.0, o.orig));
                        }
                        let after = (info.data_len(), info.resize_delta(), T::view_excl(w, info.data_len()));
                        if after != before {
                            rec.fail("err_changed_state", &format!("{l} -> {c} but len {}->{} delta {}->{}", before.0, after.0, before.1, after.1));
                        }
                    }
                    Ok(Ok(())) => {
                        if grow {
                            if fields[f] == FK::Rem {
                                // the runtime zero-fills the grown region: check it, then paint it
                                let v = T::view_excl(w, info.data_len());
                                if v[f][v[f].len() - n..].iter().any(|b| *b != 0) {
                                    rec.fail("growth_not_zero_filled", l);
                                }
                                T::paint(w, f, &bytes);
                            }
                            model[f].extend_from_slice(&bytes);
                        } else if fields[f] == FK::Rem {
                            let keep = model[f].len() - n;
                            model[f].truncate(keep);
                        } else {
                            model[f].drain(0..n);
                        }
                        let seen = T::view_excl(w, info.data_len());
                        rec.op(l, &format!("ok len={} delta={} f={}", info.data_len(), info.resize_delta(), counts(&seen)));
                        rec.bump(&format!("{op}:ok"));
                        if !fits {
                            rec.fail("overgrowth_admitted", &format!("{l} ok at len {} orig {}", before.0, o.orig));
                        }
                        if n > 0 {
                            resized_since_borrow = true;
                        }
                        max_shrink = max_shrink.max(o.orig as i64 - info.data_len() as i64);
                        if !check_view(rec, &o, &seen, fields, info.data_len(), info.resize_delta(), l) {
                            poisoned = true;
                        }
                    }
                }
            }
            _ => rec.op(l, "bad-op"),
        }
    }
    if poisoned {
        for (_, w) in std::mem::take(live) {
            std::mem::forget(w);
        }
    }
    // release whatever is still live (unobserved by the model; panics here still count)
    let rest: Vec<u32> = live.keys().copied().collect();
    for h in rest {
        let w = live.remove(&h).unwrap();
        if hx_common::catch(move || drop(w)).is_err() {
            rec.fail("panic_on_release", &format!("end-of-case release of h={h}"));
        }
    }
    if !poisoned && world.borrow_state(0) != 0xff {
        rec.fail("borrow_flag_leak", &format!("end of case: borrow byte {:02x}", world.borrow_state(0)));
    }
    // final raw-bytes check: the account holds exactly the model's serialization (when there is no slack)
    if let Some(m) = &o.model {
        if !raw && !poisoned && world.raw_data(0) != remake::<T>(m, &world.raw_data(0)) {
            rec.fail("stale_view", "final account bytes differ from the serialized model");
        }
    }
    if reborrows_after_resize > 0 || nontrivial {
        rec.mark_nontrivial();
    }
    if max_shrink > MAXINC as i64 && reborrows_after_resize > 0 {
        rec.bump("case:shrunk_past_allowance_then_reborrowed");
    }
}

/// Serialization of the model, keeping the account's current sized-header bytes.
fn remake<T: HxTy>(m: &[Vec<u8>], _cur: &[u8]) -> Vec<u8> {
    T::make(m)
}

/// Returns false when the implementation's view or sizes differ from the oracle (the value can no longer be trusted).
fn check_view(rec: &mut Recorder, o: &Oracle, seen: &[Vec<u8>], fields: &[FK], len: usize, delta: i32, l: &str) -> bool {
    let Some(m) = &o.model else {
        rec.fail("borrow_of_unparseable_account", l);
        return false;
    };
    let mut ok = true;
    if seen != m.as_slice() {
        ok = false;
        rec.fail("stale_view", &format!("{l}: value seen through the borrow differs from the Vec model (counts {} vs {})", counts(seen), counts(m)));
    }
    if Some(len) != o.len(fields) {
        ok = false;
        rec.fail("len_mismatch", &format!("{l}: data_len {len}, model {:?}", o.len(fields)));
    }
    if delta as i64 != len as i64 - o.orig as i64 {
        ok = false;
        rec.fail("delta_mismatch", &format!("{l}: resize_delta {delta}, len {len}, orig {}", o.orig));
    }
    ok
}

fn bad_all(rec: &mut Recorder, init_line: &str, lines: &[String]) {
    rec.op(init_line, "bad-op");
    for l in lines {
        rec.op(l, "bad-op");
    }
}

fn size_bucket(n: usize) -> &'static str {
    match n {
        0..=15 => "0-15",
        16..=255 => "16-255",
        256..=4095 => "256-4K",
        4096..=10239 => "4K-10K",
        10240..=20479 => "10K-20K",
        20480..=32767 => "20K-32K",
        _ => "32K+",
    }
}

/// Interpret one case: header already recorded; `lines` are its op lines.
fn run_case(rec: &mut Recorder, lines: &[String]) {
    // ops before the first init line are inapplicable
    let mut i = 0;
    while i < lines.len() && !lines[i].starts_with("init") {
        rec.op(&lines[i], "bad-op");
        i += 1;
    }
    if i == lines.len() {
        return;
    }
    let init = lines[i].clone();
    // a second init line (or anything after it) is inapplicable: one account per case
    let rest: Vec<String> = lines[i + 1..].to_vec();
    let (ops, tail): (Vec<String>, Vec<String>) = match rest.iter().position(|l| l.starts_with("init")) {
        Some(p) => (rest[..p].to_vec(), rest[p..].to_vec()),
        None => (rest, vec![]),
    };
    let ty = init.split(' ').nth(1).unwrap_or("");
    let r = hx_common::catch(|| match ty {
        "two" => run_typed::<Two>(rec, &init, &ops),
        "tail" => run_typed::<Tail>(rec, &init, &ops),
        "ul" => run_typed::<Ul>(rec, &init, &ops),
        _ => bad_all(rec, &init, &ops),
    });
    if r.is_err() {
        rec.fail("harness_panic", &init);
    }
    for l in &tail {
        rec.op(l, "bad-op");
    }
}

// ------------------------------------------------------------------------------------ generators

struct Gen {
    lines: Vec<String>,
    fields: &'static [FK],
    counts: Vec<usize>,
    orig: usize,
    len: usize,
    next: u32,
    excl: Option<u32>,
    shared: Vec<u32>,
}
impl Gen {
    fn new(ty: &str, counts: Vec<usize>) -> Gen {
        let fields = fields_of(ty).unwrap();
        let len = DISC + counts.iter().zip(fields).map(|(c, k)| k.width(*c)).sum::<usize>();
        let line = format!("init {ty} {}", counts.iter().map(|c| c.to_string()).collect::<Vec<_>>().join(" "));
        Gen { lines: vec![line], fields, counts, orig: len, len, next: 0, excl: None, shared: vec![] }
    }
    fn room(&self) -> usize {
        self.orig + MAXINC - self.len
    }
    fn mutable_fields(&self) -> Vec<usize> {
        (0..self.fields.len()).filter(|i| !matches!(self.fields[*i], FK::Sized(_))).collect()
    }
    /// bytes per element of field f
    fn unit(&self, f: usize) -> usize {
        if self.fields[f] == FK::UList {
            8
        } else {
            1
        }
    }
    fn borrow_mut(&mut self) {
        self.lines.push("borrow_mut".into());
        if self.excl.is_none() && self.shared.is_empty() {
            self.excl = Some(self.next);
            self.next += 1;
        }
    }
    fn borrow(&mut self) {
        self.lines.push("borrow".into());
        if self.excl.is_none() && self.shared.len() < 7 {
            self.shared.push(self.next);
            self.next += 1;
        }
    }
    fn release(&mut self, h: u32) {
        self.lines.push(format!("release {h}"));
        if self.excl == Some(h) {
            self.excl = None;
        }
        self.shared.retain(|x| *x != h);
    }
    fn release_excl(&mut self) {
        if let Some(h) = self.excl {
            self.release(h);
        }
    }
    fn grow(&mut self, f: usize, n: usize) {
        self.lines.push(format!("grow {f} {n}"));
        if self.excl.is_some() && n * self.unit(f) <= self.room() {
            self.counts[f] += n;
            self.len += n * self.unit(f);
        }
    }
    fn shrink(&mut self, f: usize, n: usize) {
        self.lines.push(format!("shrink {f} {n}"));
        if self.excl.is_some() && n <= self.counts[f] {
            self.counts[f] -= n;
            self.len -= n * self.unit(f);
        }
    }
    fn q(&mut self) {
        self.lines.push("len?".into());
    }
}

thread_local! {
    static PROGRESS: std::cell::RefCell<Option<std::path::PathBuf>> = const { std::cell::RefCell::new(None) };
}

/// Tell the supervisor which case is about to run (see main.rs).
fn announce(header: &str, lines: &[String]) {
    PROGRESS.with(|p| {
        if let Some(p) = &*p.borrow() {
            let _ = std::fs::write(p, format!("{header}\n{}\n", lines.join("\n")));
        }
    });
}

fn emit(rec: &mut Recorder, header: &str, lines: &[String]) {
    announce(header, lines);
    rec.case(header);
    run_case(rec, lines);
    rec.sample_current(4);
}

fn spread(total: usize, fields: &[FK], rng: &mut Rng) -> Vec<usize> {
    // distribute about `total` bytes over the mutable fields
    let mut out = vec![0usize; fields.len()];
    let muts: Vec<usize> = (0..fields.len()).filter(|i| !matches!(fields[*i], FK::Sized(_))).collect();
    let mut left = total;
    for (k, i) in muts.iter().enumerate() {
        let share = if k + 1 == muts.len() { left } else { rng.below(left as u64 + 1) as usize };
        left -= share;
        out[*i] = if fields[*i] == FK::UList { (share / 8).min(1500) } else { share };
    }
    out
}

const TYPES: [&str; 3] = ["two", "tail", "ul"];

fn boundary_cases(rec: &mut Recorder, rng: &mut Rng, thorough: bool) {
    let mut id = 0;
    let mut hdr = |k: &str| {
        id += 1;
        format!("case b{id} {k}")
    };
    let sizes: &[usize] = if thorough {
        &[0, 1, 7, 100, 1000, 5000, 10239, 10240, 10241, 15000, 20000, 20481, 30000, 40000]
    } else {
        &[0, 3, 1000, 10240, 10241, 20000, 40000]
    };
    for ty in TYPES {
        let fields = fields_of(ty).unwrap();
        let muts: Vec<usize> = (0..fields.len()).filter(|i| !matches!(fields[*i], FK::Sized(_))).collect();
        let last = *muts.last().unwrap();
        for &size in sizes {
            // T1: shrink as far as possible (by more than the allowance when the account is big enough), re-borrow,
            //     grow back to exactly orig+10240, one past, release, re-borrow
            for &f in &muts {
                let mut cs = vec![0usize; fields.len()];
                cs[f] = if fields[f] == FK::UList { (size / 8).min(2000) } else { size };
                let mut g = Gen::new(ty, cs.clone());
                g.borrow_mut();
                g.shrink(f, cs[f]);
                g.release_excl();
                g.q();
                g.borrow_mut();
                g.release_excl();
                g.borrow();
                let h = g.next - 1;
                g.release(h);
                g.borrow_mut();
                let u = g.unit(f);
                let n = g.room() / u;
                g.grow(f, n);
                if g.room() > 0 {
                    let r = g.room();
                    g.grow(muts[0], r);
                }
                g.grow(f, 1);
                g.q();
                g.release_excl();
                g.borrow_mut();
                g.grow(last, 1);
                g.shrink(f, 1);
                g.release_excl();
                g.borrow();
                g.q();
                emit(rec, &hdr(&format!("shrink_all_reborrow_grow_to_limit {ty} f{f} {size}")), &g.lines);
            }
            // T2: grow to exactly orig+10240 (one step / two steps), one past -> err, release (D7b), re-borrow, shrink, grow back
            for &f in &muts {
                for two_steps in [false, true] {
                    let mut cs = spread(size, fields, rng);
                    if fields[last] == FK::Rem && two_steps {
                        cs[last] = 0; // empty tail sitting exactly at the end of the range
                    }
                    let mut g = Gen::new(ty, cs);
                    g.borrow_mut();
                    let u = g.unit(f);
                    if two_steps {
                        let n = g.room() / u;
                        g.grow(f, n.saturating_sub(1));
                        g.grow(f, 1);
                    } else {
                        let n = g.room() / u;
                        g.grow(f, n);
                    }
                    if g.room() > 0 {
                        let r = g.room();
                        g.grow(muts[0], r);
                    }
                    g.grow(f, 1);
                    g.q();
                    g.release_excl();
                    g.q();
                    g.borrow_mut();
                    g.grow(muts[0], 1);
                    let c = g.counts[f];
                    g.shrink(f, c / 2);
                    g.release_excl();
                    g.borrow_mut();
                    let n = g.room() / u;
                    g.grow(f, n);
                    g.grow(f, 1);
                    g.release_excl();
                    g.borrow();
                    emit(rec, &hdr(&format!("grow_to_limit {ty} f{f} {size} two_steps={two_steps}")), &g.lines);
                }
            }
        }
        // T3: many small re-borrows
        for &size in &[0usize, 500, 12000] {
            let mut g = Gen::new(ty, spread(size, fields, rng));
            for k in 0..(if thorough { 200 } else { 60 }) {
                if k % 3 == 2 {
                    g.borrow();
                    let h = g.next - 1;
                    g.release(h);
                } else {
                    g.borrow_mut();
                    let f = *rng.pick(&muts);
                    if rng.chance(1, 2) {
                        g.grow(f, rng.range(0, 5) as usize);
                    } else {
                        let c = g.counts[f];
                        g.shrink(f, (rng.range(0, 5) as usize).min(c));
                    }
                    g.release_excl();
                }
            }
            g.q();
            emit(rec, &hdr(&format!("many_small_reborrows {ty} {size}")), &g.lines);
        }
        // T4: overlapping borrows
        {
            let mut g = Gen::new(ty, spread(300, fields, rng));
            g.borrow_mut(); // h0
            g.borrow(); // refused
            g.borrow_mut(); // refused
            g.q();
            g.grow(muts[0], 3);
            g.release(0);
            g.borrow(); // h1
            g.borrow_mut(); // refused
            g.borrow(); // h2
            g.q();
            g.release(1);
            g.borrow_mut(); // still refused (h2 live)
            g.release(2);
            g.borrow_mut(); // h3
            g.shrink(muts[0], 2);
            g.release(3);
            g.q();
            emit(rec, &hdr(&format!("overlap {ty}")), &g.lines);
            let mut g = Gen::new(ty, spread(64, fields, rng));
            for _ in 0..9 {
                g.borrow(); // the 8th and 9th are refused: 3-bit counter
            }
            g.borrow_mut();
            g.q();
            for h in [3u32, 0, 6, 1, 2, 5, 4] {
                g.release(h);
                g.borrow_mut(); // refused until the last one is released
                g.release_excl();
            }
            g.release(4); // no longer live -> bad-op
            g.grow(muts[0], 1); // no exclusive borrow -> bad-op
            g.q();
            emit(rec, &hdr(&format!("shared_counter {ty}")), &g.lines);
        }
        // T5: raw accounts around the minimum size
        let ml = min_len(fields);
        for size in (0..ml + 3).chain([ml + 100, 12000]) {
            let lines: Vec<String> = vec![
                format!("initraw {ty} {size}"),
                "borrow_mut".into(),
                "len?".into(),
                format!("grow {} 2", muts[0]),
                "release 0".into(),
                "borrow".into(),
                "len?".into(),
                "release 0".into(),
                "release 1".into(),
                "len?".into(),
            ];
            emit(rec, &hdr(&format!("raw {ty} {size}")), &lines);
        }
        // T6: non-writable account
        {
            let cs = spread(40, fields, rng);
            let lines: Vec<String> = vec![
                format!("initro {ty} {}", cs.iter().map(|c| c.to_string()).collect::<Vec<_>>().join(" ")),
                "borrow_mut".into(),
                "borrow".into(),
                "borrow_mut".into(),
                "len?".into(),
                "release 0".into(),
                "len?".into(),
            ];
            emit(rec, &hdr(&format!("readonly {ty}")), &lines);
        }
    }
    // malformed lines
    let lines: Vec<String> = ["borrow_mut", "init nosuch 1 2", "init two 1", "init ul 1 0 0 0", "init two 5 5", "grow 9 1", "grow 0 x", "shrink 0 99", "release 7", "release x", "frob", "init two 1 1", "borrow_mut"]
        .iter()
        .map(|s| s.to_string())
        .collect();
    emit(rec, &hdr("malformed"), &lines);
}

fn random_case(rec: &mut Recorder, rng: &mut Rng, idx: u64) {
    let ty = *rng.pick(&TYPES);
    let fields = fields_of(ty).unwrap();
    let total = match rng.below(8) {
        0 => 0,
        1 => rng.below(64) as usize,
        2 => rng.below(2000) as usize,
        3 => 10000 + rng.below(600) as usize,
        4 | 5 => 10241 + rng.below(20000) as usize,
        _ => rng.below(40960) as usize,
    };
    let mut g = Gen::new(ty, spread(total, fields, rng));
    let muts = g.mutable_fields();
    let nops = rng.range(8, 60);
    for _ in 0..nops {
        match rng.below(20) {
            0..=3 => {
                if g.excl.is_some() && rng.chance(3, 4) {
                    g.release_excl();
                }
                g.borrow_mut()
            }
            4 | 5 => g.borrow(),
            6..=8 => {
                if let Some(h) = g.excl {
                    g.release(h)
                } else if !g.shared.is_empty() {
                    let h = *rng.pick(&g.shared.clone());
                    g.release(h)
                } else {
                    g.borrow_mut()
                }
            }
            9..=13 => {
                if g.excl.is_none() && rng.chance(9, 10) {
                    g.borrow_mut();
                }
                let f = *rng.pick(&muts);
                let u = g.unit(f);
                let room = g.room() / u;
                let n = match rng.below(8) {
                    0 => room,
                    1 => room + 1,
                    2 => room.saturating_sub(1),
                    3 => rng.below(8) as usize,
                    4 => rng.below(room as u64 + 20) as usize,
                    _ => rng.below((room as u64 / 3).max(2)) as usize,
                };
                g.grow(f, n);
            }
            14..=18 => {
                if g.excl.is_none() && rng.chance(9, 10) {
                    g.borrow_mut();
                }
                let f = *rng.pick(&muts);
                let c = g.counts[f];
                let n = match rng.below(6) {
                    0 => c,
                    1 => c / 2,
                    2 => c + 1,
                    _ => rng.below(c as u64 + 1) as usize,
                };
                g.shrink(f, n);
            }
            _ => g.q(),
        }
    }
    g.q();
    emit(rec, &format!("case r{idx} random {ty} {total}"), &g.lines);
}

pub fn run(args: &Args) {
    let mut rec = Recorder::new(
        "one case = one native writable program account (types two/tail/ul, initial size 0..40 KiB) and a history of \
         borrow_mut / borrow / release / grow / shrink / len? ops on the real Account<T>; generated: corpus (D7, D7b), \
         boundary trajectories (shrink by more than 10240 then re-borrow; grow to exactly orig+10240 and one past; shrink, \
         grow back; many small re-borrows; overlapping and 8 shared borrows; raw accounts around the minimum size; \
         read-only), then PRNG histories. A case is non-trivial when a borrow succeeded after a size change, or a \
         conflicting borrow / over-growth was refused; distinct by case text hash.",
    );
    PROGRESS.with(|p| *p.borrow_mut() = Some(args.out.join("current_case.txt")));
    if let Some(cases) = args.replay_cases() {
        for c in cases {
            if c[0].starts_with("case") {
                announce(&c[0], &c[1..]);
                rec.case(&c[0]);
                run_case(&mut rec, &c[1..]);
            } else {
                announce("case replay", &c);
                rec.case("case replay");
                run_case(&mut rec, &c);
            }
        }
        rec.finish(args);
        return;
    }
    // corpus first
    let verif = std::env::var("VERIF_DIR").unwrap_or_else(|_| "/verif".into());
    let mut corpus: Vec<_> = std::fs::read_dir(format!("{verif}/corpus/C07"))
        .map(|d| d.filter_map(|e| e.ok()).map(|e| e.path()).filter(|p| p.extension().is_some_and(|x| x == "replay")).collect())
        .unwrap_or_default();
    corpus.sort();
    for p in corpus {
        let a = Args { replay: Some(p.clone()), ..args.clone() };
        for c in a.replay_cases().unwrap_or_default() {
            if c[0].starts_with("case") {
                announce(&c[0], &c[1..]);
                rec.case(&c[0]);
                run_case(&mut rec, &c[1..]);
                rec.bump("corpus_case");
            }
        }
    }
    let mut rng = Rng::new(args.seed);
    boundary_cases(&mut rec, &mut rng, args.thorough());
    let n = if args.thorough() { 40_000 } else { 4_000 };
    for i in 0..n {
        random_case(&mut rec, &mut rng, i);
    }
    rec.finish(args);
}
