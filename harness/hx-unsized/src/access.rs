//! The harness's own `UnsizedTypeDataAccess`: a buffer with `orig + 10240` capacity that ERRORS on
//! over-growth (like `AccountInfo`; the stock `TestUnderlyingData` panics), supports a refusal schedule
//! for growing reallocs (C06's fault model) and carries a canary behind the capacity.
use star_frame::prelude::ProgramError;
use star_frame::unsize::wrapper::{DataMutDrop, UnsizedDataMut, UnsizedTypeDataAccess};
use std::cell::{Cell, UnsafeCell};

pub const MAX_INCREASE: usize = 10240;
pub const CANARY: usize = 12 * 1024;
/// guard in front of the data (a pointer shifted the wrong way writes here, not into the heap)
pub const FRONT: usize = 4 * 1024;
pub const CANARY_BYTE: u8 = 0xEE;

pub struct Access {
    buf: UnsafeCell<Vec<u8>>,
    len: Cell<usize>,
    pub orig: usize,
    /// number of growing realloc calls so far in the case (1-based index of the last one)
    pub grow_calls: Cell<u32>,
    pub refuse: Vec<u32>,
    /// set when the schedule refused a growth since the last `begin_op`
    pub refused_now: Cell<bool>,
    /// set when a growth beyond the limit was rejected since the last `begin_op`
    pub limit_now: Cell<bool>,
    /// number of successful reallocs (grow or shrink) since the last `begin_op`
    pub reallocs_now: Cell<u32>,
}

struct Guard;
impl DataMutDrop for Guard {}

impl Access {
    pub fn new(initial: &[u8], refuse: Vec<u32>) -> Access {
        let orig = initial.len();
        let mut v = vec![0u8; FRONT + orig + MAX_INCREASE + CANARY];
        v[FRONT..FRONT + orig].copy_from_slice(initial);
        for b in &mut v[FRONT + orig + MAX_INCREASE..] {
            *b = CANARY_BYTE;
        }
        for b in &mut v[..FRONT] {
            *b = CANARY_BYTE;
        }
        Access {
            buf: UnsafeCell::new(v),
            len: Cell::new(orig),
            orig,
            grow_calls: Cell::new(0),
            refuse,
            refused_now: Cell::new(false),
            limit_now: Cell::new(false),
            reallocs_now: Cell::new(0),
        }
    }
    pub fn cap(&self) -> usize {
        self.orig + MAX_INCREASE
    }
    pub fn len(&self) -> usize {
        self.len.get()
    }
    fn base(&self) -> *mut u8 {
        unsafe { (*self.buf.get()).as_mut_ptr().add(FRONT) }
    }
    /// copy of data[0..len)
    pub fn bytes(&self) -> Vec<u8> {
        unsafe { std::slice::from_raw_parts(self.base(), self.len.get()).to_vec() }
    }
    pub fn canary_ok(&self) -> bool {
        let s = unsafe { std::slice::from_raw_parts(self.base().add(self.cap()), CANARY) };
        let f = unsafe { std::slice::from_raw_parts(self.base().sub(FRONT), FRONT) };
        s.iter().all(|b| *b == CANARY_BYTE) && f.iter().all(|b| *b == CANARY_BYTE)
    }
    pub fn begin_op(&self) {
        self.refused_now.set(false);
        self.limit_now.set(false);
        self.reallocs_now.set(0);
    }
}

unsafe impl UnsizedTypeDataAccess for Access {
    unsafe fn unsized_data_realloc(this: &Self, data: &mut *mut [u8], new_len: usize) -> star_frame::Result<()> {
        let cur = this.len.get();
        if new_len > cur {
            let g = this.grow_calls.get() + 1;
            this.grow_calls.set(g);
            if this.refuse.contains(&g) {
                this.refused_now.set(true);
                return Err(ProgramError::InvalidRealloc.into());
            }
            if new_len > this.cap() {
                this.limit_now.set(true);
                return Err(ProgramError::InvalidRealloc.into());
            }
            unsafe { std::ptr::write_bytes(this.base().add(cur), 0, new_len - cur) };
        }
        if new_len != cur {
            this.reallocs_now.set(this.reallocs_now.get() + 1);
        }
        this.len.set(new_len);
        *data = std::ptr::slice_from_raw_parts_mut(data.cast::<u8>(), new_len);
        Ok(())
    }

    fn data_ref(this: &Self) -> star_frame::Result<impl std::ops::Deref<Target = [u8]>> {
        let s: &[u8] = unsafe { std::slice::from_raw_parts(this.base(), this.len.get()) };
        Ok(s)
    }

    fn data_mut(this: &Self) -> star_frame::Result<UnsizedDataMut<'_>> {
        let ptr: *mut [u8] = std::ptr::slice_from_raw_parts_mut(this.base(), this.len.get());
        let start = this.base() as usize;
        Ok((ptr, start..start + this.cap(), Box::new(Guard)))
    }
}
