//! The harness's own `UnsizedTypeDataAccess`: a buffer with `orig + 10240` capacity that ERRORS on
//! over-growth (like `AccountInfo`; the stock `TestUnderlyingData` panics), supports a refusal schedule
//! for growing reallocs (C06's fault model) and is surrounded by memory the code must never touch:
//! * `Backing::Vec` (C01/C02/C06): canaries in front of and behind the capacity;
//! * `Backing::Guard` (C03): an `mmap`ed region flush against a `PROT_NONE` page on one side (two
//!   layouts), neighbour-account images / canaries in the readable slack on the other side.
use hx_common::guard::GuardBuf;
use star_frame::prelude::ProgramError;
use star_frame::unsize::wrapper::{DataMutDrop, UnsizedDataMut, UnsizedTypeDataAccess};
use std::cell::{Cell, RefCell};
use std::rc::Rc;

pub const MAX_INCREASE: usize = 10240;
pub const CANARY: usize = 12 * 1024;
/// guard in front of the data (a pointer shifted the wrong way writes here, not into the heap)
pub const FRONT: usize = 4 * 1024;
pub const CANARY_BYTE: u8 = 0xEE;
/// content of the not-yet-owned part `[orig, orig+10240)` of a guard-backed buffer
pub const UNOWNED_BYTE: u8 = 0xC3;

enum Store {
    Vec(#[allow(dead_code)] Vec<u8>),
    Guard(GuardBuf),
}

pub struct Access {
    backing: Store,
    base: *mut u8,
    len: Cell<usize>,
    pub orig: usize,
    /// number of growing realloc calls so far in the case (1-based index of the last one)
    pub grow_calls: Cell<u32>,
    pub refuse: Vec<u32>,
    /// set when the schedule refused a growth since the last `begin_op`
    pub refused_now: Cell<bool>,
    /// set when a growth beyond the limit was rejected since the last `begin_op`
    pub limit_now: Cell<bool>,
    /// number of successful reallocs (grow or shrink) since the last `begin_op`
    pub reallocs_now: Cell<u32>,
    /// (old_len, new_len, succeeded) of every realloc call since the last `begin_op`
    pub realloc_log: RefCell<Vec<(usize, usize, bool)>>,
}

/// Everything that must not change outside the owned range.
pub struct Frame {
    alloc: Vec<u8>,
    before: Vec<u8>,
    after: Vec<u8>,
}

struct Guard;
impl DataMutDrop for Guard {}

impl Access {
    pub fn new(initial: &[u8], refuse: Vec<u32>) -> Access {
        let orig = initial.len();
        let mut v = vec![0u8; FRONT + orig + MAX_INCREASE + CANARY];
        v[FRONT..FRONT + orig].copy_from_slice(initial);
        for b in &mut v[FRONT + orig + MAX_INCREASE..] {
            *b = CANARY_BYTE;
        }
        for b in &mut v[..FRONT] {
            *b = CANARY_BYTE;
        }
        let base = unsafe { v.as_mut_ptr().add(FRONT) };
        Access::with(Store::Vec(v), base, orig, refuse)
    }

    /// Guard-page backed (C03). `end_aligned`: the allocation end sits directly before a PROT_NONE page,
    /// else the data start sits directly after one. The readable slack on the other side holds a
    /// neighbour-account image.
    pub fn new_guard(initial: &[u8], refuse: Vec<u32>, end_aligned: bool) -> Access {
        let orig = initial.len();
        let cap = orig + MAX_INCREASE;
        let g = GuardBuf::new(cap, end_aligned);
        g.fill_slack(0x5A);
        let base = g.ptr;
        unsafe {
            std::ptr::copy_nonoverlapping(initial.as_ptr(), base, orig);
            std::ptr::write_bytes(base.add(orig), UNOWNED_BYTE, MAX_INCREASE);
            // neighbour-account images in the slack: recognisable, position dependent bytes
            let (b, a) = g.slack();
            let (bl, al) = (b.len(), a.len());
            for i in 0..bl {
                // counted from the edge adjacent to the buffer
                let d = bl - 1 - i;
                *base.sub(bl).add(i) = b"PREV-ACCOUNT-IMAGE/"[d % 19] ^ ((d / 19) as u8).wrapping_mul(37);
            }
            for i in 0..al {
                *base.add(cap + i) = b"NEXT-ACCOUNT-IMAGE/"[i % 19] ^ ((i / 19) as u8).wrapping_mul(41);
            }
        }
        Access::with(Store::Guard(g), base, orig, refuse)
    }

    fn with(backing: Store, base: *mut u8, orig: usize, refuse: Vec<u32>) -> Access {
        Access {
            backing,
            base,
            len: Cell::new(orig),
            orig,
            grow_calls: Cell::new(0),
            refuse,
            refused_now: Cell::new(false),
            limit_now: Cell::new(false),
            reallocs_now: Cell::new(0),
            realloc_log: RefCell::new(vec![]),
        }
    }
    pub fn cap(&self) -> usize {
        self.orig + MAX_INCREASE
    }
    pub fn len(&self) -> usize {
        self.len.get()
    }
    pub fn base_addr(&self) -> usize {
        self.base as usize
    }
    fn base(&self) -> *mut u8 {
        self.base
    }
    /// copy of data[0..len)
    pub fn bytes(&self) -> Vec<u8> {
        unsafe { std::slice::from_raw_parts(self.base(), self.len.get()).to_vec() }
    }
    fn slack(&self) -> (&[u8], &[u8]) {
        match &self.backing {
            Store::Vec(_) => unsafe {
                (std::slice::from_raw_parts(self.base().sub(FRONT), FRONT), std::slice::from_raw_parts(self.base().add(self.cap()), CANARY))
            },
            Store::Guard(g) => g.slack(),
        }
    }
    pub fn canary_ok(&self) -> bool {
        match &self.backing {
            Store::Vec(_) => {
                let (f, s) = self.slack();
                s.iter().all(|b| *b == CANARY_BYTE) && f.iter().all(|b| *b == CANARY_BYTE)
            }
            // guard-backed buffers are checked through `Frame`
            Store::Guard(_) => true,
        }
    }
    pub fn snapshot(&self) -> Frame {
        let (b, a) = self.slack();
        Frame { alloc: unsafe { std::slice::from_raw_parts(self.base(), self.cap()).to_vec() }, before: b.to_vec(), after: a.to_vec() }
    }
    /// everything at offsets `>= from` of the allocation and all of the slack equal to the snapshot?
    pub fn frame_ok(&self, snap: &Frame, from: usize) -> bool {
        let (b, a) = self.slack();
        let alloc = unsafe { std::slice::from_raw_parts(self.base(), self.cap()) };
        let from = from.min(self.cap());
        b == &snap.before[..] && a == &snap.after[..] && alloc[from..] == snap.alloc[from..]
    }
    /// only the slack (neighbour images / canaries) equal to the snapshot?
    pub fn slack_ok(&self, snap: &Frame) -> bool {
        let (b, a) = self.slack();
        b == &snap.before[..] && a == &snap.after[..]
    }
    pub fn begin_op(&self) {
        self.refused_now.set(false);
        self.limit_now.set(false);
        self.reallocs_now.set(0);
        self.realloc_log.borrow_mut().clear();
    }
}

unsafe impl UnsizedTypeDataAccess for Access {
    unsafe fn unsized_data_realloc(this: &Self, data: &mut *mut [u8], new_len: usize) -> star_frame::Result<()> {
        let cur = this.len.get();
        if new_len > cur {
            let g = this.grow_calls.get() + 1;
            this.grow_calls.set(g);
            if this.refuse.contains(&g) {
                this.refused_now.set(true);
                this.realloc_log.borrow_mut().push((cur, new_len, false));
                return Err(ProgramError::InvalidRealloc.into());
            }
            if new_len > this.cap() {
                this.limit_now.set(true);
                this.realloc_log.borrow_mut().push((cur, new_len, false));
                return Err(ProgramError::InvalidRealloc.into());
            }
            unsafe { std::ptr::write_bytes(this.base().add(cur), 0, new_len - cur) };
        }
        if new_len != cur {
            this.reallocs_now.set(this.reallocs_now.get() + 1);
        }
        this.realloc_log.borrow_mut().push((cur, new_len, true));
        this.len.set(new_len);
        *data = std::ptr::slice_from_raw_parts_mut(data.cast::<u8>(), new_len);
        Ok(())
    }

    fn data_ref(this: &Self) -> star_frame::Result<impl std::ops::Deref<Target = [u8]>> {
        let s: &[u8] = unsafe { std::slice::from_raw_parts(this.base(), this.len.get()) };
        Ok(s)
    }

    fn data_mut(this: &Self) -> star_frame::Result<UnsizedDataMut<'_>> {
        let ptr: *mut [u8] = std::ptr::slice_from_raw_parts_mut(this.base(), this.len.get());
        let start = this.base() as usize;
        Ok((ptr, start..start + this.cap(), Box::new(Guard)))
    }
}


// ------------------------------------------------------------------------------------------------
// what the case driver needs from a backing store

pub trait Backing: 'static {
    /// the data access object handed to the wrappers
    type A: UnsizedTypeDataAccess + 'static;
    /// a fresh `SharedWrapper` can be taken while exclusive accessors are live
    const SHARED_WHILE_EXCLUSIVE: bool;
    /// the backing has no realloc log of its own: the raw trace must be recorded for every property
    const NEEDS_TRACE: bool;
    /// growth beyond `orig + 10240` is refused by a PANIC ("data too large") instead of `Err(InvalidRealloc)`
    const LIMIT_PANICS: bool = false;
    fn create(initial: &[u8], refuse: Vec<u32>, guard: bool, end_aligned: bool) -> Option<Box<Self>>;
    /// two buffers for a swap case (C03): `A`, `B`
    fn create_pair(a: &[u8], b: &[u8], end_aligned: bool) -> Option<(Box<Self>, Box<Self>)>;
    fn da(&self) -> &Self::A;
    fn len(&self) -> usize;
    fn cap(&self) -> usize;
    fn base_addr(&self) -> usize;
    fn bytes(&self) -> Vec<u8>;
    fn begin_op(&self);
    /// called with the op's raw trace (C03) so that backings without their own log can derive the flags
    fn note_trace(&self, _reallocs: &[(usize, usize)]) {}
    fn refused_now(&self) -> bool;
    fn limit_now(&self) -> bool;
    fn reallocs_now(&self) -> u32;
    fn grow_calls(&self) -> u32;
    /// (old_len, new_len, succeeded) of every realloc call of the op
    fn realloc_log(&self) -> Vec<(usize, usize, bool)>;
    fn snapshot(&self) -> Frame;
    fn frame_ok(&self, snap: &Frame, from: usize) -> bool;
    /// after a swap: everything that belongs to neither buffer of the case unchanged?
    fn slack_ok(&self, snap: &Frame) -> bool;
    fn canary_ok(&self) -> bool;
}

impl Backing for Access {
    type A = Access;
    const SHARED_WHILE_EXCLUSIVE: bool = true;
    const NEEDS_TRACE: bool = false;
    fn create(initial: &[u8], refuse: Vec<u32>, guard: bool, end_aligned: bool) -> Option<Box<Self>> {
        Some(Box::new(if guard { Access::new_guard(initial, refuse, end_aligned) } else { Access::new(initial, refuse) }))
    }
    fn create_pair(a: &[u8], b: &[u8], end_aligned: bool) -> Option<(Box<Self>, Box<Self>)> {
        Some((Box::new(Access::new_guard(a, vec![], end_aligned)), Box::new(Access::new_guard(b, vec![], end_aligned))))
    }
    fn da(&self) -> &Access {
        self
    }
    fn len(&self) -> usize {
        Access::len(self)
    }
    fn cap(&self) -> usize {
        Access::cap(self)
    }
    fn base_addr(&self) -> usize {
        Access::base_addr(self)
    }
    fn bytes(&self) -> Vec<u8> {
        Access::bytes(self)
    }
    fn begin_op(&self) {
        Access::begin_op(self)
    }
    fn refused_now(&self) -> bool {
        self.refused_now.get()
    }
    fn limit_now(&self) -> bool {
        self.limit_now.get()
    }
    fn reallocs_now(&self) -> u32 {
        self.reallocs_now.get()
    }
    fn grow_calls(&self) -> u32 {
        self.grow_calls.get()
    }
    fn realloc_log(&self) -> Vec<(usize, usize, bool)> {
        self.realloc_log.borrow().clone()
    }
    fn snapshot(&self) -> Frame {
        Access::snapshot(self)
    }
    fn frame_ok(&self, snap: &Frame, from: usize) -> bool {
        Access::frame_ok(self, snap, from)
    }
    fn slack_ok(&self, snap: &Frame) -> bool {
        Access::slack_ok(self, snap)
    }
    fn canary_ok(&self) -> bool {
        Access::canary_ok(self)
    }
}

// ------------------------------------------------------------------------------------------------
// a NATIVE ACCOUNT as backing store: exercises `impl UnsizedTypeDataAccess for AccountInfo` (wrapper.rs)

use hx_native::{key_from, AcctSpec, World, STATIC_ACCOUNT_DATA};
use star_frame::prelude::AccountInfo;

/// Serialized runtime input with a predecessor account, the account(s) under test, and a canary account
/// right behind (its header + data are the "next account image"). The refusal of growth comes from the
/// real `AccountInfo::resize_unchecked` limit (`orig + 10240`); there is no schedule.
///
/// Plain cases: `[prev, X, next]`. Swap cases (`create_pair`): `[prev, A, B, next]` in ONE input buffer —
/// `B` is serialized DIRECTLY BEHIND `A` (B's data starts `pad8 + 8 + 88` bytes after A's allocation end),
/// both backings share the `World`.
pub struct AcctBacking {
    world: Rc<World>,
    /// index of this account in the world
    idx: usize,
    orig: usize,
    /// start of the whole input buffer and its length
    buf_base: *const u8,
    buf_len: usize,
    /// offset of the account's data within the buffer
    data_off: usize,
    /// (data offset, capacity) of every account under test of the case (this one and, in a swap case, its
    /// partner): what may legitimately change after a swap
    tested: Vec<(usize, usize)>,
    limit_now: Cell<bool>,
    reallocs_now: Cell<u32>,
    grow_calls: Cell<u32>,
    log: RefCell<Vec<(usize, usize, bool)>>,
}

const PREV_DATA: usize = 37;
const NEXT_DATA: usize = 300;

fn acct_span(data_len: usize) -> usize {
    let mut n = STATIC_ACCOUNT_DATA + data_len + MAX_INCREASE;
    n = n.div_ceil(8) * 8;
    n + 8
}

impl AcctBacking {
    fn whole(&self) -> &[u8] {
        unsafe { std::slice::from_raw_parts(self.buf_base, self.buf_len) }
    }

    /// `[prev, tested…, next]`; one backing per tested account
    fn build(tested: &[&[u8]]) -> Option<Vec<Box<AcctBacking>>> {
        let owner = key_from(99);
        let prev: Vec<u8> = (0..PREV_DATA).map(|i| (i as u8).wrapping_mul(29) ^ 0xA5).collect();
        let next: Vec<u8> = (0..NEXT_DATA).map(|i| b"NEXT-ACCOUNT-DATA/"[i % 18] ^ ((i / 18) as u8).wrapping_mul(41)).collect();
        let mut specs = vec![AcctSpec::new(key_from(1), owner).data(prev).lamports(11).writable(true)];
        for (k, d) in tested.iter().enumerate() {
            specs.push(AcctSpec::new(key_from(2 + k as u64), owner).data(d.to_vec()).lamports(22 + k as u64).writable(true));
        }
        specs.push(AcctSpec::new(key_from(2 + tested.len() as u64), owner).data(next).lamports(33).writable(true));
        let world = Rc::new(World::new(&specs));
        // layout of hx_native::World::with_ix: n(8), then per account header(88) data pad(10240) align(8) rent_epoch(8), ix len(8), program id(32)
        let mut off = 8 + acct_span(PREV_DATA);
        let mut offs = vec![];
        for d in tested {
            offs.push((off + STATIC_ACCOUNT_DATA, d.len() + MAX_INCREASE));
            off += acct_span(d.len());
        }
        let buf_len = off + acct_span(NEXT_DATA) + 8 + 32;
        let buf_base = unsafe { world.raw_region(1).as_ptr().sub(offs[0].0) };
        // cross-check the layout assumption against the World's own view of every account
        if world.raw_region(0).as_ptr() as usize != buf_base as usize + 8 + STATIC_ACCOUNT_DATA {
            return None;
        }
        for (k, (o, _)) in offs.iter().enumerate() {
            if world.raw_region(1 + k).as_ptr() as usize != buf_base as usize + o {
                return None;
            }
        }
        Some(
            tested
                .iter()
                .enumerate()
                .map(|(k, d)| {
                    Box::new(AcctBacking {
                        world: world.clone(),
                        idx: 1 + k,
                        orig: d.len(),
                        buf_base,
                        buf_len,
                        data_off: offs[k].0,
                        tested: offs.clone(),
                        limit_now: Cell::new(false),
                        reallocs_now: Cell::new(0),
                        grow_calls: Cell::new(0),
                        log: RefCell::new(vec![]),
                    })
                })
                .collect(),
        )
    }
}

impl Backing for AcctBacking {
    type A = AccountInfo;
    const SHARED_WHILE_EXCLUSIVE: bool = false;
    const NEEDS_TRACE: bool = true;
    fn create(initial: &[u8], refuse: Vec<u32>, _guard: bool, _end_aligned: bool) -> Option<Box<Self>> {
        if !refuse.is_empty() {
            // a real account cannot refuse by schedule
            return None;
        }
        AcctBacking::build(&[initial])?.pop()
    }
    fn create_pair(a: &[u8], b: &[u8], _end_aligned: bool) -> Option<(Box<Self>, Box<Self>)> {
        let mut v = AcctBacking::build(&[a, b])?;
        let b = v.pop()?;
        let a = v.pop()?;
        Some((a, b))
    }
    fn da(&self) -> &AccountInfo {
        self.world.info(self.idx)
    }
    fn len(&self) -> usize {
        self.world.info(self.idx).data_len()
    }
    fn cap(&self) -> usize {
        self.orig + MAX_INCREASE
    }
    fn base_addr(&self) -> usize {
        self.buf_base as usize + self.data_off
    }
    fn bytes(&self) -> Vec<u8> {
        let n = self.len().min(self.cap());
        self.whole()[self.data_off..self.data_off + n].to_vec()
    }
    fn begin_op(&self) {
        self.limit_now.set(false);
        self.reallocs_now.set(0);
        self.log.borrow_mut().clear();
    }
    fn note_trace(&self, reallocs: &[(usize, usize)]) {
        // AccountInfo::resize_unchecked: Err iff the accumulated delta exceeds 10240 (or new_len > i32::MAX)
        let mut log = self.log.borrow_mut();
        for (old, new) in reallocs {
            let ok = *new <= self.cap() && *new <= i32::MAX as usize;
            if new > old {
                self.grow_calls.set(self.grow_calls.get() + 1);
                if !ok {
                    self.limit_now.set(true);
                }
            }
            if ok && new != old {
                self.reallocs_now.set(self.reallocs_now.get() + 1);
            }
            log.push((*old, *new, ok));
        }
    }
    fn refused_now(&self) -> bool {
        false
    }
    fn limit_now(&self) -> bool {
        self.limit_now.get()
    }
    fn reallocs_now(&self) -> u32 {
        self.reallocs_now.get()
    }
    fn grow_calls(&self) -> u32 {
        self.grow_calls.get()
    }
    fn realloc_log(&self) -> Vec<(usize, usize, bool)> {
        self.log.borrow().clone()
    }
    fn snapshot(&self) -> Frame {
        Frame { alloc: self.whole().to_vec(), before: vec![], after: vec![] }
    }
    /// Everything in the input buffer outside the account's `[data, data + from)` must be unchanged, except
    /// the account's own borrow-state byte, `resize_delta` and `data_len` header fields.
    fn frame_ok(&self, snap: &Frame, from: usize) -> bool {
        let now = self.whole();
        let hdr = self.data_off - STATIC_ACCOUNT_DATA;
        let from = from.min(self.cap());
        let mut ok = now[..hdr] == snap.alloc[..hdr];
        // header: [0] borrow state, [1..4] flags, [4..8] resize_delta, [8..80] key/owner/lamports, [80..88] data_len
        ok &= now[hdr + 1..hdr + 4] == snap.alloc[hdr + 1..hdr + 4];
        ok &= now[hdr + 8..hdr + 80] == snap.alloc[hdr + 8..hdr + 80];
        ok &= now[self.data_off + from..] == snap.alloc[self.data_off + from..];
        ok
    }
    /// Everything in the input buffer unchanged, except — for every account under test of the case — its
    /// borrow-state byte, `resize_delta`, `data_len` and its allocation `[data, data + orig + 10240)`.
    fn slack_ok(&self, snap: &Frame) -> bool {
        let now = self.whole();
        let mut pos = 0usize;
        let mut ok = true;
        for (d, cap) in &self.tested {
            let hdr = d - STATIC_ACCOUNT_DATA;
            ok &= now[pos..hdr] == snap.alloc[pos..hdr];
            ok &= now[hdr + 1..hdr + 4] == snap.alloc[hdr + 1..hdr + 4];
            ok &= now[hdr + 8..hdr + 80] == snap.alloc[hdr + 8..hdr + 80];
            pos = d + cap;
        }
        ok && now[pos..] == snap.alloc[pos..]
    }
    fn canary_ok(&self) -> bool {
        true
    }
}

// ------------------------------------------------------------------------------------------------
// the repository's OWN test backing (`star_frame::unsize::test_helpers::TestUnderlyingData`, the store of
// `TestByteSet`; `TestByteSet::data_mut()` is `ExclusiveWrapper::new(&test_data)`, `underlying_data()` is
// `data[..len]`)

use star_frame::unsize::TestUnderlyingData;

/// `TestUnderlyingData::new(orig)` (a `Vec` of `orig + 10240` bytes), initialised the way
/// `TestByteSet::initialize` does it. Growth past `orig + 10240` PANICS ("data too large") in this store; the
/// case driver answers that as `err:InvalidRealloc` and ends the case (`Backing::LIMIT_PANICS`). The store's
/// length cell is private and its `RefCell` is mutably borrowed while a top wrapper lives, so the length is
/// followed through the realloc trace (hook H3) and the bytes are read through the pointer `data_mut`
/// returned at creation (the `Vec` never reallocates); `data_ref` (= `underlying_data()`) is compared with
/// the model by the shared view at the end of every case.
pub struct TbsBacking {
    tud: TestUnderlyingData,
    base: *mut u8,
    orig: usize,
    len: Cell<usize>,
    limit_now: Cell<bool>,
    reallocs_now: Cell<u32>,
    grow_calls: Cell<u32>,
    log: RefCell<Vec<(usize, usize, bool)>>,
}

impl TbsBacking {
    fn make(initial: &[u8]) -> Option<Box<Self>> {
        let tud = TestUnderlyingData::new(initial.len());
        let base = {
            let (ptr, range, _guard) = UnsizedTypeDataAccess::data_mut(&tud).ok()?;
            let base = ptr.cast::<u8>();
            if range.start != base as usize || ptr.len() != initial.len() {
                return None;
            }
            unsafe { std::ptr::copy_nonoverlapping(initial.as_ptr(), base, initial.len()) };
            base
        };
        Some(Box::new(TbsBacking {
            tud,
            base,
            orig: initial.len(),
            len: Cell::new(initial.len()),
            limit_now: Cell::new(false),
            reallocs_now: Cell::new(0),
            grow_calls: Cell::new(0),
            log: RefCell::new(vec![]),
        }))
    }
}

impl Backing for TbsBacking {
    type A = TestUnderlyingData;
    const SHARED_WHILE_EXCLUSIVE: bool = false;
    const NEEDS_TRACE: bool = true;
    const LIMIT_PANICS: bool = true;
    fn create(initial: &[u8], refuse: Vec<u32>, _guard: bool, _end_aligned: bool) -> Option<Box<Self>> {
        if !refuse.is_empty() {
            return None;
        }
        TbsBacking::make(initial)
    }
    fn create_pair(a: &[u8], b: &[u8], _end_aligned: bool) -> Option<(Box<Self>, Box<Self>)> {
        TbsBacking::make(a).zip(TbsBacking::make(b))
    }
    fn da(&self) -> &TestUnderlyingData {
        &self.tud
    }
    fn len(&self) -> usize {
        self.len.get()
    }
    fn cap(&self) -> usize {
        self.orig + MAX_INCREASE
    }
    fn base_addr(&self) -> usize {
        self.base as usize
    }
    fn bytes(&self) -> Vec<u8> {
        let n = self.len().min(self.cap());
        unsafe { std::slice::from_raw_parts(self.base, n).to_vec() }
    }
    fn begin_op(&self) {
        self.limit_now.set(false);
        self.reallocs_now.set(0);
        self.log.borrow_mut().clear();
    }
    fn note_trace(&self, reallocs: &[(usize, usize)]) {
        // the store must refuse (panic) iff new_len > orig + 10240; a realloc it let through sets the length
        let mut log = self.log.borrow_mut();
        for (old, new) in reallocs {
            let ok = *new <= self.cap();
            if new > old {
                self.grow_calls.set(self.grow_calls.get() + 1);
                if !ok {
                    self.limit_now.set(true);
                }
            }
            if ok && new != old {
                self.reallocs_now.set(self.reallocs_now.get() + 1);
            }
            if ok {
                self.len.set(*new);
            }
            log.push((*old, *new, ok));
        }
    }
    fn refused_now(&self) -> bool {
        false
    }
    fn limit_now(&self) -> bool {
        self.limit_now.get()
    }
    fn reallocs_now(&self) -> u32 {
        self.reallocs_now.get()
    }
    fn grow_calls(&self) -> u32 {
        self.grow_calls.get()
    }
    fn realloc_log(&self) -> Vec<(usize, usize, bool)> {
        self.log.borrow().clone()
    }
    fn snapshot(&self) -> Frame {
        Frame { alloc: unsafe { std::slice::from_raw_parts(self.base, self.cap()).to_vec() }, before: vec![], after: vec![] }
    }
    fn frame_ok(&self, snap: &Frame, from: usize) -> bool {
        let from = from.min(self.cap());
        let now = unsafe { std::slice::from_raw_parts(self.base, self.cap()) };
        now[from..] == snap.alloc[from..]
    }
    fn slack_ok(&self, _snap: &Frame) -> bool {
        true
    }
    fn canary_ok(&self) -> bool {
        true
    }
}
